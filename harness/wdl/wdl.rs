// C18 (WDL half) and C05.wdl: attached as a child module of wow-wdl/src/lib.rs
#![allow(unused_imports, dead_code)]
#[path = "../env/io.rs"]
mod vio;
use vio::{CountSink, Sink, Src};

use super::types::*;
use super::version::WdlVersion;

/// parse(bytes) -> write reproduces the bytes exactly and consumes/produces exactly N bytes
macro_rules! bytes_roundtrip {
    ($name:ident, $ty:ty, $n:expr, $cap:expr) => {
        #[kani::proof]
        #[kani::stub(std::fmt::format, vio::fmt_stub)]
#[kani::stub(std::fmt::format, vio::fmt_stub)]
        #[kani::unwind(20)]
        fn $name() {
            let b: [u8; $n] = kani::any();
            let mut src = Src::<$n>::new(b, $n);
            let r = <$ty>::read(&mut src);
            assert!(r.is_ok(), "record of the documented size is rejected");
            let c = r.unwrap();
            assert!(src.pos == $n, "reader did not consume the documented record size");
            let mut out = Sink::<$cap>::new();
            assert!(c.write(&mut out).is_ok());
            kani::cover!(out.pos == $n);
            assert!(out.pos == $n, "writer did not produce the documented record size");
            let i: usize = kani::any();
            kani::assume(i < $n);
            assert!(out.buf[i] == b[i], "write(read(b)) != b");
            std::mem::forget(c);
        }
    };
}
bytes_roundtrip!(c18e_wdl_vec3d, Vec3d, 12, 16);
bytes_roundtrip!(c18e_wdl_bbox, BoundingBox, 24, 32);
bytes_roundtrip!(c18e_wdl_model_placement, ModelPlacement, 64, 72);
bytes_roundtrip!(c18e_wdl_m2_placement, M2Placement, 40, 48);
bytes_roundtrip!(c18e_wdl_m2_visibility, M2VisibilityInfo, 28, 32);
bytes_roundtrip!(c18e_wdl_holes, HolesData, 32, 40);

/// truncated records are errors, never panics
macro_rules! truncated_total {
    ($name:ident, $ty:ty, $n:expr) => {
        #[kani::proof]
        #[kani::stub(std::fmt::format, vio::fmt_stub)]
#[kani::stub(std::fmt::format, vio::fmt_stub)]
        #[kani::unwind(20)]
        fn $name() {
            let b: [u8; $n] = kani::any();
            let len: usize = kani::any();
            kani::assume(len < $n);
            let mut src = Src::<$n>::new(b, len);
            let r = <$ty>::read(&mut src);
            kani::cover!(len == $n - 1);
            assert!(r.is_err(), "truncated record accepted");
            std::mem::forget(r);
        }
    };
}
truncated_total!(c05_wdl_model_placement_truncated, ModelPlacement, 64);
truncated_total!(c05_wdl_m2_placement_truncated, M2Placement, 40);
truncated_total!(c05_wdl_holes_truncated, HolesData, 32);

/// MARE: 545 heights; value at an arbitrary index survives write -> read; byte count is the one the
/// file writer adds to its running MAOF offset
#[kani::proof]
#[kani::stub(std::fmt::format, vio::fmt_stub)]
#[kani::unwind(300)]
fn c18e_wdl_heightmap_roundtrip() {
    let mut t = HeightMapTile::new();
    let i: usize = kani::any();
    let j: usize = kani::any();
    kani::assume(i < HeightMapTile::OUTER_COUNT && j < HeightMapTile::INNER_COUNT);
    let vo: i16 = kani::any();
    let vi: i16 = kani::any();
    t.outer_values[i] = vo;
    t.inner_values[j] = vi;
    let mut out = Sink::<1100>::new();
    assert!(t.write(&mut out).is_ok());
    kani::cover!(out.pos == 1090);
    assert!(out.pos == HeightMapTile::TOTAL_COUNT * 2, "MARE payload size differs from TOTAL_COUNT*2");
    assert!(out.pos == 1090, "MARE payload is not 545 i16");
    let mut src = Src::<1100>::new(out.buf, out.pos);
    let r = HeightMapTile::read(&mut src);
    assert!(r.is_ok());
    let d = r.unwrap();
    assert!(d.outer_values.len() == 289 && d.inner_values.len() == 256);
    assert!(d.outer_values[i] == vo && d.inner_values[j] == vi, "height value moved or changed");
    let k: usize = kani::any();
    kani::assume(k < 289 && k != i);
    assert!(d.outer_values[k] == 0, "height value appeared elsewhere");
    std::mem::forget((t, d));
}

/// generic chunk framing: header declares exactly the payload that follows
#[kani::proof]
#[kani::stub(std::fmt::format, vio::fmt_stub)]
#[kani::unwind(12)]
fn c18e_wdl_chunk_framing() {
    let magic: [u8; 4] = kani::any();
    let payload: [u8; 6] = kani::any();
    let n: usize = 6;
    let c = Chunk::new(magic, payload[..n].to_vec());
    let mut out = Sink::<16>::new();
    assert!(c.write(&mut out).is_ok());
    kani::cover!(out.pos == 14);
    assert!(out.pos == 8 + n, "chunk bytes != 8 + payload");
    let declared = u32::from_le_bytes([out.buf[4], out.buf[5], out.buf[6], out.buf[7]]) as usize;
    assert!(declared == n, "declared chunk size != payload length");
    let mut src = Src::<16>::new(out.buf, out.pos);
    let r = Chunk::read(&mut src);
    assert!(r.is_ok());
    let d = r.unwrap();
    assert!(d.magic == magic && d.size as usize == n && d.data.len() == n);
    let i: usize = kani::any();
    kani::assume(i < n);
    assert!(d.data[i] == payload[i]);
    std::mem::forget((c, d));
}

#[kani::proof]
#[kani::stub(std::fmt::format, vio::fmt_stub)]
#[kani::unwind(20)]
fn c18_wdl_canary() {
    let b: [u8; 12] = kani::any();
    let mut src = Src::<12>::new(b, 12);
    let v = Vec3d::read(&mut src).unwrap();
    assert!(v.x.to_bits() != 7, "canary: must be reported as failing");
}
