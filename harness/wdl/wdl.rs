// C18 (WDL half) and C05.wdl: attached as a child module of wow-wdl/src/lib.rs
#![allow(unused_imports, dead_code)]
#[path = "../env/io.rs"]
mod vio;
use vio::{CountSink, Sink, Src};

use super::types::*;
use super::version::WdlVersion;

/// parse(bytes) -> write reproduces the bytes exactly and consumes/produces exactly N bytes
macro_rules! bytes_roundtrip {
    ($name:ident, $ty:ty, $n:expr, $cap:expr) => {
        #[kani::proof]
        #[kani::stub(std::fmt::format, vio::fmt_stub)]
#[kani::stub(std::fmt::format, vio::fmt_stub)]
        #[kani::unwind(20)]
        fn $name() {
            let b: [u8; $n] = kani::any();
            let mut src = Src::<$n>::new(b, $n);
            let r = <$ty>::read(&mut src);
            assert!(r.is_ok(), "record of the documented size is rejected");
            let c = r.unwrap();
            assert!(src.pos == $n, "reader did not consume the documented record size");
            let mut out = Sink::<$cap>::new();
            assert!(c.write(&mut out).is_ok());
            kani::cover!(out.pos == $n);
            assert!(out.pos == $n, "writer did not produce the documented record size");
            let i: usize = kani::any();
            kani::assume(i < $n);
            assert!(out.buf[i] == b[i], "write(read(b)) != b");
            std::mem::forget(c);
        }
    };
}
bytes_roundtrip!(c18e_wdl_vec3d, Vec3d, 12, 16);
bytes_roundtrip!(c18e_wdl_bbox, BoundingBox, 24, 32);
bytes_roundtrip!(c18e_wdl_model_placement, ModelPlacement, 64, 72);
bytes_roundtrip!(c18e_wdl_m2_placement, M2Placement, 40, 48);
bytes_roundtrip!(c18e_wdl_m2_visibility, M2VisibilityInfo, 28, 32);
bytes_roundtrip!(c18e_wdl_holes, HolesData, 32, 40);

/// truncated records are errors, never panics
macro_rules! truncated_total {
    ($name:ident, $ty:ty, $n:expr) => {
        #[kani::proof]
        #[kani::stub(std::fmt::format, vio::fmt_stub)]
#[kani::stub(std::fmt::format, vio::fmt_stub)]
        #[kani::unwind(20)]
        fn $name() {
            let b: [u8; $n] = kani::any();
            let len: usize = kani::any();
            kani::assume(len < $n);
            let mut src = Src::<$n>::new(b, len);
            let r = <$ty>::read(&mut src);
            kani::cover!(len == $n - 1);
            assert!(r.is_err(), "truncated record accepted");
            std::mem::forget(r);
        }
    };
}
truncated_total!(c05_wdl_model_placement_truncated, ModelPlacement, 64);
truncated_total!(c05_wdl_m2_placement_truncated, M2Placement, 40);
truncated_total!(c05_wdl_holes_truncated, HolesData, 32);

/// MARE: 545 heights; value at an arbitrary index survives write -> read; byte count is the one the
/// file writer adds to its running MAOF offset
#[kani::proof]
#[kani::stub(std::fmt::format, vio::fmt_stub)]
#[kani::unwind(300)]
fn c18e_wdl_heightmap_roundtrip() {
    let mut t = HeightMapTile::new();
    let i: usize = kani::any();
    let j: usize = kani::any();
    kani::assume(i < HeightMapTile::OUTER_COUNT && j < HeightMapTile::INNER_COUNT);
    let vo: i16 = kani::any();
    let vi: i16 = kani::any();
    t.outer_values[i] = vo;
    t.inner_values[j] = vi;
    let mut out = Sink::<1100>::new();
    assert!(t.write(&mut out).is_ok());
    kani::cover!(out.pos == 1090);
    assert!(out.pos == HeightMapTile::TOTAL_COUNT * 2, "MARE payload size differs from TOTAL_COUNT*2");
    assert!(out.pos == 1090, "MARE payload is not 545 i16");
    let mut src = Src::<1100>::new(out.buf, out.pos);
    let r = HeightMapTile::read(&mut src);
    assert!(r.is_ok());
    let d = r.unwrap();
    assert!(d.outer_values.len() == 289 && d.inner_values.len() == 256);
    assert!(d.outer_values[i] == vo && d.inner_values[j] == vi, "height value moved or changed");
    let k: usize = kani::any();
    kani::assume(k < 289 && k != i);
    assert!(d.outer_values[k] == 0, "height value appeared elsewhere");
    std::mem::forget((t, d));
}

/// generic chunk framing: header declares exactly the payload that follows
#[kani::proof]
#[kani::stub(std::fmt::format, vio::fmt_stub)]
#[kani::unwind(12)]
fn c18e_wdl_chunk_framing() {
    let magic: [u8; 4] = kani::any();
    let payload: [u8; 6] = kani::any();
    let n: usize = 6;
    let c = Chunk::new(magic, payload[..n].to_vec());
    let mut out = Sink::<16>::new();
    assert!(c.write(&mut out).is_ok());
    kani::cover!(out.pos == 14);
    assert!(out.pos == 8 + n, "chunk bytes != 8 + payload");
    let declared = u32::from_le_bytes([out.buf[4], out.buf[5], out.buf[6], out.buf[7]]) as usize;
    assert!(declared == n, "declared chunk size != payload length");
    let mut src = Src::<16>::new(out.buf, out.pos);
    let r = Chunk::read(&mut src);
    assert!(r.is_ok());
    let d = r.unwrap();
    assert!(d.magic == magic && d.size as usize == n && d.data.len() == n);
    let i: usize = kani::any();
    kani::assume(i < n);
    assert!(d.data[i] == payload[i]);
    std::mem::forget((c, d));
}

#[kani::proof]
#[kani::stub(std::fmt::format, vio::fmt_stub)]
#[kani::unwind(20)]
fn c18_wdl_canary() {
    let b: [u8; 12] = kani::any();
    let mut src = Src::<12>::new(b, 12);
    let v = Vec3d::read(&mut src).unwrap();
    assert!(v.x.to_bits() != 7, "canary: must be reported as failing");
}

// ------------------------------------------------------------------ C18.f the WDL file writer: MAOF offsets vs. what is written
// WdlParser::write on a map with three tiles (the middle one without a holes entry), contents symbolic: every
// MAOF entry of a present tile is the absolute file offset of that tile's MARE chunk (magic, declared size 1090,
// the tile's heights), a MAHO chunk follows exactly the tiles that have holes (and never in a version without
// MAHO), absent tiles have offset 0, the chunks tile the file up to its end.
fn rd32(b: &[u8], o: usize) -> u32 { u32::from_le_bytes([b[o], b[o + 1], b[o + 2], b[o + 3]]) }
fn rd16(b: &[u8], o: usize) -> i16 { i16::from_le_bytes([b[o], b[o + 1]]) }

const MARE_BYTES: usize = 8 + 545 * 2;
const MAHO_BYTES: usize = 8 + 32;

fn wdl_writer_offsets(version: WdlVersion, holes_on: [bool; 3]) {
    use super::parser::WdlParser;
    let tiles: [(u32, u32); 3] = [(3, 0), (5, 0), (0, 1)];
    let mut f = WdlFile::new();
    f.version = version;
    f.version_number = version.version_number();
    let hv: [i16; 3] = kani::any();
    let hi: [i16; 3] = kani::any();
    let masks: [u16; 3] = kani::any();
    let mut k = 0;
    while k < 3 {
        let mut t = HeightMapTile::new();
        t.outer_values[0] = hv[k];
        t.inner_values[255] = hi[k];
        f.heightmap_tiles.insert(tiles[k], t);
        if holes_on[k] {
            let mut h = HolesData::new();
            h.hole_masks[15] = masks[k];
            f.holes_data.insert(tiles[k], h);
        }
        k += 1;
    }
    let mut out = Sink::<20480>::new();
    let r = WdlParser::with_version(version).write(&mut out, &f);
    assert!(r.is_ok(), "writing a valid WDL map fails");
    let b = &out.buf;
    // MVER (12 bytes), then MAOF
    assert!(rd32(b, 4) == 4 && rd32(b, 8) == 18, "MVER chunk");
    let maof = 12;
    assert!(rd32(b, maof + 4) == 64 * 64 * 4, "MAOF declares another size than 4096 offsets");
    let has_maho = version.has_maho_chunk();
    let mut expect = maof + 8 + 64 * 64 * 4;
    let mut k = 0;
    while k < 3 {
        let idx = (tiles[k].1 * 64 + tiles[k].0) as usize;
        let off = rd32(b, maof + 8 + 4 * idx) as usize;
        assert!(off == expect, "MAOF entry of a present tile is not the file offset of its MARE chunk");
        assert!(b[off] == b'E' && b[off + 1] == b'R' && b[off + 2] == b'A' && b[off + 3] == b'M',
            "MAOF entry does not point at a MARE chunk");
        assert!(rd32(b, off + 4) as usize == 545 * 2, "MARE chunk declares another size than 545 heights");
        assert!(rd16(b, off + 8) == hv[k] && rd16(b, off + 8 + 2 * (289 + 255)) == hi[k], "MARE chunk at the MAOF offset holds another tile's heights");
        expect += MARE_BYTES;
        if has_maho && holes_on[k] {
            assert!(b[expect] == b'O' && b[expect + 1] == b'H' && b[expect + 2] == b'A' && b[expect + 3] == b'M',
                "holes chunk does not follow its tile's heights");
            assert!(rd32(b, expect + 4) == 32 && u16::from_le_bytes([b[expect + 8 + 30], b[expect + 8 + 31]]) == masks[k], "MAHO content");
            expect += MAHO_BYTES;
        }
        k += 1;
    }
    kani::cover!(out.pos == expect);
    assert!(out.pos == expect, "file length differs from header chunks + MAOF + the tiles' chunks");
    // every other MAOF entry is 0
    let j: usize = kani::any();
    kani::assume(j < 4096 && j != 3 && j != 5 && j != 64);
    assert!(rd32(b, maof + 8 + 4 * j) == 0, "absent tile has a non-zero MAOF offset");
    std::mem::forget((f, r));
}

macro_rules! wdl_writer {
    ($name:ident, $ver:expr, $holes:expr) => {
        #[kani::proof]
        #[kani::stub(std::fmt::format, vio::fmt_stub)]
        #[kani::unwind(4100)]
        fn $name() { wdl_writer_offsets($ver, $holes) }
    };
}
wdl_writer!(c18f_wdl_writer_offsets_wotlk_middle_without_holes, WdlVersion::Wotlk, [true, false, true]);
wdl_writer!(c18f_wdl_writer_offsets_wotlk_no_holes, WdlVersion::Wotlk, [false, false, false]);
wdl_writer!(c18f_wdl_writer_offsets_vanilla, WdlVersion::Vanilla, [true, false, true]);
wdl_writer!(c18f_wdl_writer_offsets_legion_all_holes, WdlVersion::Legion, [true, true, true]);
