# C11 - extraction never writes outside the chosen output directory: the containment kernel of the CLI.
# Executed inside catalogue.py's namespace.
CRATES["cli"] = {
    "dir": "warcraft-rs",
    "attach": [("src/commands/mpq.rs", "cli/extract_path.rs", "verif_kani_extract_path", "")],
    # only the mpq sub-command is compiled (the other format crates are optional features of the CLI)
    "kani_args": ["--lib", "--no-default-features", "--features", "mpq"],
}

OUTSIDE["C11"] = [
    "the process-level clause itself: which files `warcraft-rs mpq extract` creates (fs::create_dir_all / fs::write, symlinks already "
    "present under the output directory, case-insensitive or Unicode-normalising file systems, Windows reserved device names and "
    "trailing dots/spaces) - a bounded model checker has no file system; decided is the pure predicate every entry name has to pass",
    "extraction_relative_path itself (split on the two separators, drop empty and '.' pieces, collect into a PathBuf / take the last): "
    "str::split + PathBuf::push over symbolic-length pieces did not finish in CBMC even for 2-byte names (8 GB, > 5 min); that its result has "
    "normal components only follows from the decided predicate (no '..' piece, no ':') and the filter it applies (no empty, no '.' piece) - read, not executed",
    "that extract_files_with_options routes every name through extraction_relative_path (two call sites, read off the source; the harness "
    "cannot see a call site that bypasses the helper)",
    "entry names longer than 12 bytes (24 in the thorough tier)",
    "other extraction paths of the workspace: wow_mpq::rebuild (temp dirs), examples, storm-ffi SFileExtractFile (caller-supplied target path)",
]

_X = "verif_kani_extract_path"
_xf = ["commands::mpq::entry_name_is_contained (the rejection kernel of extraction_relative_path)"]
H("C11", "cli", _X, "quick", "C11.a an entry name is accepted exactly when none of its components (pieces between '\\\\' and '/') is '..' or contains ':' and a component other than '.' exists - "
  "so no accepted name can make the joined output path leave the output directory, and harmless names are not refused",
  ["c11_contained_n%d" % n for n in (1, 2, 3, 4, 5, 6, 7, 8, 10, 12)],
  _xf, "entry name: EVERY byte string of exactly N bytes (symbolic)", "N in 1..=8, 10, 12 bytes (the empty name is refused: concrete)", stubs=[FMT], timeout=600)
H("C11", "cli", _X, "thorough", "C11.a 16-, 20- and 24-byte names", ["c11_contained_n16", "c11_contained_n20", "c11_contained_n24"], _xf,
  "entry name: every byte string of exactly N bytes", "N in {16, 20, 24}", stubs=[FMT], timeout=2400)
H("C11", "cli", _X, "quick", "canary", ["c11_canary"], _xf, "vacuity twin", "-", expect="canary", stubs=[FMT])
