# C11 - extraction never writes outside the chosen output directory: the name -> relative path kernel of the CLI.
# Executed inside catalogue.py's namespace.
CRATES["cli"] = {
    "dir": "warcraft-rs",
    "attach": [("src/commands/mpq.rs", "cli/extract_path.rs", "verif_kani_extract_path", "")],
    # only the mpq sub-command is compiled (the other format crates are optional features of the CLI)
    "kani_args": ["--lib", "--no-default-features", "--features", "mpq"],
}

OUTSIDE["C11"] = [
    "the process-level clause itself: which files `warcraft-rs mpq extract` creates (fs::create_dir_all / fs::write, symlinks already "
    "present under the output directory, case-insensitive or Unicode-normalising file systems, Windows reserved device names and "
    "trailing dots/spaces) - a bounded model checker has no file system; decided is the pure kernel every output path goes through",
    "that extract_files_with_options routes every name through extraction_relative_path (two call sites, read off the source; the harness "
    "cannot see a call site that bypasses the helper) and that Path::join of a relative path of normal components stays beneath its base "
    "(std semantics, checked by std's own component parser for 3-byte names)",
    "entry names longer than 6 bytes (8 in the thorough tier); output directories (the kernel does not depend on them)",
    "other extraction paths of the workspace: wow_mpq::rebuild (temp dirs), examples, storm-ffi SFileExtractFile (caller-supplied target path)",
]

_X = "verif_kani_extract_path"
_xf = ["commands::mpq::extraction_relative_path"]
_xin = "entry name: EVERY valid UTF-8 byte string of exactly N bytes (symbolic); mode (preserve paths / flat) concrete per harness"
H("C11", "cli", _X, "quick", "C11.a containment: a returned path is relative, non-empty and made of normal components only (no '..', '.', root, "
  "backslash, ':'), hence output_dir.join(path) stays beneath output_dir; C11.b function: it is the name's components joined by '/' "
  "(last component only without --preserve-paths); harmless names are not refused",
  ["c11_path_preserve_n%d" % n for n in (1, 2, 3, 4, 5)] + ["c11_path_flat_n%d" % n for n in (1, 2, 3, 4, 5)],
  _xf, _xin, "N in 1..=5 bytes", assumes=["bytes form valid UTF-8 (a &str cannot carry anything else)"], stubs=[FMT], timeout=600)
H("C11", "cli", _X, "thorough", "C11.a/b, 6-byte names (e.g. a\\..\\b, ..\\..\\, C:\\a/.)",
  ["c11_path_preserve_n6", "c11_path_flat_n6"], _xf, _xin, "N = 6 bytes", assumes=["bytes form valid UTF-8"], stubs=[FMT], timeout=2400)
H("C11", "cli", _X, "quick", "C11.a std's own path parser agrees: every component of a returned path is Component::Normal, the path is relative",
  ["c11_path_components_normal_n3"], _xf + ["std::path::Path::components (oracle)"],
  "entry name: every valid UTF-8 string of 3 bytes, mode symbolic", "N = 3 bytes", stubs=[FMT], timeout=900)
H("C11", "cli", _X, "quick", "canary", ["c11_canary"], _xf, "vacuity twin", "-", expect="canary", stubs=[FMT])
