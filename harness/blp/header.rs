// C16.a: mipmap dimension chain, pixel counts and header size constants.
// Child module of wow-blp/src/types/header.rs
#![allow(unused_imports, dead_code)]
#[path = "../env/io.rs"]
mod vio;

use super::*;

fn hdr(w: u32, h: u32) -> BlpHeader {
    BlpHeader {
        version: BlpVersion::Blp1,
        content: BlpContentTag::Direct,
        flags: BlpFlags::Old { alpha_bits: 8, extra: 4, has_mipmaps: 1 },
        width: w,
        height: h,
        mipmap_locator: MipmapLocator::External,
    }
}

/// floor(log2(x)) for x >= 1, integer arithmetic only (the format's level count law)
fn ilog2(x: u32) -> usize {
    (31 - x.leading_zeros()) as usize
}

/// level i+1 is level i with each side halved (rounded down, never below 1); level 0 is the image itself
#[kani::proof]
#[kani::stub(::std::fmt::format, vio::fmt_stub)]
fn c16a_mipmap_size_halves_each_side() {
    let w: u32 = kani::any();
    let h: u32 = kani::any();
    kani::assume(w >= 1 && w <= 65535 && h >= 1 && h <= 65535);
    let hd = hdr(w, h);
    assert!(hd.mipmap_size(0) == (w, h), "level 0 is not the image size");
    let i: usize = kani::any();
    kani::assume(i < 16);
    let (a, b) = hd.mipmap_size(i);
    let (c, d) = hd.mipmap_size(i + 1);
    kani::cover!(a == 3 && c == 1 && b == 1 && d == 1);
    kani::cover!(a == 65535 && i == 0);
    assert!(c == if a / 2 > 1 { a / 2 } else { 1 }, "mipmap width is not half of the previous level (min 1)");
    assert!(d == if b / 2 > 1 { b / 2 } else { 1 }, "mipmap height is not half of the previous level (min 1)");
}

/// the chain reaches 1x1 exactly at level floor(log2(max(w,h))) and not before
#[kani::proof]
#[kani::stub(::std::fmt::format, vio::fmt_stub)]
fn c16a_chain_reaches_1x1_at_log2_max() {
    let w: u32 = kani::any();
    let h: u32 = kani::any();
    kani::assume(w >= 1 && w <= 65535 && h >= 1 && h <= 65535);
    let hd = hdr(w, h);
    let m = if w > h { w } else { h };
    let last = ilog2(m);
    kani::cover!(last == 15);
    kani::cover!(last == 0);
    kani::cover!(w == 100 && h == 60);
    assert!(last <= 15, "more than 16 levels for a side <= 65535");
    assert!(hd.mipmap_size(last) == (1, 1), "mipmap chain does not reach 1x1 at level floor(log2(max(w,h)))");
    let i: usize = kani::any();
    kani::assume(i < last);
    assert!(hd.mipmap_size(i) != (1, 1), "mipmap chain reaches 1x1 before level floor(log2(max(w,h)))");
    // and stays there
    let j: usize = kani::any();
    kani::assume(j >= last && j <= 16);
    assert!(hd.mipmap_size(j) == (1, 1), "mipmap chain leaves 1x1 again");
}

/// pixel counts: no 32-bit overflow for sides <= 65535, equal to the product of the level's sides,
/// and non-increasing along the chain
#[kani::proof]
#[kani::stub(::std::fmt::format, vio::fmt_stub)]
fn c16a_mipmap_pixels_exact() {
    let w: u32 = kani::any();
    let h: u32 = kani::any();
    kani::assume(w >= 1 && w <= 65535 && h >= 1 && h <= 65535);
    let hd = hdr(w, h);
    let i: usize = kani::any();
    kani::assume(i <= 15);
    let n = hd.mipmap_pixels(i); // Kani checks the multiplication for overflow
    let (a, b) = hd.mipmap_size(i);
    kani::cover!(w == 65535 && h == 65535 && i == 0);
    assert!(n as u64 == a as u64 * b as u64, "mipmap_pixels != width*height of the level");
    assert!(n >= 1, "a level with zero pixels");
    let n2 = hd.mipmap_pixels(i + 1);
    assert!(n2 <= n, "a smaller level has more pixels");
}

/// the byte sizes the raw encoders derive from a level (w*h indices + ceil(w*h*alpha/8) alpha bytes, 4*w*h
/// BGRA bytes) fit in the 32-bit size table for every level of an image in the property's domain (<= 512x512)
#[kani::proof]
#[kani::stub(::std::fmt::format, vio::fmt_stub)]
fn c16a_level_byte_sizes_fit_u32() {
    let w: u32 = kani::any();
    let h: u32 = kani::any();
    kani::assume(w >= 1 && w <= 512 && h >= 1 && h <= 512);
    let ab: u32 = kani::any();
    kani::assume(ab == 0 || ab == 1 || ab == 4 || ab == 8);
    let mut hd = hdr(w, h);
    hd.flags = BlpFlags::Old { alpha_bits: ab, extra: 4, has_mipmaps: 1 };
    let i: usize = kani::any();
    kani::assume(i <= 15);
    let n = hd.mipmap_pixels(i);
    // the expression the parsers use
    let an = (n * hd.alpha_bits()).div_ceil(8);
    kani::cover!(w == 512 && h == 512 && ab == 8 && i == 0);
    kani::cover!(n == 3 && ab == 1 && an == 1);
    assert!(an as u64 == (n as u64 * ab as u64 + 7) / 8, "alpha byte count != ceil(pixels*alpha_bits/8)");
    assert!((n as u64) + (an as u64) <= u32::MAX as u64 && (n as u64) * 4 <= u32::MAX as u64);
}

/// header sizes of the published format: BLP0 = 7 dwords, BLP1 = 7 dwords + 2*16 dwords, BLP2 = 5 dwords + 2*16 dwords
#[kani::proof]
#[kani::stub(::std::fmt::format, vio::fmt_stub)]
fn c16a_header_size_constants() {
    kani::cover!(true);
    assert!(BlpHeader::size(BlpVersion::Blp0) == 28, "BLP0 header size != 28");
    assert!(BlpHeader::size(BlpVersion::Blp1) == 156, "BLP1 header size != 156");
    assert!(BlpHeader::size(BlpVersion::Blp2) == 148, "BLP2 header size != 148");
}

/// tag conversions are mutually inverse (content tag, compression, alpha type)
#[kani::proof]
#[kani::stub(::std::fmt::format, vio::fmt_stub)]
fn c16a_tag_codecs_inverse() {
    let c: u32 = kani::any();
    if let Ok(t) = BlpContentTag::try_from(c) {
        kani::cover!(c == 1);
        assert!(u32::from(t) == c, "content tag does not survive decode->encode");
    }
    let k: u8 = kani::any();
    if let Ok(t) = Compression::try_from(k) {
        kani::cover!(k == 3);
        assert!(u8::from(t) == k, "compression tag does not survive decode->encode");
    }
    if let Ok(t) = AlphaType::try_from(k) {
        kani::cover!(k == 7);
        assert!(u8::from(t) == k, "alpha type does not survive decode->encode");
    }
    // published values: 0 jpeg, 1 palettised, 2 DXT, 3 raw BGRA
    assert!(u8::from(Compression::Jpeg) == 0 && u8::from(Compression::Raw1) == 1 && u8::from(Compression::Dxtc) == 2
        && u8::from(Compression::Raw3) == 3, "compression tag values differ from the format");
}

#[kani::proof]
#[kani::stub(::std::fmt::format, vio::fmt_stub)]
fn c16_header_canary() {
    let w: u32 = kani::any();
    kani::assume(w >= 1 && w <= 65535);
    let h = hdr(w, 1);
    assert!(h.mipmap_size(1).0 < w, "canary: must be reported as failing");
}
