// C05.blp.1: bounds helpers of the BLP parser are total for hostile (offset, size) pairs.
// Child module of src/parser/bounds.rs.  (lib.rs forbids unsafe code: none is used here.)
#![allow(unused_imports, dead_code)]
use super::*;

fn fmt_stub(_a: core::fmt::Arguments<'_>) -> String { String::new() }

#[kani::proof]
#[kani::unwind(4)]
#[kani::stub(::std::fmt::format, fmt_stub)]
fn c05_blp_check_bounds_total() {
    let input: [u8; 8] = kani::any();
    let len: usize = kani::any();
    kani::assume(len <= 8);
    let offset: u32 = kani::any();
    let size: u32 = kani::any();
    let r = check_bounds(&input[..len], offset, size, 0);
    kani::cover!(r.is_ok());
    kani::cover!(r.is_err());
    if r.is_ok() {
        assert!((offset as u64) + (size as u64) <= len as u64, "range outside the input accepted");
    }
    core::mem::forget(r);
}

#[kani::proof]
#[kani::unwind(4)]
#[kani::stub(::std::fmt::format, fmt_stub)]
fn c05_blp_bounded_slice_total() {
    let input: [u8; 8] = kani::any();
    let offset: u32 = kani::any();
    let size: u32 = kani::any();
    let r = get_bounded_slice(&input, offset, size, 0);
    kani::cover!(r.is_ok());
    if let Ok(s) = &r {
        assert!(s.len() == size as usize, "slice length differs from the declared size");
    }
    core::mem::forget(r);
}

#[kani::proof]
#[kani::unwind(4)]
#[kani::stub(::std::fmt::format, fmt_stub)]
fn c05_blp_bounds_canary() {
    let input: [u8; 8] = kani::any();
    let r = check_bounds(&input, kani::any(), 1, 0);
    assert!(r.is_ok(), "canary: must be reported as failing");
    core::mem::forget(r);
}
