// C16: access to the parser's private kernels for the encode->parse harnesses (blp/encode.rs) and the
// bounds-slice obligations.  Child module of wow-blp/src/parser/mod.rs (attached as pub(crate)).
#![allow(unused_imports, dead_code)]
#[path = "../env/io.rs"]
mod vio;

use super::*;

pub(crate) use super::direct::verif_kani_direct::{v_parse_blp0, v_parse_direct_content, v_parse_dxtn, v_parse_raw1, v_parse_raw3};

/// the real header parser
pub(crate) fn v_parse_header(input: &[u8]) -> ParseResult<BlpHeader> {
    super::header::parse_header(input)
}

/// the real JPEG content parser
pub(crate) fn v_parse_jpeg_content<'a, F>(h: &BlpHeader, ext: F, original: &'a [u8], input: &'a [u8]) -> ParseResult<BlpJpeg>
where
    F: FnMut(usize) -> Result<Option<&'a [u8]>, Box<dyn std::error::Error>>,
{
    super::jpeg::parse_jpeg_content(h, ext, original, input)
}

pub(crate) fn v_get_bounded_slice(input: &[u8], offset: u32, size: u32, i: usize) -> ParseResult<&[u8]> {
    super::bounds::get_bounded_slice(input, offset, size, i)
}

/// log2 as the mipmap-count formula consumes it: `(x as f32).log2() as usize`.  For every integer x in 0..=65535
/// the truncation of libm's log2 equals floor(log2 x) (0 for x = 0: -inf saturates to 0) - checked natively by an
/// exhaustive loop (NOTES.md).  CBMC's own log2f is an over-approximation and yields spurious counterexamples.
pub(crate) fn log2_model(x: f32) -> f32 {
    if x < 1.0 {
        return 0.0;
    }
    let n = x as u32;
    (31 - n.leading_zeros()) as f32
}

// ------------------------------------------------------------------ bounded slices (C16.c: "stored offsets and sizes lie inside the file")
/// get_bounded_slice returns exactly input[offset .. offset+size] when the range lies inside the input and an
/// error (no panic) otherwise
#[kani::proof]
#[kani::stub(::std::fmt::format, vio::fmt_stub)]
#[kani::unwind(4)]
fn c16c_bounded_slice_exact() {
    let input: [u8; 12] = kani::any();
    let off: u32 = kani::any();
    let size: u32 = kani::any();
    // offsets and sizes of a file the encoder produced: their sum fits in 32 bits
    kani::assume(off <= 0x7fff_ffff && size <= 0x7fff_ffff);
    let r = super::bounds::get_bounded_slice(&input, off, size, 0);
    let inside = (off as u64) < 12 && off as u64 + size as u64 <= 12;
    kani::cover!(inside && size == 12);
    kani::cover!(!inside && off == 11);
    match &r {
        Ok(s) => {
            assert!(inside, "a level outside the file is accepted");
            assert!(s.len() == size as usize, "level slice has a length different from the stored size");
            let j: usize = kani::any();
            kani::assume(j < s.len());
            assert!(s[j] == input[off as usize + j], "level slice does not start at the stored offset");
        }
        Err(_) => assert!(!inside, "a level that lies inside the file is rejected"),
    }
    std::mem::forget(r);
}

#[kani::proof]
#[kani::stub(::std::fmt::format, vio::fmt_stub)]
#[kani::unwind(4)]
fn c16_parser_canary() {
    let input: [u8; 12] = kani::any();
    let off: u32 = kani::any();
    kani::assume(off < 12);
    let r = super::bounds::get_bounded_slice(&input, off, 1, 0);
    let ok = r.is_ok();
    std::mem::forget(r);
    assert!(ok && off < 11, "canary: must be reported as failing");
}
