// C16: access to the private level parsers of parser/direct/ (blp0.rs, blp1.rs, blp2.rs) and the DXT block-count
// obligation.  Child module of wow-blp/src/parser/direct/mod.rs (attached as pub(crate)).
#![allow(unused_imports, dead_code)]
#[path = "../env/io.rs"]
mod vio;

use super::*;

pub(crate) fn v_parse_raw1(h: &BlpHeader, original: &[u8], offsets: &[u32; 16], sizes: &[u32; 16], images: &mut Vec<Raw1Image>) -> ParseResult<()> {
    super::blp1::parse_raw1(h, original, offsets, sizes, images, &[])
}

pub(crate) fn v_parse_raw3(h: &BlpHeader, original: &[u8], offsets: &[u32; 16], sizes: &[u32; 16], images: &mut Vec<Raw3Image>) -> ParseResult<()> {
    super::blp2::parse_raw3(h, original, offsets, sizes, images, &[])
}

pub(crate) fn v_parse_dxtn(h: &BlpHeader, f: DxtnFormat, original: &[u8], offsets: &[u32; 16], sizes: &[u32; 16], images: &mut Vec<DxtnImage>) -> ParseResult<()> {
    super::blp2::parse_dxtn(h, f, original, offsets, sizes, images, &[])
}

pub(crate) fn v_parse_blp0<'a, F>(h: &BlpHeader, ext: F, images: &mut Vec<Raw1Image>) -> ParseResult<()>
where
    F: FnMut(usize) -> Result<Option<&'a [u8]>, Box<dyn std::error::Error>>,
{
    super::blp0::parse_blp0(h, ext, images, &[])
}

pub(crate) fn v_parse_direct_content<'a, F>(h: &BlpHeader, ext: F, original: &'a [u8], input: &'a [u8]) -> ParseResult<BlpContent>
where
    F: FnMut(usize) -> Result<Option<&'a [u8]>, Box<dyn std::error::Error>>,
{
    super::parse_direct_content(h, ext, original, input)
}

pub(crate) fn dxt_header(w: u32, h: u32, alpha_type: AlphaType, has_mipmaps: u8, offsets: [u32; 16], sizes: [u32; 16]) -> BlpHeader {
    BlpHeader {
        version: BlpVersion::Blp2,
        content: BlpContentTag::Direct,
        flags: BlpFlags::Blp2 { compression: Compression::Dxtc, alpha_bits: 8, alpha_type, has_mipmaps },
        width: w,
        height: h,
        mipmap_locator: MipmapLocator::Internal { offsets, sizes },
    }
}

/// S3TC layout law: a w x h level is ceil(w/4) * ceil(h/4) blocks of `block_size` bytes
pub(crate) const fn dxt_level_bytes(w: usize, h: usize, block: usize) -> usize {
    ((w + 3) / 4) * ((h + 3) / 4) * block
}

/// parse_dxtn takes exactly the S3TC-sized level out of the file (no mipmaps): N = ceil(w/4)*ceil(h/4)*block bytes
/// stored at `offset` come back unchanged
fn dxtn_level0<const N: usize>(w: u32, h: u32, f: DxtnFormat) {
    assert!(N == dxt_level_bytes(w as usize, h as usize, f.block_size()));
    let mut file = [0u8; 64];
    let data: [u8; N] = kani::any();
    let off: usize = kani::any();
    kani::assume(off <= 64 - N);
    let mut k = 0;
    while k < N {
        file[off + k] = data[k];
        k += 1;
    }
    let mut offsets = [0u32; 16];
    let mut sizes = [0u32; 16];
    offsets[0] = off as u32;
    sizes[0] = N as u32;
    let hd = dxt_header(w, h, AlphaType::None, 0, offsets, sizes);
    let mut images = Vec::new();
    let r = super::blp2::parse_dxtn(&hd, f, &file, &offsets, &sizes, &mut images, &[]);
    assert!(r.is_ok(), "a DXT level stored inside the file is rejected");
    kani::cover!(images.len() == 1 && off == 3);
    assert!(images.len() == 1, "level count != 1 without mipmaps");
    assert!(images[0].content.len() == N, "DXT level read back with a length different from ceil(w/4)*ceil(h/4)*block_size");
    let j: usize = kani::any();
    kani::assume(j < N);
    assert!(images[0].content[j] == data[j], "DXT level bytes changed");
    std::mem::forget((images, r));
}

#[kani::proof]
#[kani::stub(::std::fmt::format, vio::fmt_stub)]
#[kani::unwind(34)]
fn c16c_dxt1_level0_4x4() { dxtn_level0::<8>(4, 4, DxtnFormat::Dxt1) }
#[kani::proof]
#[kani::stub(::std::fmt::format, vio::fmt_stub)]
#[kani::unwind(34)]
fn c16c_dxt3_level0_8x4() { dxtn_level0::<32>(8, 4, DxtnFormat::Dxt3) }
#[kani::proof]
#[kani::stub(::std::fmt::format, vio::fmt_stub)]
#[kani::unwind(34)]
fn c16c_dxt5_level0_2x2() { dxtn_level0::<16>(2, 2, DxtnFormat::Dxt5) }
#[kani::proof]
#[kani::stub(::std::fmt::format, vio::fmt_stub)]
#[kani::unwind(34)]
fn c16c_dxt1_level0_8x8() { dxtn_level0::<32>(8, 8, DxtnFormat::Dxt1) }

/// known finding dxt-blocks: parse_dxtn counts ceil(w*h/16) blocks; for 6x6 that is 3 blocks, the level has 4
#[kani::proof]
#[kani::stub(::std::fmt::format, vio::fmt_stub)]
#[kani::unwind(34)]
fn c16c_dxt1_level0_6x6_witness() { dxtn_level0::<32>(6, 6, DxtnFormat::Dxt1) }

#[kani::proof]
#[kani::stub(::std::fmt::format, vio::fmt_stub)]
#[kani::unwind(34)]
fn c16_direct_canary() {
    let file: [u8; 16] = kani::any();
    let mut offsets = [0u32; 16];
    let mut sizes = [0u32; 16];
    offsets[0] = 8;
    sizes[0] = 8;
    let hd = dxt_header(4, 4, AlphaType::None, 0, offsets, sizes);
    let mut images = Vec::new();
    let r = super::blp2::parse_dxtn(&hd, DxtnFormat::Dxt1, &file, &offsets, &sizes, &mut images, &[]);
    let b = images[0].content[0];
    std::mem::forget((images, r));
    assert!(b == file[0], "canary: must be reported as failing");
}

// ------------------------------------------------------------------ C05.blp.2 parse_dxtn on a hostile header
/// every width / height / mipmap flag a 148-byte BLP2 header can carry (sides are NOT limited to the 65535 the
/// encoder accepts), every locator offset: parse_dxtn returns a value or an error - no index beyond the
/// 16-entry locator, no arithmetic overflow in the block count - and never more than 16 levels
fn dxtn_hostile(f: DxtnFormat) {
    let file: [u8; 16] = kani::any();
    let w: u32 = kani::any();
    let h: u32 = kani::any();
    // libm log2 is modelled for sides below 2^31 (see log2_model)
    kani::assume(w < 0x8000_0000 && h < 0x8000_0000);
    let off: u32 = kani::any();
    let offsets = [off; 16];
    let sizes = [0u32; 16];
    let hd = dxt_header(w, h, AlphaType::None, kani::any(), offsets, sizes);
    let mut images = Vec::new();
    let r = super::blp2::parse_dxtn(&hd, f, &file, &offsets, &sizes, &mut images, &[]);
    kani::cover!(r.is_ok() && images.len() == 16, "full 16-level chain");
    kani::cover!(r.is_err());
    assert!(images.len() <= 16, "more levels than the mipmap locator has entries");
    std::mem::forget((images, r));
}
#[kani::proof]
#[kani::stub(::std::fmt::format, vio::fmt_stub)]
#[kani::stub(f32::log2, crate::parser::verif_kani_parser::log2_model)]
#[kani::unwind(20)]
fn c05_blp_parse_dxt1_hostile_header() { dxtn_hostile(DxtnFormat::Dxt1) }
#[kani::proof]
#[kani::stub(::std::fmt::format, vio::fmt_stub)]
#[kani::stub(f32::log2, crate::parser::verif_kani_parser::log2_model)]
#[kani::unwind(20)]
fn c05_blp_parse_dxt5_hostile_header() { dxtn_hostile(DxtnFormat::Dxt5) }

// ------------------------------------------------------------------ C16.c the DXT variant is chosen by the alpha type alone
/// BLP2 DXTC content: alpha type 0 -> DXT1, 1 -> DXT3, 7 -> DXT5 (published format), whatever the alpha-depth byte
/// says (the converter writes depth 0 for DXT3/DXT5 without alpha): the parsed content has that variant and its
/// level has the variant's block size
#[kani::proof]
#[kani::stub(::std::fmt::format, vio::fmt_stub)]
#[kani::unwind(260)]
fn c16c_dxt_variant_follows_alpha_type() {
    // 1024 palette bytes (zero) followed by one 16-byte block
    let mut file = [0u8; 1040];
    let blk: [u8; 16] = kani::any();
    let mut k = 0;
    while k < 16 { file[1024 + k] = blk[k]; k += 1; }
    let which: u8 = kani::any();
    kani::assume(which < 3);
    let (at, block) = match which { 0 => (AlphaType::None, 8usize), 1 => (AlphaType::OneBit, 16), _ => (AlphaType::Enhanced, 16) };
    let mut offsets = [0u32; 16];
    let mut sizes = [0u32; 16];
    offsets[0] = 1024;
    sizes[0] = 16;
    let mut hd = dxt_header(4, 4, at, 0, offsets, sizes);
    let depth: u8 = kani::any();
    if let BlpFlags::Blp2 { alpha_bits, .. } = &mut hd.flags { *alpha_bits = depth; }
    let r = super::parse_direct_content(&hd, |_i| Ok(None), &file, &file);
    kani::cover!(r.is_ok() && which == 2 && depth == 0);
    assert!(r.is_ok(), "BLP2 DXT content with a published alpha type is rejected");
    let c = r.unwrap();
    let (variant, len, first) = match &c {
        BlpContent::Dxt1(d) => (0u8, d.images[0].content.len(), d.images[0].content[0]),
        BlpContent::Dxt3(d) => (1u8, d.images[0].content.len(), d.images[0].content[0]),
        BlpContent::Dxt5(d) => (2u8, d.images[0].content.len(), d.images[0].content[0]),
        _ => (9u8, 0, 0),
    };
    assert!(variant == which, "DXT variant of the parsed content differs from the one the alpha type announces");
    assert!(len == block && first == blk[0], "DXT level read with another variant's block size");
    std::mem::forget(c);
}
