// C16 (BLP encode -> parse): header, level data, locator consistency.  Child module of wow-blp/src/encode/mod.rs;
// the parser's private kernels are reached through crate::parser::verif_kani_parser (blp/parser.rs, blp/direct.rs).
#![allow(unused_imports, dead_code)]
#[path = "../env/io.rs"]
mod vio;

use super::*;
use crate::parser::verif_kani_parser as vp;
use crate::parser::verif_kani_parser::log2_model;

// ------------------------------------------------------------------ symbolic header parts
fn content_any() -> BlpContentTag {
    if kani::any() { BlpContentTag::Jpeg } else { BlpContentTag::Direct }
}
fn compression_any() -> Compression {
    let c: u8 = kani::any();
    kani::assume(c < 4);
    match c { 0 => Compression::Jpeg, 1 => Compression::Raw1, 2 => Compression::Dxtc, _ => Compression::Raw3 }
}
fn alpha_type_any() -> AlphaType {
    let c: u8 = kani::any();
    kani::assume(c < 4);
    match c { 0 => AlphaType::None, 1 => AlphaType::OneBit, 2 => AlphaType::Enhanced, _ => AlphaType::EightBit }
}
/// alpha depths the format documents for BLP0/BLP1: 0 or 8 with JPEG content, 0/1/4/8 with direct content
fn old_alpha_documented(c: BlpContentTag, a: u32) -> bool {
    match c {
        BlpContentTag::Jpeg => a == 0 || a == 8,
        BlpContentTag::Direct => a == 0 || a == 1 || a == 4 || a == 8,
    }
}
fn old_header_any(version: BlpVersion) -> BlpHeader {
    let content = content_any();
    let alpha_bits: u32 = kani::any();
    kani::assume(old_alpha_documented(content, alpha_bits));
    let width: u32 = kani::any();
    let height: u32 = kani::any();
    kani::assume(width <= 65535 && height <= 65535);
    BlpHeader {
        version,
        content,
        flags: BlpFlags::Old { alpha_bits, extra: kani::any(), has_mipmaps: kani::any() },
        width,
        height,
        mipmap_locator: if version == BlpVersion::Blp0 {
            MipmapLocator::External
        } else {
            MipmapLocator::Internal { offsets: kani::any(), sizes: kani::any() }
        },
    }
}
fn blp2_header_any() -> BlpHeader {
    let width: u32 = kani::any();
    let height: u32 = kani::any();
    kani::assume(width <= 65535 && height <= 65535);
    BlpHeader {
        version: BlpVersion::Blp2,
        content: content_any(),
        flags: BlpFlags::Blp2 { compression: compression_any(), alpha_bits: kani::any(), alpha_type: alpha_type_any(), has_mipmaps: kani::any() },
        width,
        height,
        mipmap_locator: MipmapLocator::Internal { offsets: kani::any(), sizes: kani::any() },
    }
}

fn le32(b: &[u8], at: usize) -> u32 {
    u32::from_le_bytes([b[at], b[at + 1], b[at + 2], b[at + 3]])
}

// ------------------------------------------------------------------ C16.b header encode -> parse
fn header_roundtrip(h: &BlpHeader) {
    let mut out: Vec<u8> = Vec::with_capacity(160);
    let r = encode_header(h, &mut out);
    assert!(r.is_ok(), "encoder rejects a header with sides <= 65535 and the locator kind of its version");
    assert!(out.len() == BlpHeader::size(h.version), "header bytes written != BlpHeader::size(version)");
    let p = vp::v_parse_header(&out);
    assert!(p.is_ok(), "header written by the encoder is rejected by the parser");
    let p = p.unwrap();
    kani::cover!(p.width == 65535 && p.height == 1);
    assert!(p.version == h.version, "version changed in encode->parse");
    assert!(p.content == h.content, "content tag changed in encode->parse");
    assert!(p.flags == h.flags, "flags (compression / alpha depth / alpha type / has_mipmaps / extra) changed in encode->parse");
    assert!(p.width == h.width && p.height == h.height, "width/height changed in encode->parse");
    match (&p.mipmap_locator, &h.mipmap_locator) {
        (MipmapLocator::External, MipmapLocator::External) => {}
        (MipmapLocator::Internal { offsets: po, sizes: ps }, MipmapLocator::Internal { offsets: ho, sizes: hs }) => {
            let i: usize = kani::any();
            kani::assume(i < 16);
            assert!(po[i] == ho[i], "mipmap offset table entry changed in encode->parse");
            assert!(ps[i] == hs[i], "mipmap size table entry changed in encode->parse");
        }
        _ => assert!(false, "mipmap locator kind changed in encode->parse"),
    }
    std::mem::forget((out, r));
}

#[kani::proof]
#[kani::stub(::std::fmt::format, vio::fmt_stub)]
#[kani::unwind(6)]
fn c16b_header_roundtrip_blp0() { header_roundtrip(&old_header_any(BlpVersion::Blp0)) }
#[kani::proof]
#[kani::stub(::std::fmt::format, vio::fmt_stub)]
#[kani::unwind(18)]
fn c16b_header_roundtrip_blp1() { header_roundtrip(&old_header_any(BlpVersion::Blp1)) }
#[kani::proof]
#[kani::stub(::std::fmt::format, vio::fmt_stub)]
#[kani::unwind(18)]
fn c16b_header_roundtrip_blp2() { header_roundtrip(&blp2_header_any()) }

/// every strict prefix of an encoded header is rejected (the parser needs exactly size(version) bytes)
fn header_truncated(h: &BlpHeader) {
    let mut out: Vec<u8> = Vec::with_capacity(160);
    let r = encode_header(h, &mut out);
    assert!(r.is_ok());
    let k: usize = kani::any();
    kani::assume(k < out.len());
    let p = vp::v_parse_header(&out[..k]);
    kani::cover!(k + 1 == out.len());
    kani::cover!(k == 0);
    assert!(p.is_err(), "a truncated header is accepted");
    std::mem::forget((out, r, p));
}
#[kani::proof]
#[kani::stub(::std::fmt::format, vio::fmt_stub)]
#[kani::unwind(6)]
fn c16b_header_truncated_blp0() { header_truncated(&old_header_any(BlpVersion::Blp0)) }
#[kani::proof]
#[kani::stub(::std::fmt::format, vio::fmt_stub)]
#[kani::unwind(18)]
fn c16b_header_truncated_blp1() { header_truncated(&old_header_any(BlpVersion::Blp1)) }
#[kani::proof]
#[kani::stub(::std::fmt::format, vio::fmt_stub)]
#[kani::unwind(18)]
fn c16b_header_truncated_blp2() { header_truncated(&blp2_header_any()) }

/// byte layout of the published format (a slip made consistently in writer and parser would survive the round trip)
#[kani::proof]
#[kani::stub(::std::fmt::format, vio::fmt_stub)]
#[kani::unwind(18)]
fn c16b_header_layout_blp1() {
    let h = old_header_any(BlpVersion::Blp1);
    let mut out: Vec<u8> = Vec::with_capacity(160);
    assert!(encode_header(&h, &mut out).is_ok());
    assert!(out.len() == 156);
    kani::cover!(h.width == 7);
    assert!(out[0] == b'B' && out[1] == b'L' && out[2] == b'P' && out[3] == b'1', "magic is not BLP1");
    assert!(le32(&out, 4) == u32::from(h.content), "content tag not at byte 4");
    if let BlpFlags::Old { alpha_bits, extra, has_mipmaps } = h.flags {
        assert!(le32(&out, 8) == alpha_bits, "alpha depth not at byte 8");
        assert!(le32(&out, 20) == extra, "extra field not at byte 20");
        assert!(le32(&out, 24) == has_mipmaps, "has_mipmaps not at byte 24");
    }
    assert!(le32(&out, 12) == h.width, "width not at byte 12");
    assert!(le32(&out, 16) == h.height, "height not at byte 16");
    if let MipmapLocator::Internal { offsets, sizes } = h.mipmap_locator {
        let i: usize = kani::any();
        kani::assume(i < 16);
        assert!(le32(&out, 28 + 4 * i) == offsets[i], "offset table not at byte 28");
        assert!(le32(&out, 92 + 4 * i) == sizes[i], "size table not at byte 92");
    }
    std::mem::forget(out);
}

#[kani::proof]
#[kani::stub(::std::fmt::format, vio::fmt_stub)]
#[kani::unwind(18)]
fn c16b_header_layout_blp2() {
    let h = blp2_header_any();
    let mut out: Vec<u8> = Vec::with_capacity(160);
    assert!(encode_header(&h, &mut out).is_ok());
    assert!(out.len() == 148);
    kani::cover!(h.height == 7);
    assert!(out[0] == b'B' && out[1] == b'L' && out[2] == b'P' && out[3] == b'2', "magic is not BLP2");
    assert!(le32(&out, 4) == u32::from(h.content), "content tag not at byte 4");
    if let BlpFlags::Blp2 { compression, alpha_bits, alpha_type, has_mipmaps } = h.flags {
        assert!(out[8] == u8::from(compression), "compression not at byte 8");
        assert!(out[9] == alpha_bits, "alpha depth not at byte 9");
        assert!(out[10] == u8::from(alpha_type), "alpha type not at byte 10");
        assert!(out[11] == has_mipmaps, "has_mipmaps not at byte 11");
    }
    assert!(le32(&out, 12) == h.width, "width not at byte 12");
    assert!(le32(&out, 16) == h.height, "height not at byte 16");
    if let MipmapLocator::Internal { offsets, sizes } = h.mipmap_locator {
        let i: usize = kani::any();
        kani::assume(i < 16);
        assert!(le32(&out, 20 + 4 * i) == offsets[i], "offset table not at byte 20");
        assert!(le32(&out, 84 + 4 * i) == sizes[i], "size table not at byte 84");
    }
    std::mem::forget(out);
}

/// sides above 65535 and an external locator on BLP1/BLP2 are refused
fn limits_enforced(mut h: BlpHeader) {
    let which: u8 = kani::any();
    kani::assume(which < 3);
    let w: u32 = kani::any();
    kani::assume(w > 65535);
    match which {
        0 => h.width = w,
        1 => h.height = w,
        _ => h.mipmap_locator = MipmapLocator::External,
    }
    let mut out: Vec<u8> = Vec::with_capacity(160);
    let r = encode_header(&h, &mut out);
    kani::cover!(which == 1);
    kani::cover!(which == 2);
    assert!(r.is_err(), "encoder accepts a side above 65535 or external mipmaps on BLP1/BLP2");
    std::mem::forget((out, r));
}
#[kani::proof]
#[kani::stub(::std::fmt::format, vio::fmt_stub)]
#[kani::unwind(18)]
fn c16b_header_limits_enforced_blp1() { limits_enforced(old_header_any(BlpVersion::Blp1)) }
#[kani::proof]
#[kani::stub(::std::fmt::format, vio::fmt_stub)]
#[kani::unwind(18)]
fn c16b_header_limits_enforced_blp2() { limits_enforced(blp2_header_any()) }

// ------------------------------------------------------------------ level data helpers
fn sym_bytes(n: usize) -> Vec<u8> {
    let mut v = Vec::with_capacity(n);
    let mut i = 0;
    while i < n {
        v.push(kani::any());
        i += 1;
    }
    v
}
fn sym_words(n: usize) -> Vec<u32> {
    let mut v = Vec::with_capacity(n);
    let mut i = 0;
    while i < n {
        v.push(kani::any());
        i += 1;
    }
    v
}

/// header as convert::image_to_blp builds it for palettised / raw BGRA / DXT content
fn direct_header(version: BlpVersion, compression: Compression, alpha_bits: u32, alpha_type: AlphaType, w: u32, h: u32, mips: bool,
                 locator: MipmapLocator) -> BlpHeader {
    BlpHeader {
        version,
        content: BlpContentTag::Direct,
        flags: if version == BlpVersion::Blp2 {
            BlpFlags::Blp2 { compression, alpha_bits: alpha_bits as u8, alpha_type, has_mipmaps: if mips { 1 } else { 0 } }
        } else {
            BlpFlags::Old { alpha_bits, extra: 4, has_mipmaps: if mips { 1 } else { 0 } }
        },
        width: w,
        height: h,
        mipmap_locator: locator,
    }
}

/// levels of a complete chain for (w, h): number of levels = floor(log2(max(w,h))) + 1 when mipmaps are on
fn level_count(w: u32, h: u32, mips: bool) -> usize {
    if !mips {
        return 1;
    }
    let m = if w > h { w } else { h };
    (31 - m.leading_zeros()) as usize + 1
}
fn level_pixels(w: u32, h: u32, i: usize) -> usize {
    let a = if (w >> i) > 1 { w >> i } else { 1 };
    let b = if (h >> i) > 1 { h >> i } else { 1 };
    (a * b) as usize
}

/// The locator the format prescribes for levels stored back to back from `start`: computed from the concrete shape.
fn expected_locator(start: usize, level_sizes: &[usize]) -> ([u32; 16], [u32; 16]) {
    let mut offsets = [0u32; 16];
    let mut sizes = [0u32; 16];
    let mut cur = start;
    let mut i = 0;
    while i < level_sizes.len() {
        offsets[i] = cur as u32;
        sizes[i] = level_sizes[i] as u32;
        cur += level_sizes[i];
        i += 1;
    }
    (offsets, sizes)
}
/// asserts that the locator predicted by the real `mipmap_locator()` equals the prescribed one and returns the prescribed one
/// (same value, but concrete for the symbolic execution: assignment instead of assumption)
fn checked_locator(predicted: &MipmapLocator, start: usize, level_sizes: &[usize]) -> MipmapLocator {
    let (eo, es) = expected_locator(start, level_sizes);
    match predicted {
        MipmapLocator::Internal { offsets, sizes } => {
            let i: usize = kani::any();
            kani::assume(i < 16);
            assert!(offsets[i] == eo[i], "mipmap_locator(): offset of a level != header + palette + sizes of the previous levels");
            assert!(sizes[i] == es[i], "mipmap_locator(): size of a level != its encoded length (0 for absent levels)");
        }
        MipmapLocator::External => assert!(false, "mipmap_locator() predicts external levels"),
    }
    MipmapLocator::Internal { offsets: eo, sizes: es }
}

/// stored levels lie inside the file, in level order, without overlap, the last one ending the file
fn locator_inside_file(offsets: &[u32; 16], sizes: &[u32; 16], levels: usize, data_start: usize, file_len: usize) {
    assert!(offsets[0] as usize == data_start, "level 0 does not start right after header and palette");
    let i: usize = kani::any();
    kani::assume(i < levels);
    assert!(sizes[i] > 0, "a stored level has size 0");
    assert!(offsets[i] as usize + sizes[i] as usize <= file_len, "a stored level extends beyond the file");
    if i + 1 < levels {
        assert!(offsets[i] + sizes[i] == offsets[i + 1], "stored levels overlap or leave a gap");
    } else {
        assert!(offsets[i] as usize + sizes[i] as usize == file_len, "last level does not end the file");
    }
    let j: usize = kani::any();
    kani::assume(j >= levels && j < 16);
    assert!(offsets[j] == 0 && sizes[j] == 0, "locator entry of an absent level is not zero");
}


/// `with_header`: run the real encode_header first; otherwise the header area is zero-filled (the header round trip has
/// its own harnesses; skipping its two 16-entry loops allows a smaller unwinding bound for the multi-level harnesses)
fn start_file(hd: &BlpHeader, with_header: bool) -> Vec<u8> {
    let mut out: Vec<u8> = Vec::with_capacity(256);
    if with_header {
        assert!(encode_header(hd, &mut out).is_ok());
    } else {
        const Z: [u8; 160] = [0u8; 160];
        out.extend_from_slice(&Z[..BlpHeader::size(hd.version)]);
    }
    assert!(out.len() == BlpHeader::size(hd.version));
    out
}

// ------------------------------------------------------------------ C16.c palettised levels: encode_header + encode_raw1 -> parse_raw1
fn raw1_roundtrip(version: BlpVersion, w: u32, h: u32, ab: u32, mips: bool, with_header: bool) {
    let levels = level_count(w, h, mips);
    let mut images = Vec::with_capacity(levels);
    let mut l = 0;
    while l < levels {
        let n = level_pixels(w, h, l);
        images.push(Raw1Image { indexed_rgb: sym_bytes(n), indexed_alpha: sym_bytes((n * ab as usize + 7) / 8) });
        l += 1;
    }
    // two palette words: the level parsers never read the palette (full 256-entry files: c16f_*)
    let content = BlpRaw1 { cmap: sym_words(2), images };
    let mut lens = [0usize; 16];
    let mut l = 0;
    while l < levels {
        let n = level_pixels(w, h, l);
        lens[l] = n + (n * ab as usize + 7) / 8;
        l += 1;
    }
    let loc = checked_locator(&content.mipmap_locator(version), BlpHeader::size(version) + 8, &lens[..levels]);
    let hd = direct_header(version, Compression::Raw1, ab, AlphaType::None, w, h, mips, loc);
    let mut out = start_file(&hd, with_header);
    let mut ext: Vec<Vec<u8>> = Vec::new();
    let r = encode_raw1(&hd, &content, &mut out, &mut ext);
    assert!(r.is_ok(), "encoder rejects the locator predicted by BlpRaw1::mipmap_locator for its own levels");
    let (offsets, sizes) = hd.internal_mipmaps().unwrap();
    locator_inside_file(&offsets, &sizes, levels, BlpHeader::size(version) + 8, out.len());
    let mut parsed: Vec<Raw1Image> = Vec::new();
    let p = vp::v_parse_raw1(&hd, &out, &offsets, &sizes, &mut parsed);
    assert!(p.is_ok(), "palettised levels written by the encoder are rejected by the parser");
    kani::cover!(parsed.len() == levels);
    assert!(parsed.len() == levels, "number of palettised levels changed in encode->parse");
    let i: usize = kani::any();
    kani::assume(i < levels);
    assert!(parsed[i].indexed_rgb.len() == content.images[i].indexed_rgb.len(), "index plane length != w*h of the level");
    assert!(parsed[i].indexed_alpha.len() == content.images[i].indexed_alpha.len(), "alpha plane length != ceil(w*h*alpha_bits/8)");
    let j: usize = kani::any();
    kani::assume(j < parsed[i].indexed_rgb.len());
    assert!(parsed[i].indexed_rgb[j] == content.images[i].indexed_rgb[j], "palette index changed in encode->parse");
    let k: usize = kani::any();
    if k < parsed[i].indexed_alpha.len() {
        assert!(parsed[i].indexed_alpha[k] == content.images[i].indexed_alpha[k], "alpha byte changed in encode->parse");
    }
    std::mem::forget((content, out, ext, parsed, r, p));
}

#[kani::proof]
#[kani::stub(::std::fmt::format, vio::fmt_stub)]
#[kani::unwind(18)]
fn c16c_raw1_blp1_2x2_a8() { raw1_roundtrip(BlpVersion::Blp1, 2, 2, 8, false, true) }
#[kani::proof]
#[kani::stub(::std::fmt::format, vio::fmt_stub)]
#[kani::unwind(18)]
fn c16c_raw1_blp1_3x1_a1() { raw1_roundtrip(BlpVersion::Blp1, 3, 1, 1, false, true) }
#[kani::proof]
#[kani::stub(::std::fmt::format, vio::fmt_stub)]
#[kani::unwind(18)]
fn c16c_raw1_blp2_3x1_a4() { raw1_roundtrip(BlpVersion::Blp2, 3, 1, 4, false, true) }
#[kani::proof]
#[kani::stub(::std::fmt::format, vio::fmt_stub)]
#[kani::unwind(18)]
fn c16c_raw1_blp2_3x3_a0() { raw1_roundtrip(BlpVersion::Blp2, 3, 3, 0, false, true) }
// (multi-level palettised / DXT files stored internally did not finish: see NOTES.md, "could not finish")

// ------------------------------------------------------------------ C16.c raw BGRA levels: encode_header + encode_raw3 -> parse_raw3
fn raw3_roundtrip(w: u32, h: u32, mips: bool, with_header: bool) {
    let levels = level_count(w, h, mips);
    let mut images = Vec::with_capacity(levels);
    let mut l = 0;
    while l < levels {
        images.push(Raw3Image { pixels: sym_words(level_pixels(w, h, l)) });
        l += 1;
    }
    let content = BlpRaw3 { cmap: sym_words(2), images };
    let mut lens = [0usize; 16];
    let mut l = 0;
    while l < levels {
        lens[l] = 4 * level_pixels(w, h, l);
        l += 1;
    }
    let loc = checked_locator(&content.mipmap_locator(BlpVersion::Blp2), BlpHeader::size(BlpVersion::Blp2) + 8, &lens[..levels]);
    let hd = direct_header(BlpVersion::Blp2, Compression::Raw3, 8, AlphaType::None, w, h, mips, loc);
    let mut out = start_file(&hd, with_header);
    let mut ext: Vec<Vec<u8>> = Vec::new();
    let r = encode_raw3(&hd, &content, &mut out, &mut ext);
    assert!(r.is_ok(), "encoder rejects the locator predicted by BlpRaw3::mipmap_locator for its own levels");
    let (offsets, sizes) = hd.internal_mipmaps().unwrap();
    locator_inside_file(&offsets, &sizes, levels, BlpHeader::size(BlpVersion::Blp2) + 8, out.len());
    let mut parsed: Vec<Raw3Image> = Vec::new();
    let p = vp::v_parse_raw3(&hd, &out, &offsets, &sizes, &mut parsed);
    assert!(p.is_ok(), "BGRA levels written by the encoder are rejected by the parser");
    kani::cover!(parsed.len() == levels);
    assert!(parsed.len() == levels, "number of BGRA levels changed in encode->parse");
    let i: usize = kani::any();
    kani::assume(i < levels);
    assert!(parsed[i].pixels.len() == content.images[i].pixels.len(), "BGRA level length != w*h of the level");
    let j: usize = kani::any();
    kani::assume(j < parsed[i].pixels.len());
    assert!(parsed[i].pixels[j] == content.images[i].pixels[j], "BGRA pixel changed in encode->parse");
    std::mem::forget((content, out, ext, parsed, r, p));
}
#[kani::proof]
#[kani::stub(::std::fmt::format, vio::fmt_stub)]
#[kani::unwind(18)]
fn c16c_raw3_2x2() { raw3_roundtrip(2, 2, false, true) }
#[kani::proof]
#[kani::stub(::std::fmt::format, vio::fmt_stub)]
#[kani::unwind(18)]
fn c16c_raw3_3x1() { raw3_roundtrip(3, 1, false, true) }
#[kani::proof]
#[kani::stub(::std::fmt::format, vio::fmt_stub)]
#[kani::stub(f32::log2, log2_model)]
#[kani::unwind(8)]
fn c16e_raw3_2x2_mips() { raw3_roundtrip(2, 2, true, false) }

// ------------------------------------------------------------------ C16.c DXT levels: encode_header + encode_dxtn -> parse_dxtn
fn dxt_level_bytes(w: u32, h: u32, i: usize, block: usize) -> usize {
    let a = if (w >> i) > 1 { (w >> i) as usize } else { 1 };
    let b = if (h >> i) > 1 { (h >> i) as usize } else { 1 };
    ((a + 3) / 4) * ((b + 3) / 4) * block
}
fn dxtn_roundtrip(f: DxtnFormat, w: u32, h: u32, mips: bool, with_header: bool) {
    let levels = level_count(w, h, mips);
    let mut images = Vec::with_capacity(levels);
    let mut l = 0;
    while l < levels {
        images.push(DxtnImage { content: sym_bytes(dxt_level_bytes(w, h, l, f.block_size())) });
        l += 1;
    }
    // the converter stores a zero palette for DXT; the DXT encoder does not write it, the locator skips it
    let content = BlpDxtn { format: f, cmap: vec![0u32; 2], images };
    let mut lens = [0usize; 16];
    let mut l = 0;
    while l < levels {
        lens[l] = dxt_level_bytes(w, h, l, f.block_size());
        l += 1;
    }
    let loc = checked_locator(&content.mipmap_locator(BlpVersion::Blp2), BlpHeader::size(BlpVersion::Blp2) + 8, &lens[..levels]);
    let at = match f { DxtnFormat::Dxt1 => AlphaType::None, DxtnFormat::Dxt3 => AlphaType::OneBit, DxtnFormat::Dxt5 => AlphaType::Enhanced };
    let hd = direct_header(BlpVersion::Blp2, Compression::Dxtc, 8, at, w, h, mips, loc);
    let mut out = start_file(&hd, with_header);
    let r = encode_dxtn(&hd, &content.images, &mut out);
    assert!(r.is_ok(), "encoder rejects the locator predicted by BlpDxtn::mipmap_locator for its own levels");
    let (offsets, sizes) = hd.internal_mipmaps().unwrap();
    locator_inside_file(&offsets, &sizes, levels, BlpHeader::size(BlpVersion::Blp2) + 8, out.len());
    // the palette area the DXT encoder skipped is zero-filled, i.e. equal to the converter's zero palette
    let z: usize = kani::any();
    kani::assume(z < 8);
    assert!(out[BlpHeader::size(BlpVersion::Blp2) + z] == 0, "palette area of a DXT file is not the zero palette");
    let mut parsed: Vec<DxtnImage> = Vec::new();
    let p = vp::v_parse_dxtn(&hd, f, &out, &offsets, &sizes, &mut parsed);
    assert!(p.is_ok(), "DXT levels written by the encoder are rejected by the parser");
    kani::cover!(parsed.len() == levels);
    assert!(parsed.len() == levels, "number of DXT levels changed in encode->parse");
    let i: usize = kani::any();
    kani::assume(i < levels);
    assert!(parsed[i].content.len() == content.images[i].content.len(), "DXT level length changed in encode->parse");
    let j: usize = kani::any();
    kani::assume(j < parsed[i].content.len());
    assert!(parsed[i].content[j] == content.images[i].content[j], "DXT level byte changed in encode->parse");
    std::mem::forget((content, out, parsed, r, p));
}
// main harnesses: every level has sides that are multiples of 4 or both <= 4 (known finding dxt-blocks excluded)
#[kani::proof]
#[kani::stub(::std::fmt::format, vio::fmt_stub)]
#[kani::unwind(34)]
fn c16c_dxt1_4x4() { dxtn_roundtrip(DxtnFormat::Dxt1, 4, 4, false, true) }
#[kani::proof]
#[kani::stub(::std::fmt::format, vio::fmt_stub)]
#[kani::unwind(34)]
fn c16c_dxt5_8x4() { dxtn_roundtrip(DxtnFormat::Dxt5, 8, 4, false, true) }
/// known finding dxt-blocks: an 8x2 level is 2x1 blocks (16 bytes of DXT1); parse_dxtn reads ceil(16/16) = 1 block
#[kani::proof]
#[kani::stub(::std::fmt::format, vio::fmt_stub)]
#[kani::unwind(34)]
fn c16c_dxt1_8x2_witness() { dxtn_roundtrip(DxtnFormat::Dxt1, 8, 2, false, true) }

// ------------------------------------------------------------------ C16.c JPEG levels: encode_header + encode_jpeg -> parse_jpeg_content
fn jpeg_roundtrip(version: BlpVersion, w: u32, h: u32, mips: bool, hlen: usize, l0: usize, l1: usize, only_levels: usize) {
    // only_levels = 0: the complete chain the format prescribes; otherwise the number of levels the converter emits
    let levels = if only_levels == 0 { level_count(w, h, mips) } else { only_levels };
    assert!(levels <= 2);
    let mut images = Vec::with_capacity(levels);
    images.push(sym_bytes(l0));
    if levels == 2 {
        images.push(sym_bytes(l1));
    }
    // common JPEG header chunk + the two padding bytes the converter appends
    let content = BlpJpeg { header: sym_bytes(hlen + 2), images };
    let external = version == BlpVersion::Blp0;
    let lens = [l0, l1];
    let loc = if external {
        MipmapLocator::External
    } else {
        checked_locator(&content.mipmap_locator(version), BlpHeader::size(version) + 4 + hlen + 2, &lens[..levels])
    };
    let hd = BlpHeader {
        version,
        content: BlpContentTag::Jpeg,
        flags: if version == BlpVersion::Blp2 {
            BlpFlags::Blp2 { compression: Compression::Jpeg, alpha_bits: 8, alpha_type: AlphaType::None, has_mipmaps: mips as u8 }
        } else {
            BlpFlags::Old { alpha_bits: 8, extra: 5, has_mipmaps: mips as u32 }
        },
        width: w,
        height: h,
        mipmap_locator: loc,
    };
    let mut out: Vec<u8> = Vec::with_capacity(256);
    let mut ext: Vec<Vec<u8>> = Vec::new();
    assert!(encode_header(&hd, &mut out).is_ok());
    let hs = BlpHeader::size(version);
    assert!(out.len() == hs);
    let r = encode_jpeg(&hd, &content, &mut out, &mut ext);
    assert!(r.is_ok(), "encoder rejects the locator predicted by BlpJpeg::mipmap_locator for its own levels");
    // published layout: u32 header chunk size, then the chunk
    assert!(le32(&out, hs) as usize == hlen, "JPEG header chunk size field != chunk length (without the 2 padding bytes)");
    if let Some((offsets, sizes)) = hd.internal_mipmaps() {
        locator_inside_file(&offsets, &sizes, levels, hs + 4 + hlen + 2, out.len());
    } else {
        assert!(out.len() == hs + 4 + hlen + 2 && ext.len() == levels, "BLP0: levels are not all external");
    }
    let p = vp::v_parse_jpeg_content(&hd, |i| Ok(if i < ext.len() { Some(&ext[i][..]) } else { None }), &out, &out[hs..]);
    assert!(p.is_ok(), "JPEG content written by the encoder is rejected by the parser");
    let p = p.unwrap();
    kani::cover!(p.images.len() == levels);
    assert!(p.header.len() == hlen + 2, "JPEG header chunk length changed in encode->parse");
    let a: usize = kani::any();
    kani::assume(a < hlen + 2);
    assert!(p.header[a] == content.header[a], "JPEG header chunk byte changed in encode->parse");
    assert!(p.images.len() == levels, "number of JPEG levels changed in encode->parse");
    let i: usize = kani::any();
    kani::assume(i < levels);
    assert!(p.images[i].len() == content.images[i].len(), "JPEG level length changed in encode->parse");
    let j: usize = kani::any();
    kani::assume(j < p.images[i].len());
    assert!(p.images[i][j] == content.images[i][j], "JPEG level byte changed in encode->parse");
    std::mem::forget((content, out, ext, p, r));
}
#[kani::proof]
#[kani::stub(::std::fmt::format, vio::fmt_stub)]
#[kani::unwind(18)]
fn c16c_jpeg_blp1_5x3() { jpeg_roundtrip(BlpVersion::Blp1, 5, 3, false, 4, 5, 0, 0) }
#[kani::proof]
#[kani::stub(::std::fmt::format, vio::fmt_stub)]
#[kani::unwind(18)]
fn c16c_jpeg_blp2_1x1() { jpeg_roundtrip(BlpVersion::Blp2, 1, 1, false, 0, 3, 0, 0) }
#[kani::proof]
#[kani::stub(::std::fmt::format, vio::fmt_stub)]
#[kani::unwind(18)]
fn c16c_jpeg_blp0_5x3() { jpeg_roundtrip(BlpVersion::Blp0, 5, 3, false, 4, 5, 0, 0) }
#[kani::proof]
#[kani::stub(::std::fmt::format, vio::fmt_stub)]
#[kani::stub(f32::log2, log2_model)]
#[kani::unwind(18)]
fn c16e_jpeg_blp1_2x3_mips() { jpeg_roundtrip(BlpVersion::Blp1, 2, 3, true, 3, 5, 4, 0) }
#[kani::proof]
#[kani::stub(::std::fmt::format, vio::fmt_stub)]
#[kani::stub(f32::log2, log2_model)]
#[kani::unwind(18)]
fn c16e_jpeg_blp0_3x2_mips() { jpeg_roundtrip(BlpVersion::Blp0, 3, 2, true, 3, 4, 4, 0) }
/// known finding mipchain-nonsquare: for a 4x1 image with mipmaps convert::mipmap::generate_mipmaps stops at once
/// (`width <= 1 || height <= 1`), so the converted texture has ONE level while header and parsers expect
/// floor(log2 4) + 1 = 3.  The structure below is what image_to_blp returns for 4x1 / BLP1 / JPEG / mipmaps (native run,
/// NOTES.md); the encoder accepts it, the parser returns three levels (two empty ones): encode -> parse is not the identity.
#[kani::proof]
#[kani::stub(::std::fmt::format, vio::fmt_stub)]
#[kani::stub(f32::log2, log2_model)]
#[kani::unwind(18)]
fn c16e_jpeg_blp1_4x1_converter_chain_witness() { jpeg_roundtrip(BlpVersion::Blp1, 4, 1, true, 3, 5, 0, 1) }

// ------------------------------------------------------------------ C16.c BLP0: external palettised levels
fn blp0_raw1_roundtrip(w: u32, h: u32, ab: u32, mips: bool) {
    let levels = level_count(w, h, mips);
    let mut images = Vec::with_capacity(levels);
    let mut l = 0;
    while l < levels {
        let n = level_pixels(w, h, l);
        images.push(Raw1Image { indexed_rgb: sym_bytes(n), indexed_alpha: sym_bytes((n * ab as usize + 7) / 8) });
        l += 1;
    }
    let content = BlpRaw1 { cmap: sym_words(2), images };
    let hd = direct_header(BlpVersion::Blp0, Compression::Raw1, ab, AlphaType::None, w, h, mips, MipmapLocator::External);
    let mut out: Vec<u8> = Vec::with_capacity(64);
    let mut ext: Vec<Vec<u8>> = Vec::new();
    assert!(encode_header(&hd, &mut out).is_ok());
    let r = encode_raw1(&hd, &content, &mut out, &mut ext);
    assert!(r.is_ok());
    assert!(out.len() == 28 + 8, "BLP0 root file holds more than header and palette");
    assert!(ext.len() == levels, "number of external level files != number of levels");
    let mut parsed: Vec<Raw1Image> = Vec::new();
    let p = vp::v_parse_blp0(&hd, |i| Ok(if i < ext.len() { Some(&ext[i][..]) } else { None }), &mut parsed);
    assert!(p.is_ok(), "external levels written by the encoder are rejected by the parser");
    kani::cover!(parsed.len() == levels);
    assert!(parsed.len() == levels, "number of external levels changed in encode->parse");
    let i: usize = kani::any();
    kani::assume(i < levels);
    assert!(parsed[i].indexed_rgb.len() == content.images[i].indexed_rgb.len() && parsed[i].indexed_alpha.len() == content.images[i].indexed_alpha.len(),
        "external level plane lengths changed in encode->parse");
    let j: usize = kani::any();
    kani::assume(j < parsed[i].indexed_rgb.len());
    assert!(parsed[i].indexed_rgb[j] == content.images[i].indexed_rgb[j], "palette index changed in encode->parse (BLP0)");
    let k: usize = kani::any();
    if k < parsed[i].indexed_alpha.len() {
        assert!(parsed[i].indexed_alpha[k] == content.images[i].indexed_alpha[k], "alpha byte changed in encode->parse (BLP0)");
    }
    std::mem::forget((content, out, ext, parsed, r, p));
}
#[kani::proof]
#[kani::stub(::std::fmt::format, vio::fmt_stub)]
#[kani::unwind(18)]
fn c16c_blp0_raw1_3x2_a1() { blp0_raw1_roundtrip(3, 2, 1, false) }
#[kani::proof]
#[kani::stub(::std::fmt::format, vio::fmt_stub)]
#[kani::stub(f32::log2, log2_model)]
#[kani::unwind(18)]
fn c16e_blp0_raw1_2x2_a4_mips() { blp0_raw1_roundtrip(2, 2, 4, true) }

// ------------------------------------------------------------------ C16.d the encoder's locator consistency check (no mipmaps)
/// offset below the bytes already written -> InvalidOffset; declared size != encoded level -> InvalidMipmapSize; otherwise the
/// level lands exactly at `offset`, zero padding before it, nothing after it.
/// `off` and `sz` are concrete per call: a symbolic size makes the encoder's `filter(size > 0).collect()` a symbolic-length Vec, a
/// symbolic offset makes the zero padding one - neither finishes.  Contents (level, palette, other table entries) are symbolic.
fn locator_check(off: u32, sz: u32) {
    let content = BlpRaw1 { cmap: sym_words(1), images: vec![Raw1Image { indexed_rgb: sym_bytes(2), indexed_alpha: sym_bytes(1) }] };
    let mut offsets: [u32; 16] = kani::any(); // entries of levels that do not exist must be ignored
    let mut sizes: [u32; 16] = kani::any();
    let filled: u32 = 4 + 4;
    offsets[0] = off;
    sizes[0] = sz;
    let hd = direct_header(BlpVersion::Blp1, Compression::Raw1, 4, AlphaType::None, 2, 1, false, MipmapLocator::Internal { offsets, sizes });
    // 4 bytes stand for whatever precedes the palette
    let pre: [u8; 4] = kani::any();
    let mut out: Vec<u8> = Vec::with_capacity(64);
    out.push(pre[0]); out.push(pre[1]); out.push(pre[2]); out.push(pre[3]);
    let mut ext: Vec<Vec<u8>> = Vec::new();
    let r = encode_raw1(&hd, &content, &mut out, &mut ext);
    kani::cover!(true);
    if off < filled {
        assert!(matches!(r, Err(Error::InvalidOffset { .. })), "level offset inside the bytes already written is not rejected as InvalidOffset");
    } else if sz != 3 {
        assert!(matches!(r, Err(Error::InvalidMipmapSize { .. })), "declared level size != encoded level size is not rejected as InvalidMipmapSize");
    } else {
        assert!(r.is_ok(), "a consistent locator is rejected");
        assert!(out.len() == off as usize + 3, "file does not end with the level");
        assert!(out[off as usize] == content.images[0].indexed_rgb[0] && out[off as usize + 1] == content.images[0].indexed_rgb[1]
            && out[off as usize + 2] == content.images[0].indexed_alpha[0], "level is not stored at its declared offset");
        let g: usize = kani::any();
        kani::assume(g >= filled as usize && g < off as usize);
        assert!(out[g] == 0, "gap before the level is not zero padding");
        assert!(le32(&out, 4) == content.cmap[0], "palette word not little-endian right before the levels");
        assert!(out[0] == pre[0] && out[3] == pre[3], "bytes written before the palette were modified");
        assert!(ext.is_empty(), "internal level also emitted as external file");
    }
    std::mem::forget((content, out, ext, r));
}
#[kani::proof]
#[kani::stub(::std::fmt::format, vio::fmt_stub)]
#[kani::unwind(8)]
fn c16d_locator_offset_below_filled_rejected() {
    locator_check(7, 3);
    locator_check(0, 3);
}
#[kani::proof]
#[kani::stub(::std::fmt::format, vio::fmt_stub)]
#[kani::unwind(8)]
fn c16d_locator_wrong_size_rejected() {
    locator_check(8, 2);
    locator_check(11, 4);
}
#[kani::proof]
#[kani::stub(::std::fmt::format, vio::fmt_stub)]
#[kani::unwind(8)]
fn c16d_locator_consistent_level_placed() {
    locator_check(8, 3);
    locator_check(11, 3);
}

#[kani::proof]
#[kani::stub(::std::fmt::format, vio::fmt_stub)]
#[kani::unwind(18)]
fn c16_encode_canary() {
    let h = old_header_any(BlpVersion::Blp0);
    let mut out: Vec<u8> = Vec::with_capacity(160);
    let r = encode_header(&h, &mut out);
    let n = out.len();
    std::mem::forget((out, r));
    assert!(n == 156, "canary: must be reported as failing");
}
