// Reference model of the MPQ primitives, written from the published format
// description (Zezula, "The MoPaQ Archive Format"; docs/src/formats/archives/mpq.md),
// NOT from the repository's code.  Used as the oracle of differential harnesses.
#![allow(dead_code)]

/// prepareCryptTable() of the format description.
pub fn crypt_table() -> [u32; 0x500] {
    let mut t = [0u32; 0x500];
    let mut seed: u32 = 0x0010_0001;
    let mut index1 = 0usize;
    while index1 < 0x100 {
        let mut index2 = index1;
        let mut i = 0;
        while i < 5 {
            seed = (seed * 125 + 3) % 0x2A_AAAB;
            let temp1 = (seed & 0xFFFF) << 0x10;
            seed = (seed * 125 + 3) % 0x2A_AAAB;
            let temp2 = seed & 0xFFFF;
            t[index2] = temp1 | temp2;
            i += 1;
            index2 += 0x100;
        }
        index1 += 1;
    }
    t
}

/// One entry of the crypt table without building the whole table
/// (closed form of the generator: entry `idx` is produced at step
/// `(idx & 0xFF) * 5 + (idx >> 8)`).
pub fn crypt_entry(idx: usize) -> u32 {
    let step = (idx & 0xFF) * 5 + (idx >> 8);
    let mut seed: u32 = 0x0010_0001;
    let mut s = 0usize;
    let mut out = 0u32;
    while s <= step {
        seed = (seed * 125 + 3) % 0x2A_AAAB;
        let temp1 = (seed & 0xFFFF) << 0x10;
        seed = (seed * 125 + 3) % 0x2A_AAAB;
        let temp2 = seed & 0xFFFF;
        out = temp1 | temp2;
        s += 1;
    }
    out
}

/// C `toupper` restricted to ASCII, as used by HashString.
pub fn upper(b: u8) -> u8 {
    if b >= b'a' && b <= b'z' { b - 32 } else { b }
}
pub fn lower(b: u8) -> u8 {
    if b >= b'A' && b <= b'Z' { b + 32 } else { b }
}
/// Name folding of the format: '/' is '\\', ASCII letters are upper-cased.
pub fn fold_upper(b: u8) -> u8 {
    upper(if b == b'/' { b'\\' } else { b })
}
pub fn fold_lower(b: u8) -> u8 {
    lower(if b == b'/' { b'\\' } else { b })
}

/// HashString(name, hash_type) with hash_type in 0..=3 (offset, name A, name B, file key).
pub fn hash_string(table: &[u32; 0x500], name: &[u8], hash_type: u32) -> u32 {
    let mut seed1: u32 = 0x7FED_7FED;
    let mut seed2: u32 = 0xEEEE_EEEE;
    let mut i = 0;
    while i < name.len() {
        let ch = fold_upper(name[i]) as u32;
        seed1 = table[((hash_type << 8) + ch) as usize] ^ seed1.wrapping_add(seed2);
        seed2 = ch
            .wrapping_add(seed1)
            .wrapping_add(seed2)
            .wrapping_add(seed2 << 5)
            .wrapping_add(3);
        i += 1;
    }
    seed1
}

/// EncryptData of the format description (no special case for any key value).
pub fn encrypt(table: &[u32; 0x500], data: &mut [u32], mut key: u32) {
    let mut seed: u32 = 0xEEEE_EEEE;
    let mut i = 0;
    while i < data.len() {
        seed = seed.wrapping_add(table[0x400 + (key & 0xFF) as usize]);
        let plain = data[i];
        data[i] = plain ^ key.wrapping_add(seed);
        key = ((!key) << 0x15).wrapping_add(0x1111_1111) | (key >> 0x0B);
        seed = plain.wrapping_add(seed).wrapping_add(seed << 5).wrapping_add(3);
        i += 1;
    }
}

pub fn decrypt(table: &[u32; 0x500], data: &mut [u32], mut key: u32) {
    let mut seed: u32 = 0xEEEE_EEEE;
    let mut i = 0;
    while i < data.len() {
        seed = seed.wrapping_add(table[0x400 + (key & 0xFF) as usize]);
        let plain = data[i] ^ key.wrapping_add(seed);
        data[i] = plain;
        key = ((!key) << 0x15).wrapping_add(0x1111_1111) | (key >> 0x0B);
        seed = plain.wrapping_add(seed).wrapping_add(seed << 5).wrapping_add(3);
        i += 1;
    }
}

/// The part of a path after the last backslash or slash ("plain name").
pub fn plain_name(name: &[u8]) -> &[u8] {
    let mut start = 0;
    let mut i = 0;
    while i < name.len() {
        if name[i] == b'\\' || name[i] == b'/' {
            start = i + 1;
        }
        i += 1;
    }
    &name[start..]
}

pub const HASH_TABLE_KEY_NAME: &[u8] = b"(hash table)";
pub const BLOCK_TABLE_KEY_NAME: &[u8] = b"(block table)";

// Block-table flag constants of the format.
pub const MPQ_FILE_IMPLODE: u32 = 0x0000_0100;
pub const MPQ_FILE_COMPRESS: u32 = 0x0000_0200;
pub const MPQ_FILE_ENCRYPTED: u32 = 0x0001_0000;
pub const MPQ_FILE_FIX_KEY: u32 = 0x0002_0000;
pub const MPQ_FILE_PATCH_FILE: u32 = 0x0010_0000;
pub const MPQ_FILE_SINGLE_UNIT: u32 = 0x0100_0000;
pub const MPQ_FILE_DELETE_MARKER: u32 = 0x0200_0000;
pub const MPQ_FILE_SECTOR_CRC: u32 = 0x0400_0000;
pub const MPQ_FILE_EXISTS: u32 = 0x8000_0000;

// Compression-mask constants of the format.
pub const MPQ_COMPRESSION_HUFFMAN: u8 = 0x01;
pub const MPQ_COMPRESSION_ZLIB: u8 = 0x02;
pub const MPQ_COMPRESSION_PKWARE: u8 = 0x08;
pub const MPQ_COMPRESSION_BZIP2: u8 = 0x10;
pub const MPQ_COMPRESSION_SPARSE: u8 = 0x20;
pub const MPQ_COMPRESSION_ADPCM_MONO: u8 = 0x40;
pub const MPQ_COMPRESSION_ADPCM_STEREO: u8 = 0x80;
pub const MPQ_COMPRESSION_LZMA: u8 = 0x12;

/// File key of the format: HashString(plain name, FILE_KEY), adjusted by
/// (key + block offset) ^ file size when FIX_KEY is set.
pub fn file_key(table: &[u32; 0x500], name: &[u8], file_pos: u32, file_size: u32, flags: u32) -> u32 {
    let base = hash_string(table, plain_name(name), 3);
    if flags & MPQ_FILE_FIX_KEY != 0 {
        base.wrapping_add(file_pos) ^ file_size
    } else {
        base
    }
}
