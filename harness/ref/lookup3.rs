// Bob Jenkins' lookup3.c hashlittle2(), byte-wise ("endian-neutral") variant,
// transcribed from the public-domain reference, plus one-at-a-time.
#![allow(dead_code)]

#[inline]
fn rot(x: u32, k: u32) -> u32 {
    (x << k) | (x >> (32 - k))
}

fn mix(a: &mut u32, b: &mut u32, c: &mut u32) {
    *a = a.wrapping_sub(*c); *a ^= rot(*c, 4);  *c = c.wrapping_add(*b);
    *b = b.wrapping_sub(*a); *b ^= rot(*a, 6);  *a = a.wrapping_add(*c);
    *c = c.wrapping_sub(*b); *c ^= rot(*b, 8);  *b = b.wrapping_add(*a);
    *a = a.wrapping_sub(*c); *a ^= rot(*c, 16); *c = c.wrapping_add(*b);
    *b = b.wrapping_sub(*a); *b ^= rot(*a, 19); *a = a.wrapping_add(*c);
    *c = c.wrapping_sub(*b); *c ^= rot(*b, 4);  *b = b.wrapping_add(*a);
}

fn final_mix(a: &mut u32, b: &mut u32, c: &mut u32) {
    *c ^= *b; *c = c.wrapping_sub(rot(*b, 14));
    *a ^= *c; *a = a.wrapping_sub(rot(*c, 11));
    *b ^= *a; *b = b.wrapping_sub(rot(*a, 25));
    *c ^= *b; *c = c.wrapping_sub(rot(*b, 16));
    *a ^= *c; *a = a.wrapping_sub(rot(*c, 4));
    *b ^= *a; *b = b.wrapping_sub(rot(*a, 14));
    *c ^= *b; *c = c.wrapping_sub(rot(*b, 24));
}

/// hashlittle2(key, length, &pc, &pb): returns (pc, pb).
pub fn hashlittle2(key: &[u8], pc: u32, pb: u32) -> (u32, u32) {
    let mut length = key.len();
    let mut a: u32 = 0xdead_beefu32.wrapping_add(length as u32).wrapping_add(pc);
    let mut b: u32 = a;
    let mut c: u32 = a.wrapping_add(pb);
    let mut k = 0usize;
    while length > 12 {
        a = a.wrapping_add(key[k] as u32)
            .wrapping_add((key[k + 1] as u32) << 8)
            .wrapping_add((key[k + 2] as u32) << 16)
            .wrapping_add((key[k + 3] as u32) << 24);
        b = b.wrapping_add(key[k + 4] as u32)
            .wrapping_add((key[k + 5] as u32) << 8)
            .wrapping_add((key[k + 6] as u32) << 16)
            .wrapping_add((key[k + 7] as u32) << 24);
        c = c.wrapping_add(key[k + 8] as u32)
            .wrapping_add((key[k + 9] as u32) << 8)
            .wrapping_add((key[k + 10] as u32) << 16)
            .wrapping_add((key[k + 11] as u32) << 24);
        mix(&mut a, &mut b, &mut c);
        length -= 12;
        k += 12;
    }
    // last block: all the case statements fall through
    if length == 0 {
        return (c, b);
    }
    if length >= 12 { c = c.wrapping_add((key[k + 11] as u32) << 24); }
    if length >= 11 { c = c.wrapping_add((key[k + 10] as u32) << 16); }
    if length >= 10 { c = c.wrapping_add((key[k + 9] as u32) << 8); }
    if length >= 9 { c = c.wrapping_add(key[k + 8] as u32); }
    if length >= 8 { b = b.wrapping_add((key[k + 7] as u32) << 24); }
    if length >= 7 { b = b.wrapping_add((key[k + 6] as u32) << 16); }
    if length >= 6 { b = b.wrapping_add((key[k + 5] as u32) << 8); }
    if length >= 5 { b = b.wrapping_add(key[k + 4] as u32); }
    if length >= 4 { a = a.wrapping_add((key[k + 3] as u32) << 24); }
    if length >= 3 { a = a.wrapping_add((key[k + 2] as u32) << 16); }
    if length >= 2 { a = a.wrapping_add((key[k + 1] as u32) << 8); }
    a = a.wrapping_add(key[k] as u32);
    final_mix(&mut a, &mut b, &mut c);
    (c, b)
}

/// Jenkins one-at-a-time over bytes, 64-bit accumulator as the BET tables use it.
pub fn one_at_a_time64(key: &[u8]) -> u64 {
    let mut h: u64 = 0;
    let mut i = 0;
    while i < key.len() {
        h = h.wrapping_add(key[i] as u64);
        h = h.wrapping_add(h << 10);
        h ^= h >> 6;
        i += 1;
    }
    h = h.wrapping_add(h << 3);
    h ^= h >> 11;
    h = h.wrapping_add(h << 15);
    h
}
