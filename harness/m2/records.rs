// C13.b - M2 record level: attached as a child module of wow-m2/src/chunks/mod.rs
//
// For every record type whose size M2Model::write hard-codes when it advances `current_offset`:
//   * parse accepts a record of exactly that size and consumes exactly that many bytes,
//   * record.write(buf, version) produces exactly that many bytes,
//   * write(parse(b)) == b byte for byte (so parse(write(r)) == r on everything parse can return).
// The size constants are NOT repeated here: bin/check extracts them from the copied model.rs / skin.rs / anim.rs
// into consts_gen.rs (module `kc`), so a change on either side is seen.
#![allow(unused_imports, dead_code)]
#[path = "../env/io.rs"]
mod vio;
#[path = "consts_gen.rs"]
mod kc;
#[path = "segio.rs"]
mod segio;
use segio::Seg;
use vio::{CountSink, Sink, Src};

use super::animation::{M2Animation, M2AnimationBlock, M2AnimationTrack, M2InterpolationType, M2Range};
use super::attachment::M2Attachment;
use super::bone::M2Bone;
use super::camera::M2Camera;
use super::event::M2Event;
use super::light::M2Light;
use super::m2_track::{M2CompQuat, M2Track, M2TrackBase};
use super::material::M2Material;
use super::texture::{M2Texture, M2TextureType};
use super::vertex::{M2Vertex, ValidationMode};
use crate::error::Result;

/// write(parse(b)) == b, parser consumes and writer produces exactly `size` bytes.
/// N is the buffer (size + slack so that an over-reading parser is seen as a size mismatch, not as EOF).
fn roundtrip<const N: usize, T>(
    b: [u8; N],
    size: usize,
    parse: impl Fn(&mut Src<N>) -> Result<T>,
    write: impl Fn(&T, &mut Sink<N>) -> Result<()>,
) {
    assert!(size <= N, "size constant of the writer exceeds every layout of this record");
    let mut src = Src::<N>::new(b, N);
    let r = parse(&mut src);
    if r.is_err() {
        assert!(false, "record of the size the writer assumes is rejected by the parser");
        std::mem::forget(r);
        return;
    }
    let c = r.unwrap();
    assert!(src.pos == size, "parser consumes a different number of bytes than the size constant the writer adds to its offset");
    let mut out = Sink::<N>::new();
    let w = write(&c, &mut out);
    assert!(w.is_ok(), "record.write fails on a parsed record");
    kani::cover!(out.pos == size, "record written with the expected size");
    assert!(out.pos == size, "record.write produces a different number of bytes than the size constant M2Model::write adds to its offset");
    let i: usize = kani::any();
    kani::assume(i < size);
    assert!(out.buf[i] == b[i], "write(parse(b)) != b");
    std::mem::forget((c, w));
}

/// the same for records longer than 64 bytes (see segio.rs for why those need a segmented buffer)
fn roundtrip_seg<T>(
    mut src: Seg,
    size: usize,
    parse: impl Fn(&mut Seg) -> Result<T>,
    write: impl Fn(&T, &mut Seg) -> Result<()>,
) {
    assert!(size <= src.len, "size constant of the writer exceeds every layout of this record");
    let r = parse(&mut src);
    if r.is_err() {
        assert!(false, "record of the size the writer assumes is rejected by the parser");
        std::mem::forget(r);
        return;
    }
    let c = r.unwrap();
    assert!(src.pos == size, "parser consumes a different number of bytes than the size constant the writer adds to its offset");
    let mut out = Seg::new();
    let w = write(&c, &mut out);
    assert!(w.is_ok(), "record.write fails on a parsed record");
    kani::cover!(out.pos == size, "record written with the expected size");
    assert!(out.pos == size, "record.write produces a different number of bytes than the size constant M2Model::write adds to its offset");
    let i: usize = kani::any();
    kani::assume(i < size);
    assert!(out.get(i) == src.get(i), "write(parse(b)) != b");
    std::mem::forget((c, w));
}

fn le32(b: &[u8], o: usize) -> u32 { u32::from_le_bytes([b[o], b[o + 1], b[o + 2], b[o + 3]]) }
fn is_nan_at(b: &[u8], o: usize) -> bool { f32::from_bits(le32(b, o)).is_nan() }

// ------------------------------------------------------------------ sequence (M2Animation) 32 / 52
#[kani::proof]
#[kani::stub(std::fmt::format, vio::fmt_stub)]
#[kani::unwind(8)]
fn c13b_sequence_v256() {
    let b: [u8; 40] = kani::any();
    // known finding sequence-start-overflow: write() evaluates `start_timestamp + 1000` eagerly
    kani::assume(le32(&b, 4) <= u32::MAX - 1000);
    roundtrip::<40, M2Animation>(b, kc::ANIM_SIZE_V256, |r| M2Animation::parse(r, 256), |a, w| a.write(w, 256));
}

#[kani::proof]
#[kani::stub(std::fmt::format, vio::fmt_stub)]
#[kani::unwind(8)]
fn c13b_sequence_start_overflow_witness() {
    let mut b = [0u8; 40];
    b[4] = 0xff; b[5] = 0xff; b[6] = 0xff; b[7] = 0xff; // start_timestamp = u32::MAX, end_timestamp present
    roundtrip::<40, M2Animation>(b, kc::ANIM_SIZE_V256, |r| M2Animation::parse(r, 256), |a, w| a.write(w, 256));
}

/// the size rule M2Model::write applies to its sequence table (operator, threshold and both sizes extracted from
/// model.rs) equals the number of bytes M2Animation::write produces, for EVERY legacy version number 256..=264
#[kani::proof]
#[kani::stub(std::fmt::format, vio::fmt_stub)]
#[kani::unwind(8)]
fn c13b_sequence_size_rule() {
    let version: u32 = kani::any();
    kani::assume(version >= 256 && version <= 264);
    let b: [u8; 60] = kani::any();
    let mut src = Src::<60>::new(b, 60);
    let a = M2Animation::parse(&mut src, version).unwrap();
    kani::assume(a.start_timestamp <= u32::MAX - 1000); // known finding sequence-start-overflow
    let mut out = Sink::<64>::new();
    assert!(a.write(&mut out, version).is_ok());
    let first = if kc::ANIM_SIZE_OP.len() == 2 { version <= kc::ANIM_SIZE_SPLIT } else { version < kc::ANIM_SIZE_SPLIT };
    let rule = if first { kc::ANIM_SIZE_V256 } else { kc::ANIM_SIZE_TBC };
    kani::cover!(version == 257 && out.pos == rule);
    assert!(out.pos == rule, "M2Model::write's sequence size rule differs from the bytes M2Animation::write produces for this version");
    assert!(src.pos == rule, "M2Model::write's sequence size rule differs from the bytes M2Animation::parse consumes for this version");
    std::mem::forget(a);
}

fn sequence_bc(version: u32) {
    let b: [u8; 60] = kani::any();
    roundtrip::<60, M2Animation>(b, kc::ANIM_SIZE_TBC, |r| M2Animation::parse(r, version), |a, w| a.write(w, version));
}
#[kani::proof]
#[kani::stub(std::fmt::format, vio::fmt_stub)]
#[kani::unwind(8)]
fn c13b_sequence_v260() { sequence_bc(260) }
#[kani::proof]
#[kani::stub(std::fmt::format, vio::fmt_stub)]
#[kani::unwind(8)]
fn c13b_sequence_v264() { sequence_bc(264) }
#[kani::proof]
#[kani::stub(std::fmt::format, vio::fmt_stub)]
#[kani::unwind(8)]
fn c13b_sequence_v272() { sequence_bc(272) }
// version numbers right behind the layout switch of M2Model::write (`header.version <= 256`): the record codec must
// switch at the same number as the model writer that sizes the records
#[kani::proof]
#[kani::stub(std::fmt::format, vio::fmt_stub)]
#[kani::unwind(8)]
fn c13b_sequence_v257() { sequence_bc(257) }
#[kani::proof]
#[kani::stub(std::fmt::format, vio::fmt_stub)]
#[kani::unwind(8)]
fn c13b_sequence_v259() { sequence_bc(259) }

/// API direction: a sequence built with the fields of one layout and written in the other layout
/// (what version conversion does: M2Animation::convert is the identity) still has the size the writer assumes
/// and keeps the fields both layouts share.
#[kani::proof]
#[kani::stub(std::fmt::format, vio::fmt_stub)]
#[kani::unwind(8)]
fn c13b_sequence_cross_version() {
    let b: [u8; 60] = kani::any();
    let from_vanilla: bool = kani::any();
    let mut src = Src::<60>::new(b, 60);
    let a = M2Animation::parse(&mut src, if from_vanilla { 256 } else { 264 }).unwrap();
    kani::assume(a.start_timestamp <= u32::MAX - 1000); // known finding sequence-start-overflow
    let c = a.convert(crate::version::M2Version::WotLK);
    let to: u32 = if from_vanilla { 264 } else { 256 };
    let mut out = Sink::<60>::new();
    assert!(c.write(&mut out, to).is_ok());
    let want = if to <= 256 { kc::ANIM_SIZE_V256 } else { kc::ANIM_SIZE_TBC };
    kani::cover!(out.pos == want);
    assert!(out.pos == want, "converted sequence is not written with the size the writer assumes");
    let mut s2 = Src::<60>::new(out.buf, out.pos);
    let d = M2Animation::parse(&mut s2, to).unwrap();
    assert!(d.animation_id == a.animation_id && d.sub_animation_id == a.sub_animation_id
        && d.start_timestamp == a.start_timestamp && d.movement_speed.to_bits() == a.movement_speed.to_bits()
        && d.flags == a.flags && d.frequency == a.frequency && d.padding == a.padding,
        "sequence fields shared by both layouts changed in conversion");
    std::mem::forget((a, c, d));
}

// ------------------------------------------------------------------ bone 108 / 112 / 88
/// interpolation types must be one of the 4 the enum can hold (the parser maps everything else to Linear:
/// documented lossy), pivot must not be NaN (documented "CRITICAL FIX": NaN pivots are zeroed)
fn seg_nan_at(b: &Seg, o: usize) -> bool { f32::from_bits(b.get32(o)).is_nan() }
fn bone(version: u32, size: usize) {
    let mut b = Seg::any(120);
    let hdr = if version >= 260 { 16 } else { 12 };
    let track = if version < 264 { 28 } else { 20 };
    let mut k = 0;
    while k < 3 {
        let t: u8 = kani::any();
        kani::assume(t <= 3);
        b.set(hdr + k * track, t);
        b.set(hdr + k * track + 1, 0);
        k += 1;
    }
    let pv = hdr + 3 * track;
    kani::assume(!seg_nan_at(&b, pv) && !seg_nan_at(&b, pv + 4) && !seg_nan_at(&b, pv + 8));
    roundtrip_seg::<M2Bone>(b, size, |r| M2Bone::parse(r, version), |x, w| x.write(w, version));
}
#[kani::proof]
#[kani::stub(std::fmt::format, vio::fmt_stub)]
#[kani::unwind(8)]
fn c13b_bone_v256() { bone(256, kc::BONE_SIZE_V256) }
#[kani::proof]
#[kani::stub(std::fmt::format, vio::fmt_stub)]
#[kani::unwind(8)]
fn c13b_bone_v260() { bone(260, kc::BONE_SIZE_TBC) }
#[kani::proof]
#[kani::stub(std::fmt::format, vio::fmt_stub)]
#[kani::unwind(8)]
fn c13b_bone_v263() { bone(263, kc::BONE_SIZE_TBC) }
#[kani::proof]
#[kani::stub(std::fmt::format, vio::fmt_stub)]
#[kani::unwind(8)]
fn c13b_bone_v264() { bone(264, kc::BONE_SIZE_WOTLK) }
#[kani::proof]
#[kani::stub(std::fmt::format, vio::fmt_stub)]
#[kani::unwind(8)]
fn c13b_bone_v272() { bone(272, kc::BONE_SIZE_WOTLK) }

/// what M2Model::write really emits for a model without preserved key frames: the bone with default tracks
#[kani::proof]
#[kani::stub(std::fmt::format, vio::fmt_stub)]
#[kani::unwind(8)]
fn c13b_bone_static_all_versions() {
    let versions: [(u32, usize); 5] = [(256, kc::BONE_SIZE_V256), (260, kc::BONE_SIZE_TBC), (263, kc::BONE_SIZE_TBC),
        (264, kc::BONE_SIZE_WOTLK), (272, kc::BONE_SIZE_WOTLK)];
    let mut bone = M2Bone::new(kani::any(), kani::any());
    bone.submesh_id = kani::any();
    bone.bone_name_crc = Some(kani::any());
    bone.pivot.x = kani::any();
    kani::assume(!bone.pivot.x.is_nan());
    let mut k = 0;
    while k < 5 {
        let (v, size) = versions[k];
        let mut out = Seg::new();
        assert!(bone.write(&mut out, v).is_ok());
        assert!(out.pos == size, "static bone is not written with the size the writer assumes");
        let mut src = out.into_source();
        let d = M2Bone::parse(&mut src, v).unwrap();
        assert!(src.pos == size);
        assert!(d.bone_id == bone.bone_id && d.parent_bone == bone.parent_bone && d.submesh_id == bone.submesh_id
            && d.pivot.x.to_bits() == bone.pivot.x.to_bits(), "bone fields changed in write->parse");
        assert!(v < 260 || d.bone_name_crc == bone.bone_name_crc, "bone name CRC changed in write->parse");
        assert!(d.translation.timestamps.count == 0 && d.rotation.values.count == 0 && d.scale.values.count == 0);
        std::mem::forget(d);
        k += 1;
    }
    kani::cover!(true);
    std::mem::forget(bone);
}

// ------------------------------------------------------------------ vertex 48
#[kani::proof]
#[kani::stub(std::fmt::format, vio::fmt_stub)]
#[kani::unwind(8)]
fn c13b_vertex() {
    let b: [u8; 56] = kani::any();
    let version: u32 = kani::any();
    let bone_count: u32 = kani::any();
    // documented repair: bone indices >= bone count are replaced by 0 when the model is parsed
    kani::assume((b[16] as u32) < bone_count && (b[17] as u32) < bone_count && (b[18] as u32) < bone_count && (b[19] as u32) < bone_count);
    roundtrip::<56, M2Vertex>(b, kc::VERTEX_SIZE,
        |r| M2Vertex::parse_with_validation(r, version, Some(bone_count), ValidationMode::default()),
        |x, w| x.write(w, version));
}

// ------------------------------------------------------------------ texture definition 16 (+ file name it points to)
#[kani::proof]
#[kani::stub(std::fmt::format, vio::fmt_stub)]
#[kani::unwind(8)]
fn c13b_texture_def() {
    let mut b: [u8; 24] = kani::any();
    kani::assume(b[0] <= 14 || b[0] == 255); // texture types the enum can hold
    b[1] = 0; b[2] = 0; b[3] = 0;
    // file name: 4 bytes at offset 16 (count and offset are part of the shape)
    b[8] = 4; b[9] = 0; b[10] = 0; b[11] = 0;
    b[12] = 16; b[13] = 0; b[14] = 0; b[15] = 0;
    let mut src = Src::<24>::new(b, 24);
    let t = M2Texture::parse(&mut src, 264).unwrap();
    assert!(src.pos == kc::TEXTURE_DEF_SIZE, "texture parser does not leave the reader behind the definition");
    // file name = bytes up to the first NUL
    let n = t.filename.string.data.len();
    assert!(n <= 4);
    let j: usize = kani::any();
    kani::assume(j < 4);
    if j < n { assert!(t.filename.string.data[j] == b[16 + j] && b[16 + j] != 0, "texture file name differs from the bytes it points to"); }
    else { assert!(j > n || b[16 + j] == 0, "texture file name cut before its terminator"); }
    let mut out = Sink::<24>::new();
    assert!(t.write(&mut out).is_ok());
    kani::cover!(out.pos == 16 && n == 3);
    assert!(out.pos == kc::TEXTURE_DEF_SIZE, "texture definition is not written with the size the writer assumes");
    let i: usize = kani::any();
    kani::assume(i < 16);
    assert!(out.buf[i] == b[i], "texture definition write(parse(b)) != b");
    std::mem::forget(t);
}

// ------------------------------------------------------------------ material / render flag 4
#[kani::proof]
#[kani::stub(std::fmt::format, vio::fmt_stub)]
#[kani::unwind(8)]
fn c13b_material() {
    let b: [u8; 8] = kani::any();
    let version: u32 = kani::any();
    roundtrip::<8, M2Material>(b, kc::MATERIAL_SIZE, |r| M2Material::parse(r, version), |x, w| x.write(w, version));
}

// ------------------------------------------------------------------ records built on M2AnimationBlock (28-byte tracks)
// shape: every track's value array is empty (count 0) - a non-empty one makes the parser follow the offset
fn zero_track_values(b: &mut [u8], track_at: usize) {
    b[track_at] &= 3; // interpolation type the enum can hold
    b[track_at + 1] = 0;
    let mut k = 0;
    while k < 4 { b[track_at + 20 + k] = 0; k += 1; }
}

fn seg_zero_track_values(b: &mut Seg, track_at: usize) {
    let t: u8 = kani::any();
    kani::assume(t <= 3); // interpolation type the enum can hold
    b.set(track_at, t);
    b.set(track_at + 1, 0);
    b.set32(track_at + 20, 0);
}

#[kani::proof]
#[kani::stub(std::fmt::format, vio::fmt_stub)]
#[kani::unwind(8)]
fn c13b_attachment() {
    let mut b: [u8; 56] = kani::any();
    zero_track_values(&mut b, 20);
    let version: u32 = kani::any();
    roundtrip::<56, M2Attachment>(b, M2Attachment::size(), |r| M2Attachment::parse(r, version), |x, w| x.write(w, version));
}

/// attachment whose scale track has one key: the parser follows the offset and returns the value; the record bytes still round-trip
#[kani::proof]
#[kani::stub(std::fmt::format, vio::fmt_stub)]
#[kani::unwind(8)]
fn c13b_attachment_one_key() {
    let mut b: [u8; 56] = kani::any();
    b[20] &= 3; b[21] = 0;
    b[40] = 1; b[41] = 0; b[42] = 0; b[43] = 0;  // values.count = 1
    b[44] = 48; b[45] = 0; b[46] = 0; b[47] = 0; // values.offset = 48
    let mut src = Src::<56>::new(b, 56);
    let a = M2Attachment::parse(&mut src, 264).unwrap();
    assert!(src.pos == 48, "attachment parser does not return to the end of the record after following the value offset");
    assert!(a.scale_animation.track.values.data.len() == 1);
    assert!(a.scale_animation.track.values.data[0].to_bits() == le32(&b, 48), "key-frame value differs from the bytes the track points to");
    let mut out = Sink::<56>::new();
    assert!(a.write(&mut out, 264).is_ok());
    kani::cover!(out.pos == 48);
    assert!(out.pos == M2Attachment::size());
    let i: usize = kani::any();
    kani::assume(i < 48);
    assert!(out.buf[i] == b[i], "attachment write(parse(b)) != b");
    std::mem::forget(a);
}

#[kani::proof]
#[kani::stub(std::fmt::format, vio::fmt_stub)]
#[kani::unwind(8)]
fn c13b_event() {
    let b: [u8; 52] = kani::any();
    let version: u32 = kani::any();
    roundtrip::<52, M2Event>(b, M2Event::size(), |r| M2Event::parse(r, version), |x, w| x.write(w, version));
}

#[kani::proof]
#[kani::stub(std::fmt::format, vio::fmt_stub)]
#[kani::unwind(8)]
fn c13b_light() {
    let mut b = Seg::any(172);
    let t: u8 = kani::any();
    kani::assume(t <= 3); // light types the enum can hold
    b.set(0, t);
    b.set(3, 0); // padding
    let mut k = 0;
    while k < 5 { seg_zero_track_values(&mut b, 16 + 28 * k); k += 1; }
    b.set(162, 0); b.set(163, 0); // padding
    let version: u32 = kani::any();
    // 1 + 2 + 1 + 12 + 5 * 28 + 4 + 2 + 2 (wowdev.wiki M2Light, 28-byte tracks as this library reads them)
    roundtrip_seg::<M2Light>(b, 164, |r| M2Light::parse(r, version), |x, w| x.write(w, version));
}

fn camera(version: u32, size: usize) {
    let mut b = Seg::any(140);
    seg_zero_track_values(&mut b, 16);
    seg_zero_track_values(&mut b, 56);
    seg_zero_track_values(&mut b, 96);
    if version >= 264 { b.set(130, 0); b.set(131, 0); }
    roundtrip_seg::<M2Camera>(b, size, |r| M2Camera::parse(r, version), |x, w| x.write(w, version));
}
#[kani::proof]
#[kani::stub(std::fmt::format, vio::fmt_stub)]
#[kani::unwind(8)]
fn c13b_camera_v256() { camera(256, M2Camera::size(256)) }
#[kani::proof]
#[kani::stub(std::fmt::format, vio::fmt_stub)]
#[kani::unwind(8)]
fn c13b_camera_v263() { camera(263, M2Camera::size(263)) }
/// known finding camera-size: M2Camera::size(v >= 264) is 108 but parse/write move 132 bytes; the round trip
/// itself is checked against the 132 bytes the record really has
#[kani::proof]
#[kani::stub(std::fmt::format, vio::fmt_stub)]
#[kani::unwind(8)]
fn c13b_camera_v264() { camera(264, 132) }
#[kani::proof]
#[kani::stub(std::fmt::format, vio::fmt_stub)]
#[kani::unwind(8)]
fn c13b_camera_size_witness() {
    let c = M2Camera::new(1);
    let mut out = CountSink { n: 0 };
    assert!(c.write(&mut out, 264).is_ok());
    assert!(out.n == M2Camera::size(264), "M2Camera::size(version) != bytes M2Camera::write produces");
    std::mem::forget(c);
}

// ------------------------------------------------------------------ compressed quaternion (rotation key frames)
#[kani::proof]
#[kani::stub(std::fmt::format, vio::fmt_stub)]
#[kani::unwind(8)]
fn c13b_compquat() {
    let q = M2CompQuat { x: 0, y: kani::any(), z: kani::any(), w: kani::any() }; // known finding compquat-x: x != 0 excluded
    let mut out = Sink::<8>::new();
    assert!(q.write(&mut out).is_ok());
    assert!(out.pos == 8);
    let mut src = Src::<8>::new(out.buf, 8);
    let p = M2CompQuat::parse(&mut src).unwrap();
    kani::cover!(p.y == 7);
    assert!(p == q, "compressed quaternion changed in write->parse");
}
#[kani::proof]
#[kani::stub(std::fmt::format, vio::fmt_stub)]
#[kani::unwind(8)]
fn c13b_compquat_x_witness() {
    let q = M2CompQuat { x: 5, y: 1, z: 2, w: 3 };
    let mut out = Sink::<8>::new();
    assert!(q.write(&mut out).is_ok());
    let mut src = Src::<8>::new(out.buf, 8);
    let p = M2CompQuat::parse(&mut src).unwrap();
    assert!(p == q, "compressed quaternion changed in write->parse");
}

// ------------------------------------------------------------------ embedded skin (pre-WotLK): element sizes reader vs writer
/// the element sizes with which M2Model::parse slices the embedded skin arrays are the ones M2Model::write
/// divides by when it recomputes the counts (model view 44; property 4; submesh 32/48; batch = SkinBatch record)
#[kani::proof]
#[kani::stub(std::fmt::format, vio::fmt_stub)]
#[kani::unwind(8)]
fn c13b_embedded_skin_element_sizes() {
    assert!(kc::EMB_MODEL_VIEW_READ == kc::EMB_MODEL_VIEW_WRITE, "embedded skin: model view size differs between parser and writer");
    assert!(kc::EMB_PROP_READ == kc::EMB_PROP_WRITE, "embedded skin: property size differs between parser and writer");
    assert!(kc::EMB_SUBMESH_READ_V256 == kc::EMB_SUBMESH_WRITE_V256 && kc::EMB_SUBMESH_READ_TBC == kc::EMB_SUBMESH_WRITE_TBC,
        "embedded skin: submesh size differs between parser and writer");
    let b: crate::skin::SkinBatch = crate::skin::SkinBatch { flags: kani::any(), priority_plane: kani::any(), shader_id: kani::any(),
        skin_section_index: kani::any(), geoset_index: kani::any(), color_index: kani::any(), material_index: kani::any(),
        material_layer: kani::any(), texture_count: kani::any(), texture_combo_index: kani::any(), texture_coord_combo_index: kani::any(),
        texture_weight_combo_index: kani::any(), texture_transform_combo_index: kani::any() };
    let mut out = CountSink { n: 0 };
    assert!(b.write(&mut out).is_ok());
    kani::cover!(out.n == 24);
    assert!(out.n == kc::EMB_BATCH_READ, "embedded skin: parser's batch size differs from the SkinBatch record");
    // known finding embedded-batch-size: the writer divides by 96 (kc::EMB_BATCH_WRITE), see the witness
}
#[kani::proof]
#[kani::stub(std::fmt::format, vio::fmt_stub)]
#[kani::unwind(8)]
fn c13b_embedded_batch_size_witness() {
    assert!(kc::EMB_BATCH_READ == kc::EMB_BATCH_WRITE, "embedded skin: batch size differs between parser (bytes per batch) and writer (divisor for the batch count)");
}

#[kani::proof]
#[kani::stub(std::fmt::format, vio::fmt_stub)]
#[kani::unwind(8)]
fn c13b_records_canary() {
    let b: [u8; 8] = kani::any();
    let mut src = Src::<8>::new(b, 8);
    let m = M2Material::parse(&mut src, 264).unwrap();
    assert!(m.flags.bits() != 0x1234, "canary: must be reported as failing");
}

// ---------------------------------------------------------------- C13.f record-level version conversion
/// converting a bone to another version keeps everything both versions can hold: identity, parent, flags,
/// pivot, and the name CRC whenever the target version is TBC or later (the field exists from TBC on)
#[kani::proof]
#[kani::stub(std::fmt::format, vio::fmt_stub)]
#[kani::unwind(8)]
fn c13f_bone_convert_keeps_common_content() {
    use crate::version::M2Version;
    let mut b = M2Bone::new(kani::any(), kani::any());
    b.flags = super::bone::M2BoneFlags::from_bits_truncate(kani::any());
    b.submesh_id = kani::any();
    b.unknown = kani::any();
    let crc: u32 = kani::any();
    b.bone_name_crc = Some(crc);
    b.pivot.x = f32::from_bits(kani::any());
    let t: u8 = kani::any();
    kani::assume(t < 7);
    let target = match t {
        0 => M2Version::Vanilla, 1 => M2Version::TBC, 2 => M2Version::WotLK, 3 => M2Version::Cataclysm,
        4 => M2Version::MoP, 5 => M2Version::WoD, _ => M2Version::Legion,
    };
    let c = b.convert(target);
    kani::cover!(t == 1, "target TBC");
    assert!(c.bone_id == b.bone_id && c.parent_bone == b.parent_bone && c.flags == b.flags && c.submesh_id == b.submesh_id,
        "bone conversion changed identity, parent, flags or submesh");
    assert!(c.pivot.x.to_bits() == b.pivot.x.to_bits(), "bone conversion changed the pivot");
    if target.to_header_version() >= 260 {
        assert!(c.bone_name_crc == Some(crc), "bone conversion to TBC or later lost the bone name CRC (representable from TBC on)");
    }
    std::mem::forget((b, c));
}
