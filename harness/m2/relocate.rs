// C13.g - preserved key-frame data: the offset relocation step of M2Model::write.
// Child module of wow-m2/src/model.rs (the relocate_* functions are private to it).
//
// M2Model::write copies preserved key-frame bytes to a new place and records old offset -> new offset in a map
// (HashMap<u32, u32>; association-list model in the scratch copy, see cat_C13.py).  Every record that refers to such
// data is then passed through a relocate_* function.  Decided here, for ALL track shapes and ALL maps of one to three
// entries: after relocation no array of a track still carries an offset of the OLD file - it is either moved to
// the mapped offset (count kept) or the track is emptied; arrays that were empty stay as they were.
#![allow(unused_imports, dead_code)]
#[path = "../env/io.rs"]
mod vio;

use super::*;
use crate::chunks::bone::M2Bone;
use crate::chunks::m2_track::M2Track;
use crate::common::M2Array;

/// three unconditional inserts (a push under a symbolic condition makes the Vec behind the model symbolic and
/// explodes in CBMC); equal keys collapse, so maps of one, two and three entries are covered
fn sym_map() -> HashMap<u32, u32> {
    let mut m: HashMap<u32, u32> = HashMap::new();
    m.insert(kani::any(), kani::any());
    m.insert(kani::any(), kani::any());
    m.insert(kani::any(), kani::any());
    m
}

fn sym_track<T: Default>(with_ranges: bool) -> M2Track<T> {
    let mut t = M2Track::<T>::default();
    t.timestamps = M2Array::new(kani::any(), kani::any());
    t.values = M2Array::new(kani::any(), kani::any());
    t.ranges = if with_ranges { Some(M2Array::new(kani::any(), kani::any())) } else { None };
    t
}

/// (count, offset) of the three arrays; ranges: None -> (0, 0, false)
fn shape<T>(t: &M2Track<T>) -> [(u32, u32); 3] {
    let r = match &t.ranges { Some(r) => (r.count, r.offset), None => (0, 0) };
    [(t.timestamps.count, t.timestamps.offset), (t.values.count, t.values.offset), r]
}

fn check_track(before: [(u32, u32); 3], after: [(u32, u32); 3], map: &HashMap<u32, u32>) {
    let (ts, vs, rs) = (before[0], before[1], before[2]);
    let ts_new = map.get(&ts.1).copied();
    let vs_new = map.get(&vs.1).copied();
    let lost = (ts.0 != 0 && ts_new.is_none()) || (vs.0 != 0 && vs_new.is_none());
    if lost {
        assert!(after[0].0 == 0 && after[1].0 == 0 && after[2].0 == 0,
            "a track whose key-frame data was not collected still refers to it after relocation");
        return;
    }
    assert!(after[0].0 == ts.0 && after[1].0 == vs.0, "relocation changed the number of key frames of a collected track");
    if ts.0 != 0 {
        assert!(Some(after[0].1) == ts_new, "time stamps of a collected track are not moved to their new offset (stale offset of the old file)");
    }
    if vs.0 != 0 {
        assert!(Some(after[1].1) == vs_new, "values of a collected track are not moved to their new offset (stale offset of the old file)");
    }
    if rs.0 != 0 {
        match map.get(&rs.1).copied() {
            Some(n) => assert!(after[2].0 == rs.0 && after[2].1 == n, "ranges of a collected track are not moved to their new offset"),
            None => assert!(after[2].0 == 0, "ranges that were not collected are still referred to after relocation"),
        }
    }
}

fn bone_relocation(with_ranges: bool) {
    let mut bone = M2Bone::new(kani::any(), kani::any());
    bone.translation = sym_track(with_ranges);
    bone.rotation = sym_track(with_ranges);
    bone.scale = sym_track(with_ranges);
    let map = sym_map();
    let before = [shape(&bone.translation), shape(&bone.rotation), shape(&bone.scale)];
    relocate_bone_track_offsets(&mut bone, &map);
    kani::cover!(bone.translation.timestamps.count != 0 && bone.translation.values.count != 0, "a relocated animated track");
    kani::cover!(before[1][0].0 == 0 && before[1][1].0 != 0 && bone.rotation.values.count != 0, "a track with values but no time stamps, relocated");
    check_track(before[0], shape(&bone.translation), &map);
    check_track(before[1], shape(&bone.rotation), &map);
    check_track(before[2], shape(&bone.scale), &map);
    std::mem::forget((bone, map));
}

#[kani::proof]
#[kani::unwind(10)]
#[kani::stub(std::fmt::format, vio::fmt_stub)]
fn c13g_bone_relocation_pre_wotlk() { bone_relocation(true) }

#[kani::proof]
#[kani::unwind(10)]
#[kani::stub(std::fmt::format, vio::fmt_stub)]
fn c13g_bone_relocation_wotlk() { bone_relocation(false) }

#[kani::proof]
#[kani::unwind(10)]
#[kani::stub(std::fmt::format, vio::fmt_stub)]
fn c13g_canary() {
    let mut bone = M2Bone::new(1, -1);
    bone.translation = sym_track(false);
    let map = sym_map();
    relocate_bone_track_offsets(&mut bone, &map);
    assert!(bone.translation.timestamps.count == 0, "canary: must be violated (reachability witness)");
    std::mem::forget((bone, map));
}

// ------------------------------------------------------------------ cameras and lights (M2AnimationBlock: ranges, time stamps, values)
use crate::chunks::animation::M2AnimationBlock;
use crate::chunks::camera::M2Camera;
use crate::chunks::light::{M2Light, M2LightType};
use crate::common::M2Parse;

fn sym_block<T: M2Parse + Default + Clone>() -> M2AnimationBlock<T> {
    let mut b = M2AnimationBlock::<T>::default();
    b.track.interpolation_ranges = M2Array::new(kani::any(), kani::any());
    b.track.timestamps = M2Array::new(kani::any(), kani::any());
    b.track.values.array = M2Array::new(kani::any(), kani::any());
    b
}

fn bshape<T: M2Parse>(b: &M2AnimationBlock<T>) -> [(u32, u32); 3] {
    let t = &b.track;
    [(t.interpolation_ranges.count, t.interpolation_ranges.offset), (t.timestamps.count, t.timestamps.offset),
     (t.values.array.count, t.values.array.offset)]
}

/// a block keeps all three arrays (each non-empty one moved to its mapped offset, counts kept) or - when a non-empty
/// array was not collected - is emptied completely
fn check_block(before: [(u32, u32); 3], after: [(u32, u32); 3], map: &HashMap<u32, u32>) {
    let mut lost = false;
    let mut k = 0;
    while k < 3 {
        if before[k].0 != 0 && map.get(&before[k].1).is_none() { lost = true; }
        k += 1;
    }
    if lost {
        assert!(after[0].0 == 0 && after[1].0 == 0 && after[2].0 == 0,
            "an animation block whose key-frame data was not collected still refers to it after relocation");
        return;
    }
    let mut k = 0;
    while k < 3 {
        assert!(after[k].0 == before[k].0, "relocation changed the number of elements of a collected animation block");
        if before[k].0 != 0 {
            assert!(Some(after[k].1) == map.get(&before[k].1).copied(),
                "an array of a collected animation block is not moved to its new offset (stale offset of the old file)");
        }
        k += 1;
    }
}

#[kani::proof]
#[kani::unwind(10)]
#[kani::stub(std::fmt::format, vio::fmt_stub)]
fn c13g_camera_relocation() {
    let mut cam = M2Camera::new(kani::any());
    cam.position_animation = sym_block();
    cam.target_position_animation = sym_block();
    cam.roll_animation = sym_block();
    let map = sym_map();
    let before = [bshape(&cam.position_animation), bshape(&cam.target_position_animation), bshape(&cam.roll_animation)];
    relocate_camera_animation_offsets(&mut cam, &map);
    kani::cover!(cam.roll_animation.track.values.array.count != 0, "a relocated camera track");
    check_block(before[0], bshape(&cam.position_animation), &map);
    check_block(before[1], bshape(&cam.target_position_animation), &map);
    check_block(before[2], bshape(&cam.roll_animation), &map);
    std::mem::forget((cam, map));
}

#[kani::proof]
#[kani::unwind(10)]
#[kani::stub(std::fmt::format, vio::fmt_stub)]
fn c13g_light_relocation() {
    let mut l = M2Light::new(M2LightType::Point, kani::any(), kani::any());
    l.ambient_color_animation = sym_block();
    l.diffuse_color_animation = sym_block();
    l.attenuation_start_animation = sym_block();
    l.attenuation_end_animation = sym_block();
    l.visibility_animation = sym_block();
    let map = sym_map();
    let before = [bshape(&l.ambient_color_animation), bshape(&l.diffuse_color_animation), bshape(&l.attenuation_start_animation),
                  bshape(&l.attenuation_end_animation), bshape(&l.visibility_animation)];
    relocate_light_animation_offsets(&mut l, &map);
    kani::cover!(l.attenuation_end_animation.track.timestamps.count != 0, "a relocated light track");
    check_block(before[0], bshape(&l.ambient_color_animation), &map);
    check_block(before[1], bshape(&l.diffuse_color_animation), &map);
    check_block(before[2], bshape(&l.attenuation_start_animation), &map);
    check_block(before[3], bshape(&l.attenuation_end_animation), &map);
    check_block(before[4], bshape(&l.visibility_animation), &map);
    std::mem::forget((l, map));
}
