// C13.c - skin files: attached as a child module of wow-m2/src/skin.rs
#![allow(unused_imports, dead_code)]
#[path = "../env/io.rs"]
mod vio;
#[path = "consts_gen.rs"]
mod kc;
#[path = "segio.rs"]
mod segio;
use segio::Seg;
use vio::{CountSink, Sink, Src};

use super::*;

fn any_submesh() -> SkinSubmesh {
    SkinSubmesh { id: kani::any(), level: kani::any(), vertex_start: kani::any(), vertex_count: kani::any(), triangle_start: kani::any(),
        triangle_count: kani::any(), bone_count: kani::any(), bone_start: kani::any(), bone_influence: kani::any(),
        center: [kani::any(), kani::any(), kani::any()], sort_center: [kani::any(), kani::any(), kani::any()], bounding_radius: kani::any() }
}
fn any_batch() -> SkinBatch {
    SkinBatch { flags: kani::any(), priority_plane: kani::any(), shader_id: kani::any(), skin_section_index: kani::any(), geoset_index: kani::any(),
        color_index: kani::any(), material_index: kani::any(), material_layer: kani::any(), texture_count: kani::any(), texture_combo_index: kani::any(),
        texture_coord_combo_index: kani::any(), texture_weight_combo_index: kani::any(), texture_transform_combo_index: kani::any() }
}
fn submesh_eq(a: &SkinSubmesh, b: &SkinSubmesh) -> bool {
    a.id == b.id && a.level == b.level && a.vertex_start == b.vertex_start && a.vertex_count == b.vertex_count
        && a.triangle_start == b.triangle_start && a.triangle_count == b.triangle_count && a.bone_count == b.bone_count
        && a.bone_start == b.bone_start && a.bone_influence == b.bone_influence
        && a.center[0].to_bits() == b.center[0].to_bits() && a.center[1].to_bits() == b.center[1].to_bits() && a.center[2].to_bits() == b.center[2].to_bits()
        && a.sort_center[0].to_bits() == b.sort_center[0].to_bits() && a.sort_center[1].to_bits() == b.sort_center[1].to_bits()
        && a.sort_center[2].to_bits() == b.sort_center[2].to_bits() && a.bounding_radius.to_bits() == b.bounding_radius.to_bits()
}
fn batch_eq(a: &SkinBatch, b: &SkinBatch) -> bool {
    a.flags == b.flags && a.priority_plane == b.priority_plane && a.shader_id == b.shader_id && a.skin_section_index == b.skin_section_index
        && a.geoset_index == b.geoset_index && a.color_index == b.color_index && a.material_index == b.material_index
        && a.material_layer == b.material_layer && a.texture_count == b.texture_count && a.texture_combo_index == b.texture_combo_index
        && a.texture_coord_combo_index == b.texture_coord_combo_index && a.texture_weight_combo_index == b.texture_weight_combo_index
        && a.texture_transform_combo_index == b.texture_transform_combo_index
}

// ------------------------------------------------------------------ records
/// submesh: 48-byte record (wowdev.wiki M2SkinSection), write(parse(b)) == b
#[kani::proof]
#[kani::stub(std::fmt::format, vio::fmt_stub)]
#[kani::stub(std::string::String::from_utf8_lossy, segio::lossy_stub)]
#[kani::unwind(8)]
fn c13c_submesh_record() {
    let mut b: [u8; 56] = kani::any();
    b[18] = 0; b[19] = 0; // padding word
    let mut src = Src::<56>::new(b, 56);
    let s = SkinSubmesh::parse(&mut src).unwrap();
    assert!(src.pos == 48, "submesh parser does not consume the 48-byte record");
    let mut out = Sink::<56>::new();
    assert!(s.write(&mut out).is_ok());
    kani::cover!(out.pos == 48);
    assert!(out.pos == src.pos, "submesh writer and parser disagree about the record size");
    let i: usize = kani::any();
    kani::assume(i < 48);
    assert!(out.buf[i] == b[i], "submesh write(parse(b)) != b");
}
/// batch: 24-byte record, write(parse(b)) == b
#[kani::proof]
#[kani::stub(std::fmt::format, vio::fmt_stub)]
#[kani::stub(std::string::String::from_utf8_lossy, segio::lossy_stub)]
#[kani::unwind(8)]
fn c13c_batch_record() {
    let b: [u8; 32] = kani::any();
    let mut src = Src::<32>::new(b, 32);
    let s = SkinBatch::parse(&mut src).unwrap();
    assert!(src.pos == 24, "batch parser does not consume the 24-byte record");
    let mut out = Sink::<32>::new();
    assert!(s.write(&mut out).is_ok());
    kani::cover!(out.pos == 24);
    assert!(out.pos == src.pos, "batch writer and parser disagree about the record size");
    let i: usize = kani::any();
    kani::assume(i < 24);
    assert!(out.buf[i] == b[i], "batch write(parse(b)) != b");
}
/// witness (known finding skin-submesh-advance): the skin writer advances its offset by 40 per submesh, the record has 48 bytes
#[kani::proof]
#[kani::stub(std::fmt::format, vio::fmt_stub)]
#[kani::stub(std::string::String::from_utf8_lossy, segio::lossy_stub)]
#[kani::unwind(8)]
fn c13c_submesh_advance_witness() {
    let s = any_submesh();
    let mut out = CountSink { n: 0 };
    assert!(s.write(&mut out).is_ok());
    assert!(out.n == kc::SKIN_SUBMESH_ADVANCE, "skin: bytes written per submesh != amount SkinG::write adds to its offset per submesh (a batch behind a submesh is not where the header says)");
}

// ------------------------------------------------------------------ headers
/// header write -> parse for both layouts: calculate_size() == bytes written == bytes parsed, fields kept
#[kani::proof]
#[kani::stub(std::fmt::format, vio::fmt_stub)]
#[kani::stub(std::string::String::from_utf8_lossy, segio::lossy_stub)]
#[kani::unwind(8)]
fn c13c_new_header_roundtrip() {
    // versions 0..3; version 4 with a center position: known finding skin-center-lost
    let mut ver: u32 = 0;
    while ver < 4 {
        let mut h = SkinHeader::new(M2Version::Cataclysm);
        h.version = ver;
        h.name = M2Array::new(kani::any(), kani::any());
        h.vertex_count = kani::any();
        h.indices = M2Array::new(kani::any(), kani::any());
        h.triangles = M2Array::new(kani::any(), kani::any());
        h.bone_indices = M2Array::new(kani::any(), kani::any());
        h.submeshes = M2Array::new(kani::any(), kani::any());
        h.batches = M2Array::new(kani::any(), kani::any());
        let mut out = Seg::new();
        assert!(h.write(&mut out).is_ok());
        kani::cover!(out.pos == 60);
        assert!(out.pos == h.calculate_size(), "SkinHeader::calculate_size() != bytes written");
        let written = out.pos;
        let mut src = out.into_source();
        let r = <SkinHeader as SkinHeaderT>::parse(&mut src);
        assert!(r.is_ok(), "skin header written by the library is rejected");
        let d = r.unwrap();
        assert!(src.pos == written);
        assert!(d.version == h.version && d.name == h.name && d.vertex_count == h.vertex_count && d.indices == h.indices && d.triangles == h.triangles
            && d.bone_indices == h.bone_indices && d.submeshes.count == h.submeshes.count && d.submeshes.offset == h.submeshes.offset
            && d.batches.count == h.batches.count && d.batches.offset == h.batches.offset, "skin header fields changed in write->parse");
        assert!(d.center_position.is_none() && d.center_bounds.is_none());
        std::mem::forget((h, d));
        ver += 1;
    }
}
#[kani::proof]
#[kani::stub(std::fmt::format, vio::fmt_stub)]
#[kani::stub(std::string::String::from_utf8_lossy, segio::lossy_stub)]
#[kani::unwind(8)]
fn c13c_old_header_roundtrip() {
    let mut h = OldSkinHeader::new();
    h.indices = M2Array::new(kani::any(), kani::any());
    h.triangles = M2Array::new(kani::any(), kani::any());
    h.bone_indices = M2Array::new(kani::any(), kani::any());
    h.submeshes = M2Array::new(kani::any(), kani::any());
    h.batches = M2Array::new(kani::any(), kani::any());
    h.bone_count_max = kani::any();
    let mut out = Sink::<64>::new();
    assert!(h.write(&mut out).is_ok());
    kani::cover!(out.pos == 48);
    assert!(out.pos == h.calculate_size(), "OldSkinHeader::calculate_size() != bytes written");
    let mut src = Src::<64>::new(out.buf, out.pos);
    let r = <OldSkinHeader as SkinHeaderT>::parse(&mut src);
    assert!(r.is_ok(), "old skin header written by the library is rejected");
    let d = r.unwrap();
    assert!(src.pos == out.pos);
    assert!(d.indices == h.indices && d.triangles == h.triangles && d.bone_indices == h.bone_indices && d.submeshes.count == h.submeshes.count
        && d.submeshes.offset == h.submeshes.offset && d.batches.count == h.batches.count && d.batches.offset == h.batches.offset
        && d.bone_count_max == h.bone_count_max, "old skin header fields changed in write->parse");
    std::mem::forget((h, d));
}
/// witness (known finding skin-center-lost): a BfA+ header (version 4 with center position) loses the center in write -> parse
#[kani::proof]
#[kani::stub(std::fmt::format, vio::fmt_stub)]
#[kani::stub(std::string::String::from_utf8_lossy, segio::lossy_stub)]
#[kani::unwind(8)]
fn c13c_header_center_witness() {
    let mut h = SkinHeader::new(M2Version::BfA);
    h.center_position = Some([1.0, 2.0, 3.0]);
    h.center_bounds = Some(4.0);
    let mut out = Seg::new();
    assert!(h.write(&mut out).is_ok());
    assert!(out.pos == 76 && out.pos == h.calculate_size());
    let mut src = out.into_source();
    let d = <SkinHeader as SkinHeaderT>::parse(&mut src).unwrap();
    assert!(d.center_position.is_some(), "skin header center position (BfA+) lost in write->parse");
    std::mem::forget((h, d));
}

// ------------------------------------------------------------------ whole skin, concrete shape, symbolic contents
// shape: 2 indices, 3 triangle indices, 1 vertex (4 bone indices), S submeshes, B batches.
// known finding skin-submesh-advance: with S >= 1 and B >= 1 the batch offset is 8*S bytes too small; the main harnesses
// use the shapes (S=1,B=0) and (S=0,B=1), the witness uses (1,1).
fn fill<H: SkinHeaderT + Clone>(header: H, s: usize, b: usize) -> SkinG<H> {
    let mut k = SkinG { header, indices: Vec::new(), triangles: Vec::new(), bone_indices: Vec::new(), submeshes: Vec::new(), batches: Vec::new() };
    k.indices.push(kani::any()); k.indices.push(kani::any());
    k.triangles.push(kani::any()); k.triangles.push(kani::any()); k.triangles.push(kani::any());
    k.bone_indices.push(kani::any()); k.bone_indices.push(kani::any()); k.bone_indices.push(kani::any()); k.bone_indices.push(kani::any());
    if s == 1 { k.submeshes.push(any_submesh()); }
    if b == 1 { k.batches.push(any_batch()); }
    k
}

fn skin_roundtrip<H: SkinHeaderT + Clone>(header: H, s: usize, b: usize) {
    let k = fill(header, s, b);
    let mut out = Seg::new();
    let w = k.write(&mut out);
    assert!(w.is_ok());
    let hs = k.header.calculate_size();
    let expect = hs + 4 + 6 + 4 + 48 * s + 24 * b;
    kani::cover!(out.pos == expect, "skin written");
    assert!(out.pos == expect, "skin file length != header + sum of the record sizes");
    let mut src = out.into_source(); // from here on `src` also stands for the first file image
    let r = SkinG::<H>::parse(&mut src);
    if r.is_err() {
        assert!(false, "skin written by the library is rejected by its parser");
        std::mem::forget((r, w, k));
        return;
    }
    let d = r.unwrap();
    assert!(d.indices.len() == 2 && d.triangles.len() == 3 && d.bone_indices.len() == 4 && d.submeshes.len() == s && d.batches.len() == b,
        "skin array lengths changed in write->parse");
    assert!(d.indices[0] == k.indices[0] && d.indices[1] == k.indices[1], "skin indices changed in write->parse");
    let t: usize = kani::any();
    kani::assume(t < 3);
    assert!(d.triangles[t] == k.triangles[t], "skin triangles changed in write->parse");
    let q: usize = kani::any();
    kani::assume(q < 4);
    assert!(d.bone_indices[q] == k.bone_indices[q], "skin bone indices changed in write->parse");
    if s == 1 { assert!(submesh_eq(&d.submeshes[0], &k.submeshes[0]), "skin submesh changed in write->parse"); }
    if b == 1 { assert!(batch_eq(&d.batches[0], &k.batches[0]), "skin batch changed in write->parse"); }
    // second write is byte-identical
    let mut out2 = Seg::new();
    let w2 = d.write(&mut out2);
    assert!(w2.is_ok() && out2.pos == expect, "second write has a different length");
    let i: usize = kani::any();
    kani::assume(i < expect);
    assert!(out2.get(i) == src.get(i), "write(parse(write(skin))) differs from write(skin)");
    std::mem::forget((k, d, w, w2));
}

#[kani::proof]
#[kani::stub(std::fmt::format, vio::fmt_stub)]
#[kani::stub(std::string::String::from_utf8_lossy, segio::lossy_stub)]
#[kani::unwind(90)]
fn c13c_skin_new_1submesh() { skin_roundtrip(SkinHeader::new(M2Version::Cataclysm), 1, 0) }
#[kani::proof]
#[kani::stub(std::fmt::format, vio::fmt_stub)]
#[kani::stub(std::string::String::from_utf8_lossy, segio::lossy_stub)]
#[kani::unwind(90)]
fn c13c_skin_new_1batch() { skin_roundtrip(SkinHeader::new(M2Version::MoP), 0, 1) }
#[kani::proof]
#[kani::stub(std::fmt::format, vio::fmt_stub)]
#[kani::stub(std::string::String::from_utf8_lossy, segio::lossy_stub)]
#[kani::unwind(90)]
fn c13c_skin_old_1submesh() { let mut h = OldSkinHeader::new(); h.bone_count_max = kani::any(); skin_roundtrip(h, 1, 0) }
#[kani::proof]
#[kani::stub(std::fmt::format, vio::fmt_stub)]
#[kani::stub(std::string::String::from_utf8_lossy, segio::lossy_stub)]
#[kani::unwind(90)]
fn c13c_skin_old_1batch() { let mut h = OldSkinHeader::new(); h.bone_count_max = kani::any(); skin_roundtrip(h, 0, 1) }

/// witness (known finding skin-submesh-advance): one submesh and one batch, concrete contents
#[kani::proof]
#[kani::stub(std::fmt::format, vio::fmt_stub)]
#[kani::stub(std::string::String::from_utf8_lossy, segio::lossy_stub)]
#[kani::unwind(90)]
fn c13c_skin_submesh_and_batch_witness() {
    let mut k = SkinG { header: SkinHeader::new(M2Version::Cataclysm), indices: Vec::new(), triangles: Vec::new(), bone_indices: Vec::new(),
        submeshes: Vec::new(), batches: Vec::new() };
    k.indices.push(0); k.indices.push(1);
    k.submeshes.push(SkinSubmesh { id: 7, level: 0, vertex_start: 0, vertex_count: 2, triangle_start: 0, triangle_count: 3, bone_count: 1, bone_start: 0,
        bone_influence: 1, center: [1.0, 2.0, 3.0], sort_center: [4.0, 5.0, 6.0], bounding_radius: 9.0 });
    k.batches.push(SkinBatch { flags: 0x11, priority_plane: 2, shader_id: 0x3333, skin_section_index: 4, geoset_index: 5, color_index: 6, material_index: 7,
        material_layer: 8, texture_count: 9, texture_combo_index: 10, texture_coord_combo_index: 11, texture_weight_combo_index: 12,
        texture_transform_combo_index: 13 });
    let mut out = Seg::new();
    assert!(k.write(&mut out).is_ok());
    let mut src = out.into_source();
    let d = SkinG::<SkinHeader>::parse(&mut src).unwrap();
    assert!(d.batches.len() == 1 && batch_eq(&d.batches[0], &k.batches[0]), "skin: bytes written per submesh != amount SkinG::write adds to its offset per submesh (a batch behind a submesh is not where the header says)");
    std::mem::forget((k, d));
}

/// the auto-detecting entry point reads an old-layout skin back as old layout (second word = index count > 4)
#[kani::proof]
#[kani::stub(std::fmt::format, vio::fmt_stub)]
#[kani::stub(std::string::String::from_utf8_lossy, segio::lossy_stub)]
#[kani::unwind(16)]
fn c13c_parse_skin_autodetect_old() {
    let mut k = SkinG { header: OldSkinHeader::new(), indices: Vec::new(), triangles: Vec::new(), bone_indices: Vec::new(),
        submeshes: Vec::new(), batches: Vec::new() };
    let mut n = 0;
    while n < 5 { k.indices.push(kani::any()); n += 1; } // known finding skin-autodetect-small: fewer than 5 indices excluded
    let mut out = Seg::new();
    assert!(k.write(&mut out).is_ok());
    let mut src = out.into_source();
    let r = parse_skin(&mut src);
    let ok = match &r { Ok(SkinFile::Old(d)) => d.indices.len() == 5 && d.indices[4] == k.indices[4] && d.indices[0] == k.indices[0], _ => false };
    kani::cover!(ok);
    assert!(ok, "old-layout skin written by the library is not read back as such by parse_skin");
    std::mem::forget((k, r));
}
/// witness (known finding skin-autodetect-small): an old-layout skin with 4 indices (a quad) is taken for the new layout
/// by the detection step of parse_skin (the parse that follows reads the file with the wrong header layout)
#[kani::proof]
#[kani::stub(std::fmt::format, vio::fmt_stub)]
#[kani::stub(std::string::String::from_utf8_lossy, segio::lossy_stub)]
#[kani::unwind(16)]
fn c13c_parse_skin_autodetect_small_witness() {
    let mut k = SkinG { header: OldSkinHeader::new(), indices: Vec::new(), triangles: Vec::new(), bone_indices: Vec::new(),
        submeshes: Vec::new(), batches: Vec::new() };
    k.indices.push(0); k.indices.push(1); k.indices.push(2); k.indices.push(3);
    let mut out = Seg::new();
    assert!(k.write(&mut out).is_ok());
    let mut src = out.into_source();
    let r = detect_skin_format(&mut src);
    let is_new = match &r { Ok(n) => *n, Err(_) => true };
    assert!(!is_new, "old-layout skin written by the library is not read back as such by parse_skin");
    std::mem::forget((k, r));
}

#[kani::proof]
#[kani::stub(std::fmt::format, vio::fmt_stub)]
#[kani::stub(std::string::String::from_utf8_lossy, segio::lossy_stub)]
#[kani::unwind(8)]
fn c13c_skin_canary() {
    let b: [u8; 32] = kani::any();
    let mut src = Src::<32>::new(b, 32);
    let s = SkinBatch::parse(&mut src).unwrap();
    assert!(s.shader_id != 0x1234, "canary: must be reported as failing");
}
