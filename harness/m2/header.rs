// C13.a - M2 header: attached as a child module of wow-m2/src/header.rs
//
//   (1) bytes direction, per version class x optional-field flag class: parse consumes exactly the header the format
//       defines for that class, write reproduces the consumed bytes, so parse(write(h)) == h on every header parse returns;
//   (2) `well_formed`: which optional header fields exist for which version / flag bits (wowdev.wiki M2 header, the same
//       rule M2Header::parse implements).  parse results are well formed (1); M2Header::new(v) and convert(v) must keep it,
//       otherwise the header they return is written with a layout the parser does not read back;
//   (3) convert(v -> v) is the identity and convert keeps every field both versions have.
#![allow(unused_imports, dead_code)]
#[path = "../env/io.rs"]
mod vio;
#[path = "segio.rs"]
mod segio;
use segio::Seg;
use vio::{CountSink, Sink, Src};

use super::*;

const FLAG_COMBINERS: u32 = 0x8; // M2ModelFlags::USE_TEXTURE_COMBINERS -> texture_combiner_combos present
const FLAG_BLEND_OVERRIDE: u32 = 0x0800_0000; // -> blend_map_overrides present (version >= 260)

/// header size of the format for a version / flag class (wowdev.wiki): 324 bytes up to TBC, 304 from WotLK,
/// + 8 per optional array
fn format_header_size(version: u32, flags: u32) -> usize {
    let mut n = if version <= 263 { 324 } else { 304 };
    if version >= 260 && flags & FLAG_BLEND_OVERRIDE != 0 { n += 8; }
    if flags & FLAG_COMBINERS != 0 { n += 8; }
    if version >= 273 { n += 8; } // Legion+: texture_transforms
    n
}

fn well_formed(h: &M2Header) -> bool {
    let v = h.version;
    let f = h.flags.bits();
    h.playable_animation_lookup.is_some() == (v <= 263)
        && h.texture_flipbooks.is_some() == (v <= 263)
        && h.num_skin_profiles.is_some() == (v > 263)
        && h.blend_map_overrides.is_some() == (v >= 260 && f & FLAG_BLEND_OVERRIDE != 0)
        && h.texture_combiner_combos.is_some() == (f & FLAG_COMBINERS != 0)
        && h.texture_transforms.is_some() == (v >= 273)
}

const CAP: usize = 352;

fn header_bytes(version: u32, combiners: bool, blend: bool, fill: bool) {
    let mut b = Seg::any(CAP);
    b.set(0, b'M'); b.set(1, b'D'); b.set(2, b'2'); b.set(3, b'0');
    b.set32(4, version);
    // flags word at 16..20 is part of the shape (the two layout bits decide which arrays follow; a partly symbolic word is
    // not a constant for symbolic execution and makes every later position symbolic): the 30 other bits are all set in one
    // variant and all clear in the other
    let lo: u8 = (if fill { 0xf7 } else { 0 }) | (if combiners { 0x08 } else { 0 });
    let hi: u8 = (if fill { 0xf7 } else { 0 }) | (if blend { 0x08 } else { 0 });
    b.set(16, lo);
    b.set(17, if fill { 0xff } else { 0 });
    b.set(18, if fill { 0xff } else { 0 });
    b.set(19, hi);
    let flags = (if combiners { FLAG_COMBINERS } else { 0 }) | (if blend { FLAG_BLEND_OVERRIDE } else { 0 });
    let size = format_header_size(version, flags);
    // documented workaround: a texture_animation_lookup count above 1 000 000 is treated as corrupt and zeroed
    let tal = if version <= 263 { 172 } else { 152 };
    kani::assume(b.get32(tal) <= 1_000_000);
    let r = M2Header::parse(&mut b);
    if r.is_err() {
        assert!(false, "header of a supported version is rejected");
        std::mem::forget(r);
        return;
    }
    let h = r.unwrap();
    assert!(b.pos == size, "header parser consumes a different number of bytes than the format defines for this version and flags");
    assert!(well_formed(&h), "parsed header has an optional field the format does not define for this version and flags (or lacks one)");
    let mut out = Seg::new();
    let w = h.write(&mut out);
    assert!(w.is_ok());
    kani::cover!(out.pos == size, "header written");
    assert!(out.pos == size, "header writer produces a different number of bytes than the parser consumed");
    let i: usize = kani::any();
    kani::assume(i < size);
    assert!(out.get(i) == b.get(i), "header write(parse(b)) != b");
    std::mem::forget((h, w));
}

macro_rules! header_class {
    ($name:ident, $v:expr, $c:expr, $b:expr, $f:expr) => {
        #[kani::proof]
        #[kani::stub(std::fmt::format, vio::fmt_stub)]
        #[kani::stub(std::string::String::from_utf8_lossy, segio::lossy_stub)]
        #[kani::unwind(6)]
        fn $name() { header_bytes($v, $c, $b, $f) }
    };
}
header_class!(c13a_header_v256, 256, false, false, false);
header_class!(c13a_header_v256_combiners_blendbit, 256, true, true, true);
header_class!(c13a_header_v260, 260, false, false, true);
header_class!(c13a_header_v260_blend, 260, false, true, false);
header_class!(c13a_header_v263_combiners_blend, 263, true, true, true);
header_class!(c13a_header_v264, 264, false, false, false);
header_class!(c13a_header_v264_combiners, 264, true, false, true);
header_class!(c13a_header_v272, 272, false, false, true);
header_class!(c13a_header_v272_combiners_blend, 272, true, true, false);
header_class!(c13a_header_v274_legion, 274, false, false, false);
header_class!(c13a_header_v276_legion_combiners_blend, 276, true, true, true);

fn all_versions(k: usize) -> M2Version {
    match k {
        0 => M2Version::Vanilla, 1 => M2Version::TBC, 2 => M2Version::WotLK, 3 => M2Version::Cataclysm, 4 => M2Version::MoP,
        5 => M2Version::WoD, 6 => M2Version::Legion, 7 => M2Version::BfA, 8 => M2Version::Shadowlands, 9 => M2Version::Dragonflight,
        _ => M2Version::TheWarWithin,
    }
}

/// write -> parse of a header returns a header with the same optional fields and consumes what was written
fn write_parse_same_layout(h: &M2Header) {
    let mut out = Seg::new();
    let w = h.write(&mut out);
    assert!(w.is_ok());
    let written = out.pos;
    let mut src = out.into_source();
    let r = M2Header::parse(&mut src);
    if r.is_err() {
        assert!(false, "header written by the library is rejected by its parser");
        std::mem::forget((r, w));
        return;
    }
    let d = r.unwrap();
    assert!(src.pos == written, "parser does not consume the header the writer produced");
    assert!(d.version == h.version && d.flags == h.flags);
    assert!(d.name == h.name && d.vertices == h.vertices && d.particle_emitters == h.particle_emitters
        && d.collision_sphere_radius.to_bits() == h.collision_sphere_radius.to_bits(), "header fields changed in write->parse");
    assert!(d.playable_animation_lookup == h.playable_animation_lookup && d.texture_flipbooks == h.texture_flipbooks
        && d.num_skin_profiles == h.num_skin_profiles && d.blend_map_overrides == h.blend_map_overrides
        && d.texture_combiner_combos == h.texture_combiner_combos && d.texture_transforms == h.texture_transforms,
        "optional header fields changed in write->parse");
    std::mem::forget((d, w));
}

/// M2Header::new(v) for every version except Vanilla (known finding header-new-vanilla) and WoD (known finding
/// version-wod-275: the number written for WoD, 275, is read back as Legion)
#[kani::proof]
#[kani::stub(std::fmt::format, vio::fmt_stub)]
#[kani::stub(std::string::String::from_utf8_lossy, segio::lossy_stub)]
#[kani::unwind(13)]
fn c13a_header_new_well_formed() {
    let mut k = 1;
    while k < 11 {
        if k == 5 { k += 1; continue; }
        let v = all_versions(k);
        let h = M2Header::new(v);
        assert!(h.version == v.to_header_version());
        assert!(M2Version::from_header_version(h.version).is_some(), "M2Header::new produces a version number the parser rejects");
        assert!(well_formed(&h), "M2Header::new(v) has an optional field the format does not define for v (or lacks one)");
        std::mem::forget(h);
        k += 1;
    }
    kani::cover!(true);
}
/// ... and such a header (with symbolic content) is read back with the same layout
macro_rules! new_write_parse {
    ($name:ident, $v:expr) => {
        #[kani::proof]
        #[kani::stub(std::fmt::format, vio::fmt_stub)]
        #[kani::stub(std::string::String::from_utf8_lossy, segio::lossy_stub)]
        #[kani::unwind(6)]
        fn $name() {
            let mut h = M2Header::new($v);
            h.name = M2Array::new(kani::any(), kani::any());
            h.vertices = M2Array::new(kani::any(), kani::any());
            h.particle_emitters = M2Array::new(kani::any(), kani::any());
            h.collision_sphere_radius = kani::any();
            kani::cover!(true);
            write_parse_same_layout(&h);
            std::mem::forget(h);
        }
    };
}
new_write_parse!(c13a_header_new_write_parse_tbc, M2Version::TBC);
new_write_parse!(c13a_header_new_write_parse_wotlk, M2Version::WotLK);
new_write_parse!(c13a_header_new_write_parse_cataclysm, M2Version::Cataclysm);
new_write_parse!(c13a_header_new_write_parse_legion, M2Version::Legion);
#[kani::proof]
#[kani::stub(std::fmt::format, vio::fmt_stub)]
#[kani::stub(std::string::String::from_utf8_lossy, segio::lossy_stub)]
#[kani::unwind(6)]
fn c13a_header_new_vanilla_witness() {
    let h = M2Header::new(M2Version::Vanilla);
    assert!(well_formed(&h), "M2Header::new(v) has an optional field the format does not define for v (or lacks one)");
    std::mem::forget(h);
}

/// a well formed header with symbolic flags and symbolic content in the fields every version has
fn some_header(from: M2Version) -> M2Header {
    let mut h = M2Header::new(from);
    let v = h.version;
    h.flags = M2ModelFlags::from_bits_retain(kani::any());
    let f = h.flags.bits();
    h.playable_animation_lookup = if v <= 263 { Some(M2Array::new(kani::any(), kani::any())) } else { None };
    h.texture_flipbooks = if v <= 263 { Some(M2Array::new(kani::any(), kani::any())) } else { None };
    h.num_skin_profiles = if v > 263 { Some(kani::any()) } else { None };
    if v <= 263 { h.views = M2Array::new(kani::any(), kani::any()); }
    h.blend_map_overrides = if v >= 260 && f & FLAG_BLEND_OVERRIDE != 0 { Some(M2Array::new(kani::any(), kani::any())) } else { None };
    h.texture_combiner_combos = if f & FLAG_COMBINERS != 0 { Some(M2Array::new(kani::any(), kani::any())) } else { None };
    h.texture_transforms = if v >= 273 { Some(M2Array::new(kani::any(), kani::any())) } else { None };
    h.name = M2Array::new(kani::any(), kani::any());
    h.bones = M2Array::new(kani::any(), kani::any());
    h.vertices = M2Array::new(kani::any(), kani::any());
    h.textures = M2Array::new(kani::any(), kani::any());
    h.particle_emitters = M2Array::new(kani::any(), kani::any());
    h.bounding_sphere_radius = kani::any();
    h.collision_box_max[2] = kani::any();
    h
}

fn common_fields_kept(a: &M2Header, b: &M2Header) -> bool {
    a.flags == b.flags && a.name == b.name && a.bones == b.bones && a.vertices == b.vertices && a.textures == b.textures
        && a.particle_emitters == b.particle_emitters
        && a.bounding_sphere_radius.to_bits() == b.bounding_sphere_radius.to_bits()
        && a.collision_box_max[2].to_bits() == b.collision_box_max[2].to_bits()
}

/// convert(v -> v) changes nothing
#[kani::proof]
#[kani::stub(std::fmt::format, vio::fmt_stub)]
#[kani::stub(std::string::String::from_utf8_lossy, segio::lossy_stub)]
#[kani::unwind(9)]
fn c13a_header_convert_same_version_identity() {
    // MoP shares the number 272 with Cataclysm (documented) and WoD's 275 is read as Legion (known finding version-wod-275):
    // for those two the library cannot see that source and target are the same version
    let ks: [usize; 7] = [0, 1, 2, 3, 6, 7, 10];
    let mut i = 0;
    while i < 7 {
        let k = ks[i];
        i += 1;
        let v = all_versions(k);
        let h = some_header(v);
        let c = h.convert(v).unwrap();
        assert!(c.version == h.version && common_fields_kept(&h, &c), "convert to the same version changed the header");
        assert!(c.playable_animation_lookup == h.playable_animation_lookup && c.texture_flipbooks == h.texture_flipbooks
            && c.num_skin_profiles == h.num_skin_profiles && c.views == h.views && c.blend_map_overrides == h.blend_map_overrides
            && c.texture_combiner_combos == h.texture_combiner_combos && c.texture_transforms == h.texture_transforms,
            "convert to the same version changed an optional header field");
        std::mem::forget((h, c));
    }
    kani::cover!(true);
}

/// convert(from -> to): result is well formed for the target version (so it is written in a layout the parser reads
/// back), keeps the fields every version has, and keeps optional fields that exist in both versions.
/// known finding header-convert-flags: the two flag bits that switch optional header arrays on are excluded.
fn convert_pair(from: M2Version, to: M2Version, assume_no_layout_flags: bool) {
    let h = some_header(from);
    if assume_no_layout_flags {
        kani::assume(h.flags.bits() & (FLAG_COMBINERS | FLAG_BLEND_OVERRIDE) == 0);
    }
    let r = h.convert(to);
    assert!(r.is_ok(), "conversion between supported versions fails");
    let c = r.unwrap();
    kani::cover!(c.version == to.to_header_version());
    assert!(c.version == to.to_header_version());
    assert!(common_fields_kept(&h, &c), "conversion changed a header field that exists in every version");
    assert!(well_formed(&c), "converted header has an optional field the format does not define for the target version and flags (or lacks one)");
    if h.version <= 263 && c.version <= 263 {
        assert!(c.views == h.views && c.playable_animation_lookup == h.playable_animation_lookup && c.texture_flipbooks == h.texture_flipbooks,
            "conversion lost a pre-WotLK header array although the target version has it");
    }
    if h.version > 263 && c.version > 263 {
        assert!(c.num_skin_profiles == h.num_skin_profiles, "conversion changed the skin profile count");
    }
    if h.version >= 273 && c.version >= 273 {
        assert!(c.texture_transforms == h.texture_transforms, "conversion lost texture_transforms although the target version has it");
    }
    std::mem::forget((h, c));
}

macro_rules! convert_from {
    ($name:ident, $from:expr) => {
        #[kani::proof]
        #[kani::stub(std::fmt::format, vio::fmt_stub)]
        #[kani::stub(std::string::String::from_utf8_lossy, segio::lossy_stub)]
        #[kani::unwind(6)]
        fn $name() {
            let k: usize = kani::any();
            kani::assume(k < 11 && k != 5); // known finding version-wod-275
            convert_pair($from, all_versions(k), true)
        }
    };
}
convert_from!(c13a_header_convert_from_vanilla, M2Version::Vanilla);
convert_from!(c13a_header_convert_from_tbc, M2Version::TBC);
convert_from!(c13a_header_convert_from_wotlk, M2Version::WotLK);
convert_from!(c13a_header_convert_from_cataclysm, M2Version::Cataclysm);
convert_from!(c13a_header_convert_from_legion, M2Version::Legion);

/// witness: Cataclysm header with USE_TEXTURE_COMBINERS converted to WotLK keeps the flag but drops the array the flag announces
#[kani::proof]
#[kani::stub(std::fmt::format, vio::fmt_stub)]
#[kani::stub(std::string::String::from_utf8_lossy, segio::lossy_stub)]
#[kani::unwind(6)]
fn c13a_header_convert_flags_witness() {
    let mut h = M2Header::new(M2Version::Cataclysm);
    h.flags = M2ModelFlags::USE_TEXTURE_COMBINERS;
    h.texture_combiner_combos = Some(M2Array::new(3, 0x500));
    let c = h.convert(M2Version::WotLK).unwrap();
    assert!(well_formed(&c), "converted header has an optional field the format does not define for the target version and flags (or lacks one)");
    std::mem::forget((h, c));
}

/// witness: the version number the library writes for WoD is parsed as Legion (which has one more header array)
#[kani::proof]
#[kani::stub(std::fmt::format, vio::fmt_stub)]
#[kani::stub(std::string::String::from_utf8_lossy, segio::lossy_stub)]
#[kani::unwind(6)]
fn c13a_version_wod_275_witness() {
    let n = M2Version::WoD.to_header_version();
    assert!(M2Version::from_header_version(n) == Some(M2Version::WoD), "version number written for a version is read back as a different version");
}

/// every version number the library writes is read back as the same version (MoP shares 272 with Cataclysm: documented)
#[kani::proof]
#[kani::stub(std::fmt::format, vio::fmt_stub)]
#[kani::stub(std::string::String::from_utf8_lossy, segio::lossy_stub)]
#[kani::unwind(6)]
fn c13a_version_number_roundtrip() {
    let k: usize = kani::any();
    kani::assume(k < 11 && k != 4 && k != 5); // 4 = MoP (documented alias), 5 = WoD (known finding version-wod-275)
    let v = all_versions(k);
    kani::cover!(k == 10);
    assert!(M2Version::from_header_version(v.to_header_version()) == Some(v), "version number written for a version is read back as a different version");
    assert!(M2Version::detect_expansion(v.to_header_version()) == v, "detect_expansion disagrees with the version number the library writes");
}

#[kani::proof]
#[kani::stub(std::fmt::format, vio::fmt_stub)]
#[kani::stub(std::string::String::from_utf8_lossy, segio::lossy_stub)]
#[kani::unwind(6)]
fn c13a_header_canary() {
    let h = some_header(M2Version::WotLK);
    let c = h.convert(M2Version::Cataclysm).unwrap();
    assert!(c.bones.count != 77, "canary: must be reported as failing");
    std::mem::forget((h, c));
}
