// C13.e - M2Model::write against the header parser and the record parsers, small concrete shapes:
// attached as a child module of wow-m2/src/model.rs (uses the private calculate_header_size)
//
//   * empty model: bytes written == calculate_header_size() == what M2Header::parse consumes, per version class;
//   * model with a name, global sequences, lookups, one sequence, one vertex, one material: every (count, offset) pair in the
//     written header points at the place where the section really is, and the section parsers read the content back.
#![allow(unused_imports, dead_code)]
#[path = "../env/io.rs"]
mod vio;
#[path = "segio.rs"]
mod segio;
use segio::Seg;
use vio::{CountSink, Sink, Src};

use super::*;
use crate::chunks::material::{M2BlendMode, M2RenderFlags};
use crate::chunks::texture::{M2TextureFlags, M2TextureType};
use crate::common::{C2Vector, C3Vector, FixedString, M2ArrayString};

const FLAG_COMBINERS: u32 = 0x8;
const FLAG_BLEND_OVERRIDE: u32 = 0x0800_0000;

fn model_of(version: M2Version, flags: u32) -> M2Model { model_of_x(version, flags, true) }
fn model_of_x(version: M2Version, flags: u32, symbolic_floats: bool) -> M2Model {
    let mut m = M2Model::default();
    m.header = M2Header::new(version);
    m.header.flags = M2ModelFlags::from_bits_retain(flags);
    if symbolic_floats {
        m.header.bounding_box_min = [kani::any(), kani::any(), kani::any()];
        m.header.bounding_sphere_radius = kani::any();
        m.header.collision_sphere_radius = kani::any();
    }
    m
}

fn empty_model(version: M2Version, flags: u32) { empty_model_x(version, flags, true) }
fn empty_model_x(version: M2Version, flags: u32, symbolic_floats: bool) {
    let m = model_of_x(version, flags, symbolic_floats);
    let mut out = Seg::new();
    let w = m.write(&mut out);
    assert!(w.is_ok());
    let hs = m.calculate_header_size();
    // (no cover in the concrete witness variant: Kani prints one playback test per distinct input vector, and the cover's would
    // take the place of the failed check's)
    if symbolic_floats { kani::cover!(out.pos == hs, "empty model written"); }
    assert!(out.pos == hs, "calculate_header_size() != bytes of the header M2Model::write produces");
    let mut src = out.into_source();
    let r = M2Header::parse(&mut src);
    if r.is_err() {
        assert!(false, "header of a model written by the library is rejected by the header parser");
        std::mem::forget((r, w, m));
        return;
    }
    let h = r.unwrap();
    assert!(src.pos == hs, "header parser consumes a different number of bytes than calculate_header_size() (data section would start elsewhere)");
    assert!(h.version == m.header.version && h.flags == m.header.flags, "version or flags changed in write->parse");
    assert!(h.bounding_box_min[0].to_bits() == m.header.bounding_box_min[0].to_bits()
        && h.bounding_box_min[2].to_bits() == m.header.bounding_box_min[2].to_bits()
        && h.bounding_sphere_radius.to_bits() == m.header.bounding_sphere_radius.to_bits()
        && h.collision_sphere_radius.to_bits() == m.header.collision_sphere_radius.to_bits(), "bounding volume changed in write->parse");
    assert!(h.name.count == 0 && h.bones.count == 0 && h.vertices.count == 0 && h.textures.count == 0 && h.particle_emitters.count == 0
        && h.views.count == 0 && h.cameras.count == 0, "empty model is written with a non-empty section");
    std::mem::forget((h, w, m));
}

macro_rules! empty_model_h {
    ($name:ident, $v:expr) => {
        #[kani::proof]
        #[kani::stub(std::fmt::format, vio::fmt_stub)]
        #[kani::stub(std::string::String::from_utf8_lossy, segio::lossy_stub)]
        #[kani::unwind(6)]
        fn $name() {
            // every flag bit except the two that switch optional header arrays on (known finding model-layout-flags);
            // the word is concrete because the header parser branches on it
            empty_model($v, !(FLAG_COMBINERS | FLAG_BLEND_OVERRIDE))
        }
    };
}
empty_model_h!(c13e_model_empty_vanilla, M2Version::Vanilla);
empty_model_h!(c13e_model_empty_tbc, M2Version::TBC);
empty_model_h!(c13e_model_empty_wotlk, M2Version::WotLK);
empty_model_h!(c13e_model_empty_cataclysm, M2Version::Cataclysm);

/// witness (known finding model-layout-flags): M2Model::write drops texture_combiner_combos / blend_map_overrides from the header
/// but keeps the flag bits that tell the parser the arrays are there
#[kani::proof]
#[kani::stub(std::fmt::format, vio::fmt_stub)]
#[kani::stub(std::string::String::from_utf8_lossy, segio::lossy_stub)]
#[kani::unwind(6)]
fn c13e_model_layout_flags_witness() { empty_model_x(M2Version::WotLK, FLAG_COMBINERS, false) }

/// witness (known finding model-legion-transforms): for Legion+ version numbers M2Model::write drops texture_transforms, which
/// the header parser expects for those versions
#[kani::proof]
#[kani::stub(std::fmt::format, vio::fmt_stub)]
#[kani::stub(std::string::String::from_utf8_lossy, segio::lossy_stub)]
#[kani::unwind(6)]
fn c13e_model_legion_witness() { empty_model_x(M2Version::Legion, 0, false) }

// ------------------------------------------------------------------ small model: offsets in the header vs. where the data is
fn rd16(b: &Seg, o: usize) -> u16 { b.get16(o) }
fn rd32(b: &Seg, o: usize) -> u32 { b.get32(o) }

fn small_model(version: M2Version) {
    let mut m = model_of(version, 0);
    let n0: u8 = kani::any();
    let n1: u8 = kani::any();
    kani::assume(n0 != 0 && n0 < 0x80 && n1 != 0 && n1 < 0x80);
    let mut nb = Vec::new(); nb.push(n0); nb.push(n1);
    m.name = Some(unsafe { String::from_utf8_unchecked(nb) });
    let g0: u32 = kani::any();
    let g1: u32 = kani::any();
    m.global_sequences.push(g0); m.global_sequences.push(g1);
    let al: u16 = kani::any();
    m.animation_lookup.push(al);
    let kb: u16 = kani::any();
    m.key_bone_lookup.push(kb);
    let mat = M2Material { flags: M2RenderFlags::from_bits_retain(kani::any()), blend_mode: M2BlendMode::from_bits_retain(kani::any()) };
    let (mf, mb) = (mat.flags.bits(), mat.blend_mode.bits());
    m.materials.push(mat);
    let tl: u16 = kani::any();
    m.raw_data.texture_lookup_table.push(tl);
    let v = M2Vertex { position: C3Vector { x: kani::any(), y: kani::any(), z: kani::any() }, bone_weights: [kani::any(); 4], bone_indices: [0; 4],
        normal: C3Vector { x: kani::any(), y: kani::any(), z: kani::any() }, tex_coords: C2Vector { x: kani::any(), y: kani::any() },
        tex_coords2: Some(C2Vector { x: kani::any(), y: kani::any() }) };
    let (vx, vw, vt) = (v.position.x.to_bits(), v.bone_weights[0], v.tex_coords2.unwrap().y.to_bits());
    m.vertices.push(v);

    let mut out = Seg::new();
    let w = m.write(&mut out);
    assert!(w.is_ok());
    let hs = m.calculate_header_size();
    // name(3) + 2 global sequences(8) + animation lookup(2) + key bone lookup(2) + vertex(48) + material(4) + texture lookup(2)
    kani::cover!(out.pos == hs + 69, "small model written");
    assert!(out.pos == hs + 69, "file length != header + sum of the section sizes");
    let mut src = out.into_source();
    let r = M2Header::parse(&mut src);
    if r.is_err() {
        assert!(false, "header of a model written by the library is rejected by the header parser");
        std::mem::forget((r, w, m));
        return;
    }
    let h = r.unwrap();
    assert!(src.pos == hs, "header parser consumes a different number of bytes than calculate_header_size()");
    let b = &src;
    let hs32 = hs as u32;
    assert!(h.name.count == 3 && h.name.offset == hs32, "name: header (count, offset) does not point at the name");
    assert!(b.get(hs) == n0 && b.get(hs + 1) == n1 && b.get(hs + 2) == 0, "name bytes changed or terminator missing");
    assert!(h.global_sequences.count == 2 && h.global_sequences.offset == hs32 + 3, "global sequences: header (count, offset) wrong");
    assert!(rd32(b, hs + 3) == g0 && rd32(b, hs + 7) == g1, "global sequences changed");
    assert!(h.animations.count == 0);
    assert!(h.animation_lookup.count == 1 && h.animation_lookup.offset == hs32 + 11 && rd16(b, hs + 11) == al, "animation lookup: offset or content wrong");
    assert!(h.bones.count == 0);
    assert!(h.key_bone_lookup.count == 1 && h.key_bone_lookup.offset == hs32 + 13 && rd16(b, hs + 13) == kb, "key bone lookup: offset or content wrong");
    assert!(h.vertices.count == 1 && h.vertices.offset == hs32 + 15, "vertices: header (count, offset) wrong");
    assert!(rd32(b, hs + 15) == vx && b.get(hs + 15 + 12) == vw && rd32(b, hs + 15 + 44) == vt, "vertex content changed");
    assert!(h.textures.count == 0);
    assert!(h.render_flags.count == 1 && h.render_flags.offset == hs32 + 63 && rd16(b, hs + 63) == mf && rd16(b, hs + 65) == mb,
        "materials: offset or content wrong");
    assert!(h.texture_lookup_table.count == 1 && h.texture_lookup_table.offset == hs32 + 67 && rd16(b, hs + 67) == tl, "texture lookup: offset or content wrong");
    std::mem::forget((h, w, m));
}
#[kani::proof]
#[kani::stub(std::fmt::format, vio::fmt_stub)]
#[kani::stub(std::string::String::from_utf8_lossy, segio::lossy_stub)]
#[kani::unwind(16)]
fn c13e_model_small_wotlk() { small_model(M2Version::WotLK) }
#[kani::proof]
#[kani::stub(std::fmt::format, vio::fmt_stub)]
#[kani::stub(std::string::String::from_utf8_lossy, segio::lossy_stub)]
#[kani::unwind(16)]
fn c13e_model_small_vanilla() { small_model(M2Version::Vanilla) }
#[kani::proof]
#[kani::stub(std::fmt::format, vio::fmt_stub)]
#[kani::stub(std::string::String::from_utf8_lossy, segio::lossy_stub)]
#[kani::unwind(16)]
fn c13e_model_small_tbc() { small_model(M2Version::TBC) }
#[kani::proof]
#[kani::stub(std::fmt::format, vio::fmt_stub)]
#[kani::stub(std::string::String::from_utf8_lossy, segio::lossy_stub)]
#[kani::unwind(16)]
fn c13e_model_small_cataclysm() { small_model(M2Version::Cataclysm) }

// ------------------------------------------------------------------ model with one element in (almost) every section
/// sequence, static bone, texture without file name, 6 lookup tables, bounding data, event, attachment, camera, light:
/// every (count, offset) of the written header points at its section, sections follow each other without gap in the
/// order the writer emits them, first fields of every record are where the header says
fn sections_model(version: M2Version, s_seq: usize, s_bone: usize, s_cam: usize, with_tracks: bool) {
    let mut m = model_of(version, 0);
    let v = m.header.version;
    let seq = M2Animation { animation_id: kani::any(), sub_animation_id: kani::any(), start_timestamp: 1000, end_timestamp: Some(kani::any()),
        movement_speed: kani::any(), flags: kani::any(), frequency: kani::any(), padding: 0, replay: None, minimum_extent: None, maximum_extent: None,
        extent_radius: Some(kani::any()), next_animation: Some(kani::any()), aliasing: Some(kani::any()) };
    let seq_id = seq.animation_id;
    m.animations.push(seq);
    let bone = M2Bone::new(kani::any(), kani::any());
    let bone_id = bone.bone_id;
    m.bones.push(bone);
    // records that own a Vec (texture file name, key-frame values of embedded tracks) only in the `with_tracks` variant
    if with_tracks {
        m.textures.push(M2Texture { texture_type: M2TextureType::Hair, flags: M2TextureFlags::from_bits_retain(kani::any()),
            filename: M2ArrayString { string: FixedString { data: Vec::new() }, array: M2Array::new(0, 0) } });
    }
    let (l0, l1, l2, l3, l4, l5): (u16, u16, u16, u16, u16, u16) = (kani::any(), kani::any(), kani::any(), kani::any(), kani::any(), kani::any());
    m.raw_data.bone_lookup_table.push(l0);
    m.raw_data.texture_units.push(l1);
    m.raw_data.transparency_lookup_table.push(l2);
    m.raw_data.texture_animation_lookup.push(l3);
    m.raw_data.attachment_lookup_table.push(l4);
    m.raw_data.camera_lookup_table.push(l5);
    let bt: [u8; 6] = kani::any();
    let bv: [u8; 12] = kani::any();
    let bn: [u8; 12] = kani::any();
    m.raw_data.bounding_triangles = bt.to_vec();
    m.raw_data.bounding_vertices = bv.to_vec();
    m.raw_data.bounding_normals = bn.to_vec();
    let mut ev = M2Event::new([b'$', b'C', b'A', b'H'], kani::any());
    ev.data = kani::any();
    let ev_data = ev.data;
    m.events.push(ev);
    let mut at = M2Attachment::new(kani::any(), kani::any());
    at.position.x = kani::any();
    let (at_id, at_x) = (at.id, at.position.x.to_bits());
    if with_tracks { m.attachments.push(at); } else { std::mem::forget(at); }
    let mut cam = M2Camera::new(kani::any());
    cam.camera_type = kani::any();
    let (cam_ty, cam_id) = (cam.camera_type, cam.id);
    if with_tracks { m.cameras.push(cam); } else { std::mem::forget(cam); }
    let li = M2Light::new(crate::chunks::light::M2LightType::Point, kani::any(), kani::any());
    let li_id = li.id;
    if with_tracks { m.lights.push(li); } else { std::mem::forget(li); }

    let mut out = Seg::new();
    let w = m.write(&mut out);
    assert!(w.is_ok());
    let hs = m.calculate_header_size();
    let data = s_seq + s_bone + 2 + 2 + 2 + 2 + 6 + 12 + 12 + 2 + 2 + 44 + if with_tracks { 16 + 48 + s_cam + 164 } else { 0 };
    kani::cover!(out.pos == hs + data, "model written");
    assert!(out.pos == hs + data, "file length != header + sum of the section sizes");
    let mut src = out.into_source();
    let r = M2Header::parse(&mut src);
    if r.is_err() {
        assert!(false, "header of a model written by the library is rejected by the header parser");
        std::mem::forget((r, w, m));
        return;
    }
    let h = r.unwrap();
    assert!(src.pos == hs, "header parser consumes a different number of bytes than calculate_header_size()");
    let b = &src;
    let mut o = hs;
    assert!(h.animations.count == 1 && h.animations.offset as usize == o && rd16(b, o) == seq_id, "sequences: header (count, offset) or content wrong");
    o += s_seq;
    assert!(h.bones.count == 1 && h.bones.offset as usize == o && rd32(b, o) == bone_id as u32, "bones: header (count, offset) or content wrong");
    o += s_bone;
    if with_tracks {
        assert!(h.textures.count == 1 && h.textures.offset as usize == o && rd32(b, o) == 7 && rd32(b, o + 8) == 0, "textures: header (count, offset) or content wrong");
        o += 16;
    } else { assert!(h.textures.count == 0); }
    assert!(h.render_flags.count == 0);
    assert!(h.bone_lookup_table.count == 1 && h.bone_lookup_table.offset as usize == o && rd16(b, o) == l0, "bone lookup: offset or content wrong");
    o += 2;
    assert!(h.texture_lookup_table.count == 0);
    assert!(h.texture_units.count == 1 && h.texture_units.offset as usize == o && rd16(b, o) == l1, "texture units: offset or content wrong");
    o += 2;
    assert!(h.transparency_lookup_table.count == 1 && h.transparency_lookup_table.offset as usize == o && rd16(b, o) == l2, "transparency lookup: offset or content wrong");
    o += 2;
    assert!(h.texture_animation_lookup.count == 1 && h.texture_animation_lookup.offset as usize == o && rd16(b, o) == l3, "texture animation lookup: offset or content wrong");
    o += 2;
    assert!(h.bounding_triangles.count == 3 && h.bounding_triangles.offset as usize == o && b.get(o) == bt[0] && b.get(o + 5) == bt[5], "bounding triangles: count, offset or content wrong");
    o += 6;
    assert!(h.bounding_vertices.count == 1 && h.bounding_vertices.offset as usize == o && b.get(o) == bv[0] && b.get(o + 11) == bv[11], "bounding vertices: count, offset or content wrong");
    o += 12;
    assert!(h.bounding_normals.count == 1 && h.bounding_normals.offset as usize == o && b.get(o) == bn[0] && b.get(o + 11) == bn[11], "bounding normals: count, offset or content wrong");
    o += 12;
    assert!(h.attachment_lookup_table.count == 1 && h.attachment_lookup_table.offset as usize == o && rd16(b, o) == l4, "attachment lookup: offset or content wrong");
    o += 2;
    assert!(h.camera_lookup_table.count == 1 && h.camera_lookup_table.offset as usize == o && rd16(b, o) == l5, "camera lookup: offset or content wrong");
    o += 2;
    assert!(h.views.count == 0 && h.particle_emitters.count == 0 && h.ribbon_emitters.count == 0 && h.texture_animations.count == 0
        && h.color_animations.count == 0 && h.transparency_lookup.count == 0);
    assert!(h.events.count == 1 && h.events.offset as usize == o && b.get(o) == b'$' && b.get(o + 3) == b'H' && rd32(b, o + 4) == ev_data, "events: header (count, offset) or content wrong");
    o += 44;
    if !with_tracks {
        assert!(h.attachments.count == 0 && h.cameras.count == 0 && h.lights.count == 0);
        std::mem::forget((h, w, m));
        return;
    }
    assert!(h.attachments.count == 1 && h.attachments.offset as usize == o && rd32(b, o) == at_id && rd32(b, o + 8) == at_x, "attachments: header (count, offset) or content wrong");
    o += 48;
    assert!(h.cameras.count == 1 && h.cameras.offset as usize == o && rd32(b, o) == cam_ty, "cameras: header (count, offset) or content wrong");
    assert!(v < 264 || rd32(b, o + 124) == cam_id, "camera id not where the WotLK+ layout puts it");
    o += s_cam;
    assert!(h.lights.count == 1 && h.lights.offset as usize == o && b.get(o) == 1 && rd32(b, o + 156) == li_id, "lights: header (count, offset) or content wrong");
    std::mem::forget((h, w, m));
}
#[kani::proof]
#[kani::stub(std::fmt::format, vio::fmt_stub)]
#[kani::stub(std::string::String::from_utf8_lossy, segio::lossy_stub)]
#[kani::unwind(16)]
fn c13e_model_sections_wotlk() { sections_model(M2Version::WotLK, 52, 88, 132, false) }
// `with_tracks = true` (texture, attachment, camera, light added) is not registered: M2Model::write clones those records, the
// clone copies a Vec whose length is not a constant for symbolic execution (it lives in a heap object > 64 bytes), and CBMC
// runs out of memory (14 GB) for both WotLK and TBC.  Listed under OUTSIDE.
#[kani::proof]
#[kani::stub(std::fmt::format, vio::fmt_stub)]
#[kani::stub(std::string::String::from_utf8_lossy, segio::lossy_stub)]
#[kani::unwind(16)]
fn c13e_model_sections_tbc() { sections_model(M2Version::TBC, 52, 112, 124, false) }
#[kani::proof]
#[kani::stub(std::fmt::format, vio::fmt_stub)]
#[kani::stub(std::string::String::from_utf8_lossy, segio::lossy_stub)]
#[kani::unwind(16)]
fn c13e_model_sections_vanilla() { sections_model(M2Version::Vanilla, 32, 108, 124, false) }

/// witness (known finding model-texture-filename): a model with one texture that has a file name.  The writer patches the name's
/// (count, offset) into the data section at an index computed with size_of::<M2Header>() (the in-memory struct) instead of the
/// file header size
#[kani::proof]
#[kani::stub(std::fmt::format, vio::fmt_stub)]
#[kani::stub(std::string::String::from_utf8_lossy, segio::lossy_stub)]
#[kani::unwind(24)]
fn c13e_model_texture_filename_witness() {
    let mut m = M2Model::default();
    let mut name = Vec::new();
    name.push(b't'); name.push(b'.'); name.push(b'b');
    m.textures.push(M2Texture { texture_type: M2TextureType::Body, flags: M2TextureFlags::WRAP_X,
        filename: M2ArrayString { string: FixedString { data: name }, array: M2Array::new(4, 0x100) } });
    let mut out = Seg::new();
    let w = m.write(&mut out);
    let hs = m.calculate_header_size();
    let ok = w.is_ok() && out.pos == hs + 16 + 4
        && rd32(&out, hs + 8) == 4 && rd32(&out, hs + 12) == (hs + 16) as u32
        && out.get(hs + 16) == b't' && out.get(hs + 19) == 0;
    assert!(ok, "texture definition written by M2Model::write does not point at the texture's file name");
    std::mem::forget((w, m));
}

#[kani::proof]
#[kani::stub(std::fmt::format, vio::fmt_stub)]
#[kani::stub(std::string::String::from_utf8_lossy, segio::lossy_stub)]
#[kani::unwind(6)]
fn c13e_model_canary() {
    let m = model_of(M2Version::WotLK, kani::any());
    assert!(m.calculate_header_size() != 304, "canary: must be reported as failing");
    std::mem::forget(m);
}
