// C13.e - M2Model::write against the header parser and the record parsers, small concrete shapes:
// attached as a child module of wow-m2/src/model.rs (uses the private calculate_header_size)
//
//   * empty model: bytes written == calculate_header_size() == what M2Header::parse consumes, per version class;
//   * model with a name, global sequences, lookups, one sequence, one vertex, one material: every (count, offset) pair in the
//     written header points at the place where the section really is, and the section parsers read the content back.
#![allow(unused_imports, dead_code)]
#[path = "../env/io.rs"]
mod vio;
#[path = "segio.rs"]
mod segio;
use segio::Seg;
use vio::{CountSink, Sink, Src};

use super::*;
use crate::chunks::material::{M2BlendMode, M2RenderFlags};
use crate::chunks::texture::{M2TextureFlags, M2TextureType};
use crate::common::{C2Vector, C3Vector, FixedString, M2ArrayString};

const FLAG_COMBINERS: u32 = 0x8;
const FLAG_BLEND_OVERRIDE: u32 = 0x0800_0000;

fn model_of(version: M2Version, flags: u32) -> M2Model {
    let mut m = M2Model::default();
    m.header = M2Header::new(version);
    m.header.flags = M2ModelFlags::from_bits_retain(flags);
    m.header.bounding_box_min = [kani::any(), kani::any(), kani::any()];
    m.header.bounding_sphere_radius = kani::any();
    m.header.collision_sphere_radius = kani::any();
    m
}

fn empty_model(version: M2Version, flags: u32) {
    let m = model_of(version, flags);
    let mut out = Seg::new();
    let w = m.write(&mut out);
    assert!(w.is_ok());
    let hs = m.calculate_header_size();
    kani::cover!(out.pos == hs, "empty model written");
    assert!(out.pos == hs, "calculate_header_size() != bytes of the header M2Model::write produces");
    let mut src = out.into_source();
    let r = M2Header::parse(&mut src);
    if r.is_err() {
        assert!(false, "header of a model written by the library is rejected by the header parser");
        std::mem::forget((r, w, m));
        return;
    }
    let h = r.unwrap();
    assert!(src.pos == hs, "header parser consumes a different number of bytes than calculate_header_size() (data section would start elsewhere)");
    assert!(h.version == m.header.version && h.flags == m.header.flags, "version or flags changed in write->parse");
    assert!(h.bounding_box_min[0].to_bits() == m.header.bounding_box_min[0].to_bits()
        && h.bounding_box_min[2].to_bits() == m.header.bounding_box_min[2].to_bits()
        && h.bounding_sphere_radius.to_bits() == m.header.bounding_sphere_radius.to_bits()
        && h.collision_sphere_radius.to_bits() == m.header.collision_sphere_radius.to_bits(), "bounding volume changed in write->parse");
    assert!(h.name.count == 0 && h.bones.count == 0 && h.vertices.count == 0 && h.textures.count == 0 && h.particle_emitters.count == 0
        && h.views.count == 0 && h.cameras.count == 0, "empty model is written with a non-empty section");
    std::mem::forget((h, w, m));
}

macro_rules! empty_model_h {
    ($name:ident, $v:expr) => {
        #[kani::proof]
        #[kani::stub(std::fmt::format, vio::fmt_stub)]
        #[kani::stub(std::string::String::from_utf8_lossy, segio::lossy_stub)]
        #[kani::unwind(6)]
        fn $name() {
            // every flag bit except the two that switch optional header arrays on (known finding model-layout-flags);
            // the word is concrete because the header parser branches on it
            empty_model($v, !(FLAG_COMBINERS | FLAG_BLEND_OVERRIDE))
        }
    };
}
empty_model_h!(c13e_model_empty_vanilla, M2Version::Vanilla);
empty_model_h!(c13e_model_empty_tbc, M2Version::TBC);
empty_model_h!(c13e_model_empty_wotlk, M2Version::WotLK);
empty_model_h!(c13e_model_empty_cataclysm, M2Version::Cataclysm);

/// witness (known finding model-layout-flags): M2Model::write drops texture_combiner_combos / blend_map_overrides from the header
/// but keeps the flag bits that tell the parser the arrays are there
#[kani::proof]
#[kani::stub(std::fmt::format, vio::fmt_stub)]
#[kani::stub(std::string::String::from_utf8_lossy, segio::lossy_stub)]
#[kani::unwind(6)]
fn c13e_model_layout_flags_witness() { empty_model(M2Version::WotLK, FLAG_COMBINERS) }

/// witness (known finding model-legion-transforms): for Legion+ version numbers M2Model::write drops texture_transforms, which
/// the header parser expects for those versions
#[kani::proof]
#[kani::stub(std::fmt::format, vio::fmt_stub)]
#[kani::stub(std::string::String::from_utf8_lossy, segio::lossy_stub)]
#[kani::unwind(6)]
fn c13e_model_legion_witness() { empty_model(M2Version::Legion, 0) }

// ------------------------------------------------------------------ small model: offsets in the header vs. where the data is
fn rd16(b: &Seg, o: usize) -> u16 { b.get16(o) }
fn rd32(b: &Seg, o: usize) -> u32 { b.get32(o) }

fn small_model(version: M2Version) {
    let mut m = model_of(version, 0);
    let n0: u8 = kani::any();
    let n1: u8 = kani::any();
    kani::assume(n0 != 0 && n0 < 0x80 && n1 != 0 && n1 < 0x80);
    let mut nb = Vec::new(); nb.push(n0); nb.push(n1);
    m.name = Some(unsafe { String::from_utf8_unchecked(nb) });
    let g0: u32 = kani::any();
    let g1: u32 = kani::any();
    m.global_sequences.push(g0); m.global_sequences.push(g1);
    let al: u16 = kani::any();
    m.animation_lookup.push(al);
    let kb: u16 = kani::any();
    m.key_bone_lookup.push(kb);
    let mat = M2Material { flags: M2RenderFlags::from_bits_retain(kani::any()), blend_mode: M2BlendMode::from_bits_retain(kani::any()) };
    let (mf, mb) = (mat.flags.bits(), mat.blend_mode.bits());
    m.materials.push(mat);
    let tl: u16 = kani::any();
    m.raw_data.texture_lookup_table.push(tl);
    let v = M2Vertex { position: C3Vector { x: kani::any(), y: kani::any(), z: kani::any() }, bone_weights: [kani::any(); 4], bone_indices: [0; 4],
        normal: C3Vector { x: kani::any(), y: kani::any(), z: kani::any() }, tex_coords: C2Vector { x: kani::any(), y: kani::any() },
        tex_coords2: Some(C2Vector { x: kani::any(), y: kani::any() }) };
    let (vx, vw, vt) = (v.position.x.to_bits(), v.bone_weights[0], v.tex_coords2.unwrap().y.to_bits());
    m.vertices.push(v);

    let mut out = Seg::new();
    let w = m.write(&mut out);
    assert!(w.is_ok());
    let hs = m.calculate_header_size();
    // name(3) + 2 global sequences(8) + animation lookup(2) + key bone lookup(2) + vertex(48) + material(4) + texture lookup(2)
    kani::cover!(out.pos == hs + 69, "small model written");
    assert!(out.pos == hs + 69, "file length != header + sum of the section sizes");
    let mut src = out.into_source();
    let r = M2Header::parse(&mut src);
    if r.is_err() {
        assert!(false, "header of a model written by the library is rejected by the header parser");
        std::mem::forget((r, w, m));
        return;
    }
    let h = r.unwrap();
    assert!(src.pos == hs, "header parser consumes a different number of bytes than calculate_header_size()");
    let b = &src;
    let hs32 = hs as u32;
    assert!(h.name.count == 3 && h.name.offset == hs32, "name: header (count, offset) does not point at the name");
    assert!(b.get(hs) == n0 && b.get(hs + 1) == n1 && b.get(hs + 2) == 0, "name bytes changed or terminator missing");
    assert!(h.global_sequences.count == 2 && h.global_sequences.offset == hs32 + 3, "global sequences: header (count, offset) wrong");
    assert!(rd32(b, hs + 3) == g0 && rd32(b, hs + 7) == g1, "global sequences changed");
    assert!(h.animations.count == 0);
    assert!(h.animation_lookup.count == 1 && h.animation_lookup.offset == hs32 + 11 && rd16(b, hs + 11) == al, "animation lookup: offset or content wrong");
    assert!(h.bones.count == 0);
    assert!(h.key_bone_lookup.count == 1 && h.key_bone_lookup.offset == hs32 + 13 && rd16(b, hs + 13) == kb, "key bone lookup: offset or content wrong");
    assert!(h.vertices.count == 1 && h.vertices.offset == hs32 + 15, "vertices: header (count, offset) wrong");
    assert!(rd32(b, hs + 15) == vx && b.get(hs + 15 + 12) == vw && rd32(b, hs + 15 + 44) == vt, "vertex content changed");
    assert!(h.textures.count == 0);
    assert!(h.render_flags.count == 1 && h.render_flags.offset == hs32 + 63 && rd16(b, hs + 63) == mf && rd16(b, hs + 65) == mb,
        "materials: offset or content wrong");
    assert!(h.texture_lookup_table.count == 1 && h.texture_lookup_table.offset == hs32 + 67 && rd16(b, hs + 67) == tl, "texture lookup: offset or content wrong");
    std::mem::forget((h, w, m));
}
#[kani::proof]
#[kani::stub(std::fmt::format, vio::fmt_stub)]
#[kani::stub(std::string::String::from_utf8_lossy, segio::lossy_stub)]
#[kani::unwind(72)]
fn c13e_model_small_wotlk() { small_model(M2Version::WotLK) }
#[kani::proof]
#[kani::stub(std::fmt::format, vio::fmt_stub)]
#[kani::stub(std::string::String::from_utf8_lossy, segio::lossy_stub)]
#[kani::unwind(72)]
fn c13e_model_small_vanilla() { small_model(M2Version::Vanilla) }
#[kani::proof]
#[kani::stub(std::fmt::format, vio::fmt_stub)]
#[kani::stub(std::string::String::from_utf8_lossy, segio::lossy_stub)]
#[kani::unwind(72)]
fn c13e_model_small_tbc() { small_model(M2Version::TBC) }
#[kani::proof]
#[kani::stub(std::fmt::format, vio::fmt_stub)]
#[kani::stub(std::string::String::from_utf8_lossy, segio::lossy_stub)]
#[kani::unwind(72)]
fn c13e_model_small_cataclysm() { small_model(M2Version::Cataclysm) }

/// witness (known finding model-texture-filename): a model with one texture that has a file name.  The writer patches the name's
/// (count, offset) into the data section at an index computed with size_of::<M2Header>() (the in-memory struct) instead of the
/// file header size
#[kani::proof]
#[kani::stub(std::fmt::format, vio::fmt_stub)]
#[kani::stub(std::string::String::from_utf8_lossy, segio::lossy_stub)]
#[kani::unwind(24)]
fn c13e_model_texture_filename_witness() {
    let mut m = M2Model::default();
    let mut name = Vec::new();
    name.push(b't'); name.push(b'.'); name.push(b'b');
    m.textures.push(M2Texture { texture_type: M2TextureType::Body, flags: M2TextureFlags::WRAP_X,
        filename: M2ArrayString { string: FixedString { data: name }, array: M2Array::new(4, 0x100) } });
    let mut out = Seg::new();
    let w = m.write(&mut out);
    let hs = m.calculate_header_size();
    let ok = w.is_ok() && out.pos == hs + 16 + 4
        && rd32(&out, hs + 8) == 4 && rd32(&out, hs + 12) == (hs + 16) as u32
        && out.get(hs + 16) == b't' && out.get(hs + 19) == 0;
    assert!(ok, "texture definition written by M2Model::write does not point at the texture's file name");
    std::mem::forget((w, m));
}

#[kani::proof]
#[kani::stub(std::fmt::format, vio::fmt_stub)]
#[kani::stub(std::string::String::from_utf8_lossy, segio::lossy_stub)]
#[kani::unwind(6)]
fn c13e_model_canary() {
    let m = model_of(M2Version::WotLK, kani::any());
    assert!(m.calculate_header_size() != 304, "canary: must be reported as failing");
    std::mem::forget(m);
}
