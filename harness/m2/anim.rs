// C13.d - .anim files: attached as a child module of wow-m2/src/anim.rs
#![allow(unused_imports, dead_code)]
#[path = "../env/io.rs"]
mod vio;
#[path = "consts_gen.rs"]
mod kc;
#[path = "segio.rs"]
mod segio;
use segio::Seg;
use vio::{CountSink, Sink, Src};

use super::*;

// ------------------------------------------------------------------ fixed-size records: write(parse(b)) == b, sizes == the
// constants AnimFile::write_modern / AnimSection::parse compute offsets with
#[kani::proof]
#[kani::stub(std::fmt::format, vio::fmt_stub)]
#[kani::stub(std::string::String::from_utf8_lossy, segio::lossy_stub)]
#[kani::unwind(8)]
fn c13d_anim_header_record() {
    let mut b: [u8; 24] = kani::any();
    b[0] = b'M'; b[1] = b'A'; b[2] = b'O'; b[3] = b'F';
    let mut src = Src::<24>::new(b, 24);
    let h = AnimHeader::parse(&mut src).unwrap();
    assert!(src.pos == kc::ANIM_HEADER_SIZE as usize, "anim header parser consumes a different size than the header_size the writer uses");
    let mut out = Sink::<24>::new();
    assert!(h.write(&mut out).is_ok());
    kani::cover!(out.pos == 20);
    assert!(out.pos == kc::ANIM_HEADER_SIZE as usize, "anim header writer produces a different size than the header_size it computes offsets with");
    let i: usize = kani::any();
    kani::assume(i < 20);
    assert!(out.buf[i] == b[i], "anim header write(parse(b)) != b");
}
#[kani::proof]
#[kani::stub(std::fmt::format, vio::fmt_stub)]
#[kani::stub(std::string::String::from_utf8_lossy, segio::lossy_stub)]
#[kani::unwind(8)]
fn c13d_anim_entry_record() {
    let b: [u8; 16] = kani::any();
    let mut src = Src::<16>::new(b, 16);
    let h = AnimEntry::parse(&mut src).unwrap();
    assert!(src.pos == kc::ANIM_ENTRY_SIZE as usize, "anim entry parser consumes a different size than the entry_size the writer uses");
    let mut out = Sink::<16>::new();
    assert!(h.write(&mut out).is_ok());
    kani::cover!(out.pos == 12);
    assert!(out.pos == kc::ANIM_ENTRY_SIZE as usize, "anim entry writer produces a different size than the entry_size it computes offsets with");
    let i: usize = kani::any();
    kani::assume(i < 12);
    assert!(out.buf[i] == b[i], "anim entry write(parse(b)) != b");
}
#[kani::proof]
#[kani::stub(std::fmt::format, vio::fmt_stub)]
#[kani::stub(std::string::String::from_utf8_lossy, segio::lossy_stub)]
#[kani::unwind(8)]
fn c13d_anim_section_header_record() {
    let mut b: [u8; 20] = kani::any();
    b[0] = b'A'; b[1] = b'F'; b[2] = b'I'; b[3] = b'D';
    let mut src = Src::<20>::new(b, 20);
    let h = AnimSectionHeader::parse(&mut src).unwrap();
    assert!(src.pos == kc::AFID_HEADER_SIZE as usize, "section header parser consumes a different size than the header_size AnimSection::parse subtracts");
    let mut out = Sink::<20>::new();
    assert!(h.write(&mut out).is_ok());
    kani::cover!(out.pos == 16);
    assert!(out.pos == kc::AFID_HEADER_SIZE as usize, "section header writer produces a different size than the header_size AnimSection::parse subtracts");
    let i: usize = kani::any();
    kani::assume(i < 16);
    assert!(out.buf[i] == b[i], "section header write(parse(b)) != b");
}

// ------------------------------------------------------------------ one section, one bone, one key per track
// Bytes direction (structure words assigned, contents symbolic): built from an AnimSection value, the key counts would come
// out of Vecs that live in a heap object > 64 bytes, are not constants for symbolic execution, and the parser's
// Vec::with_capacity(count) then exhausts 14 GB (measured).
fn section_image() -> Seg {
    let mut b = Seg::any(92);
    b.set(0, b'A'); b.set(1, b'F'); b.set(2, b'I'); b.set(3, b'D');
    b.set32(16, 20); // offset table: bone 0 at 20 (what the writer stores for a section written at position 0)
    b.set32(24, 7);  // flags: translation | rotation | scaling
    b.set32(28, 1);  // translation: 1 key (time stamp at 32, vector at 36)
    b.set32(48, 1);  // rotation: 1 key (time stamp at 52, quaternion at 56)
    b.set32(72, 1);  // scaling: 1 key (time stamp at 76, vector at 80)
    b
}
/// AnimSection::parse on a 92-byte section image: fields where the layout puts them
#[kani::proof]
#[kani::stub(std::fmt::format, vio::fmt_stub)]
#[kani::stub(std::string::String::from_utf8_lossy, segio::lossy_stub)]
#[kani::unwind(5)]
fn c13d_anim_section_parse() {
    let mut b = section_image();
    let r = AnimSection::parse(&mut b, kc::AFID_HEADER_SIZE + 4);
    if r.is_err() {
        assert!(false, "well-formed section is rejected by the parser");
        std::mem::forget(r);
        return;
    }
    let d = r.unwrap();
    kani::cover!(b.pos == 92);
    assert!(b.pos == 92, "section parser does not consume header + offset table + bone data");
    assert!(d.header.id == b.get32(4) && d.header.start == b.get32(8) && d.header.end == b.get32(12), "section header fields misplaced");
    assert!(d.bone_animations.len() == 1, "bone count != (size - header) / 4");
    {
        let a = &d.bone_animations[0];
        assert!(a.bone_id == b.get32(20), "bone id misplaced");
        let t = a.translation.as_ref().unwrap();
        assert!(t.timestamps.len() == 1 && t.translations.len() == 1 && t.timestamps[0] == b.get32(32)
            && t.translations[0].x.to_bits() == b.get32(36) && t.translations[0].z.to_bits() == b.get32(44), "translation key misplaced");
        let q = a.rotation.as_ref().unwrap();
        assert!(q.timestamps.len() == 1 && q.rotations.len() == 1 && q.timestamps[0] == b.get32(52)
            && q.rotations[0].x.to_bits() == b.get32(56) && q.rotations[0].w.to_bits() == b.get32(68), "rotation key misplaced");
        let s = a.scaling.as_ref().unwrap();
        assert!(s.timestamps.len() == 1 && s.scalings.len() == 1 && s.timestamps[0] == b.get32(76) && s.scalings[0].y.to_bits() == b.get32(84),
            "scaling key misplaced");
    }
    std::mem::forget(d);
}
/// AnimSection::write of one bone with one translation key: exactly the image the parser reads (offset table points at the bone)
#[kani::proof]
#[kani::stub(std::fmt::format, vio::fmt_stub)]
#[kani::stub(std::string::String::from_utf8_lossy, segio::lossy_stub)]
#[kani::unwind(5)]
fn c13d_anim_section_write() {
    let (ts, x, z): (u32, f32, f32) = (kani::any(), kani::any(), kani::any());
    let mut tv = Vec::with_capacity(1); tv.push(ts);
    let mut vv = Vec::with_capacity(1); vv.push(C3Vector { x, y: 0.5, z });
    let bone_id: u32 = kani::any();
    let mut bones = Vec::with_capacity(1);
    bones.push(AnimBoneAnimation { bone_id, translation: Some(AnimTranslation { timestamps: tv, translations: vv }), rotation: None, scaling: None });
    let (id, end): (u32, u32) = (kani::any(), kani::any());
    let s = AnimSection { header: AnimSectionHeader { magic: *b"AFID", id, start: 3, end }, bone_animations: bones };
    let mut out = Seg::new();
    let w = s.write(&mut out);
    assert!(w.is_ok());
    kani::cover!(out.pos == 48, "section written");
    assert!(out.pos == 48 && out.len == 48, "section length != header 16 + offset table 4 + bone (8 + 4 + 4 + 12)");
    assert!(out.get(0) == b'A' && out.get(3) == b'D' && out.get32(4) == id && out.get32(8) == 3 && out.get32(12) == end, "section header wrong");
    assert!(out.get32(16) == 20, "offset table does not point at the bone data");
    assert!(out.get32(20) == bone_id && out.get32(24) == 1 && out.get32(28) == 1 && out.get32(32) == ts, "bone id / flags / key count / time stamp misplaced");
    assert!(out.get32(36) == x.to_bits() && out.get32(40) == 0.5f32.to_bits() && out.get32(44) == z.to_bits(), "translation vector misplaced");
    std::mem::forget((s, w));
}

// ------------------------------------------------------------------ whole modern file
/// 52-byte file image with one section whose single bone has no key frames
fn file_image() -> Seg {
    let mut b = Seg::any(52);
    b.set(0, b'M'); b.set(1, b'A'); b.set(2, b'O'); b.set(3, b'F');
    b.set32(8, 1);                 // id_count
    b.set32(16, kc::ANIM_HEADER_SIZE); // anim_entry_offset
    b.set32(24, kc::ANIM_HEADER_SIZE + kc::ANIM_ENTRY_SIZE); // entry 0: section offset
    b.set32(28, 20);               // entry 0: section size = section header + one bone offset
    b.set(32, b'A'); b.set(33, b'F'); b.set(34, b'I'); b.set(35, b'D');
    b.set32(48, 0);                // bone 0: no data
    b
}
/// AnimFile::parse on that image: one section, one empty bone, fields where the layout puts them
/// (known finding anim-section-size excludes bones with data)
#[kani::proof]
#[kani::stub(std::fmt::format, vio::fmt_stub)]
#[kani::stub(std::string::String::from_utf8_lossy, segio::lossy_stub)]
#[kani::unwind(5)]
fn c13d_anim_file_parse() {
    let mut b = file_image();
    let r = AnimFile::parse(&mut b);
    if r.is_err() {
        assert!(false, "well-formed modern anim file is rejected by the parser");
        std::mem::forget(r);
        return;
    }
    let d = r.unwrap();
    kani::cover!(d.sections.len() == 1);
    assert!(d.format == AnimFormat::Modern && d.sections.len() == 1, "section count != id_count");
    assert!(d.sections[0].header.id == b.get32(36) && d.sections[0].header.start == b.get32(40) && d.sections[0].header.end == b.get32(44),
        "section header fields misplaced");
    assert!(d.sections[0].bone_animations.len() == 1 && d.sections[0].bone_animations[0].translation.is_none()
        && d.sections[0].bone_animations[0].rotation.is_none(), "bone list wrong");
    match &d.metadata {
        AnimMetadata::Modern { header, entries } => {
            assert!(header.version == b.get32(4) && header.unknown == b.get32(12) && entries.len() == 1 && entries[0].id == b.get32(20), "header / entry fields misplaced");
        }
        _ => assert!(false, "modern file parsed with legacy metadata"),
    }
    std::mem::forget(d);
}
// The writing half at file level (AnimFile::write of that content, compared with the image) is not registered: it ends without a
// verdict under the 14 GB memory cap (loops over the section / bone / entry Vecs are unwound to the bound, nested).  What it
// would add - entry.size == section length - is the subject of c13d_anim_section_write plus the witness below.

/// witness (known finding anim-section-size): AnimFile::write_modern stores the whole section length in entry.size
/// (section_end - section_start, here 48) and parse_modern hands that to AnimSection::parse, which takes (size - 16) / 4 for the
/// number of bones.  Image of a section with one bone and one translation key, parsed with its own length:
#[kani::proof]
#[kani::stub(std::fmt::format, vio::fmt_stub)]
#[kani::stub(std::string::String::from_utf8_lossy, segio::lossy_stub)]
#[kani::unwind(12)]
fn c13d_anim_section_size_witness() {
    let mut b = Seg::new();
    b.len = 48;
    b.set(0, b'A'); b.set(1, b'F'); b.set(2, b'I'); b.set(3, b'D');
    b.set32(4, 5); b.set32(8, 1); b.set32(12, 2);
    b.set32(16, 20);        // bone 0 at 20
    b.set32(20, 3);         // bone id
    b.set32(24, 1);         // flags: translation
    b.set32(28, 1);         // 1 key
    b.set32(32, 10);        // time stamp
    b.set32(36, 0x3f800000); b.set32(40, 0x40000000); b.set32(44, 0x40400000);
    let r = AnimSection::parse(&mut b, 48);
    let ok = match &r { Ok(d) => d.bone_animations.len() == 1, Err(_) => false };
    assert!(ok, "anim section parsed with the length the file writer records for it: bone count derived from the section length is wrong");
    std::mem::forget(r);
}

/// witness (known finding anim-legacy-placeholder): a legacy-format file loses the section header in write -> parse
/// (parse_legacy returns a placeholder section with id 1, start 0, end 0 for every input)
#[kani::proof]
#[kani::stub(std::fmt::format, vio::fmt_stub)]
#[kani::stub(std::string::String::from_utf8_lossy, segio::lossy_stub)]
#[kani::unwind(30)]
fn c13d_anim_legacy_witness() {
    let section = AnimSection { header: AnimSectionHeader { magic: *b"AFID", id: 77, start: 11, end: 22 }, bone_animations: Vec::new() };
    let mut sections = Vec::with_capacity(1); sections.push(section);
    let f = AnimFile { format: AnimFormat::Legacy, sections,
        metadata: AnimMetadata::Legacy { file_size: 0, animation_count: 1,
            structure_hints: LegacyStructureHints { appears_valid: true, estimated_blocks: 1, has_timestamps: false } } };
    let mut out = Seg::new();
    assert!(f.write(&mut out).is_ok());
    assert!(out.len == 24);
    let mut src = out.into_source();
    let r = AnimFile::parse(&mut src);
    let ok = match &r { Ok(d) => d.sections.len() == 1 && d.sections[0].header.id == 77 && d.sections[0].header.end == 22, Err(_) => false };
    assert!(ok, "legacy anim file: section id / frame range lost in write->parse");
    std::mem::forget((f, r));
}

#[kani::proof]
#[kani::stub(std::fmt::format, vio::fmt_stub)]
#[kani::stub(std::string::String::from_utf8_lossy, segio::lossy_stub)]
#[kani::unwind(8)]
fn c13d_anim_canary() {
    let b: [u8; 16] = kani::any();
    let mut src = Src::<16>::new(b, 16);
    let h = AnimEntry::parse(&mut src).unwrap();
    assert!(h.size != 0x1234, "canary: must be reported as failing");
}
