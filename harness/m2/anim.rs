// C13.d - .anim files: attached as a child module of wow-m2/src/anim.rs
#![allow(unused_imports, dead_code)]
#[path = "../env/io.rs"]
mod vio;
#[path = "consts_gen.rs"]
mod kc;
#[path = "segio.rs"]
mod segio;
use segio::Seg;
use vio::{CountSink, Sink, Src};

use super::*;

// ------------------------------------------------------------------ fixed-size records: write(parse(b)) == b, sizes == the
// constants AnimFile::write_modern / AnimSection::parse compute offsets with
#[kani::proof]
#[kani::stub(std::fmt::format, vio::fmt_stub)]
#[kani::stub(std::string::String::from_utf8_lossy, segio::lossy_stub)]
#[kani::unwind(8)]
fn c13d_anim_header_record() {
    let mut b: [u8; 24] = kani::any();
    b[0] = b'M'; b[1] = b'A'; b[2] = b'O'; b[3] = b'F';
    let mut src = Src::<24>::new(b, 24);
    let h = AnimHeader::parse(&mut src).unwrap();
    assert!(src.pos == kc::ANIM_HEADER_SIZE as usize, "anim header parser consumes a different size than the header_size the writer uses");
    let mut out = Sink::<24>::new();
    assert!(h.write(&mut out).is_ok());
    kani::cover!(out.pos == 20);
    assert!(out.pos == kc::ANIM_HEADER_SIZE as usize, "anim header writer produces a different size than the header_size it computes offsets with");
    let i: usize = kani::any();
    kani::assume(i < 20);
    assert!(out.buf[i] == b[i], "anim header write(parse(b)) != b");
}
#[kani::proof]
#[kani::stub(std::fmt::format, vio::fmt_stub)]
#[kani::stub(std::string::String::from_utf8_lossy, segio::lossy_stub)]
#[kani::unwind(8)]
fn c13d_anim_entry_record() {
    let b: [u8; 16] = kani::any();
    let mut src = Src::<16>::new(b, 16);
    let h = AnimEntry::parse(&mut src).unwrap();
    assert!(src.pos == kc::ANIM_ENTRY_SIZE as usize, "anim entry parser consumes a different size than the entry_size the writer uses");
    let mut out = Sink::<16>::new();
    assert!(h.write(&mut out).is_ok());
    kani::cover!(out.pos == 12);
    assert!(out.pos == kc::ANIM_ENTRY_SIZE as usize, "anim entry writer produces a different size than the entry_size it computes offsets with");
    let i: usize = kani::any();
    kani::assume(i < 12);
    assert!(out.buf[i] == b[i], "anim entry write(parse(b)) != b");
}
#[kani::proof]
#[kani::stub(std::fmt::format, vio::fmt_stub)]
#[kani::stub(std::string::String::from_utf8_lossy, segio::lossy_stub)]
#[kani::unwind(8)]
fn c13d_anim_section_header_record() {
    let mut b: [u8; 20] = kani::any();
    b[0] = b'A'; b[1] = b'F'; b[2] = b'I'; b[3] = b'D';
    let mut src = Src::<20>::new(b, 20);
    let h = AnimSectionHeader::parse(&mut src).unwrap();
    assert!(src.pos == kc::AFID_HEADER_SIZE as usize, "section header parser consumes a different size than the header_size AnimSection::parse subtracts");
    let mut out = Sink::<20>::new();
    assert!(h.write(&mut out).is_ok());
    kani::cover!(out.pos == 16);
    assert!(out.pos == kc::AFID_HEADER_SIZE as usize, "section header writer produces a different size than the header_size AnimSection::parse subtracts");
    let i: usize = kani::any();
    kani::assume(i < 16);
    assert!(out.buf[i] == b[i], "section header write(parse(b)) != b");
}

// ------------------------------------------------------------------ one section, one bone, one key per track
fn one_bone_section(with_t: bool, with_r: bool, with_s: bool) -> AnimSection {
    let mut bone = AnimBoneAnimation { bone_id: kani::any(), translation: None, rotation: None, scaling: None };
    if with_t {
        let mut ts = Vec::with_capacity(1); ts.push(kani::any::<u32>());
        let mut vs = Vec::with_capacity(1); vs.push(C3Vector { x: kani::any(), y: kani::any(), z: kani::any() });
        bone.translation = Some(AnimTranslation { timestamps: ts, translations: vs });
    }
    if with_r {
        let mut ts = Vec::with_capacity(1); ts.push(kani::any::<u32>());
        let mut vs = Vec::with_capacity(1); vs.push(Quaternion { x: kani::any(), y: kani::any(), z: kani::any(), w: kani::any() });
        bone.rotation = Some(AnimRotation { timestamps: ts, rotations: vs });
    }
    if with_s {
        let mut ts = Vec::with_capacity(1); ts.push(kani::any::<u32>());
        let mut vs = Vec::with_capacity(1); vs.push(C3Vector { x: kani::any(), y: kani::any(), z: kani::any() });
        bone.scaling = Some(AnimScaling { timestamps: ts, scalings: vs });
    }
    let mut bones = Vec::with_capacity(1);
    bones.push(bone);
    AnimSection { header: AnimSectionHeader { magic: *b"AFID", id: kani::any(), start: kani::any(), end: kani::any() }, bone_animations: bones }
}
fn v3eq(a: &C3Vector, b: &C3Vector) -> bool { a.x.to_bits() == b.x.to_bits() && a.y.to_bits() == b.y.to_bits() && a.z.to_bits() == b.z.to_bits() }

/// AnimSection::write -> AnimSection::parse(size = section header + one offset per bone): content equal, second write identical
#[kani::proof]
#[kani::stub(std::fmt::format, vio::fmt_stub)]
#[kani::stub(std::string::String::from_utf8_lossy, segio::lossy_stub)]
#[kani::unwind(5)]
fn c13d_anim_section_roundtrip() {
    let s = one_bone_section(true, true, true);
    let mut out = Seg::new();
    let w = s.write(&mut out);
    assert!(w.is_ok());
    // 16 header + 4 offset + 8 (bone id, flags) + (4 + 4 + 12) + (4 + 4 + 16) + (4 + 4 + 12)
    kani::cover!(out.pos == 92);
    assert!(out.pos == 92, "section length != header + offset table + bone data");
    let off = out.get32(16);
    assert!(off == 20, "bone offset in the section's offset table does not point at the bone data");
    let mut src = out.into_source(); // also the first image from here on
    let r = AnimSection::parse(&mut src, kc::AFID_HEADER_SIZE + 4);
    if r.is_err() {
        assert!(false, "section written by the library is rejected by its parser");
        std::mem::forget((r, w, s));
        return;
    }
    let d = r.unwrap();
    assert!(src.pos == 92, "section parser does not consume the section the writer produced");
    assert!(d.header.id == s.header.id && d.header.start == s.header.start && d.header.end == s.header.end, "section header changed");
    assert!(d.bone_animations.len() == 1, "bone count changed in write->parse");
    let (a, b) = (&s.bone_animations[0], &d.bone_animations[0]);
    assert!(a.bone_id == b.bone_id, "bone id changed");
    let (ta, tb) = (a.translation.as_ref().unwrap(), b.translation.as_ref().unwrap());
    assert!(tb.timestamps.len() == 1 && tb.translations.len() == 1 && ta.timestamps[0] == tb.timestamps[0] && v3eq(&ta.translations[0], &tb.translations[0]),
        "translation key changed in write->parse");
    let (ra, rb) = (a.rotation.as_ref().unwrap(), b.rotation.as_ref().unwrap());
    assert!(rb.timestamps.len() == 1 && ra.timestamps[0] == rb.timestamps[0] && ra.rotations[0].x.to_bits() == rb.rotations[0].x.to_bits()
        && ra.rotations[0].y.to_bits() == rb.rotations[0].y.to_bits() && ra.rotations[0].z.to_bits() == rb.rotations[0].z.to_bits()
        && ra.rotations[0].w.to_bits() == rb.rotations[0].w.to_bits(), "rotation key changed in write->parse");
    let (sa, sb) = (a.scaling.as_ref().unwrap(), b.scaling.as_ref().unwrap());
    assert!(sb.timestamps.len() == 1 && sa.timestamps[0] == sb.timestamps[0] && v3eq(&sa.scalings[0], &sb.scalings[0]), "scaling key changed in write->parse");
    let mut out2 = Seg::new();
    let w2 = d.write(&mut out2);
    assert!(w2.is_ok() && out2.pos == 92);
    let i: usize = kani::any();
    kani::assume(i < 92);
    assert!(out2.get(i) == src.get(i), "write(parse(write(section))) differs from write(section)");
    std::mem::forget((s, d, w, w2));
}

// ------------------------------------------------------------------ whole modern file
fn modern_file(section: AnimSection) -> AnimFile {
    let mut sections = Vec::with_capacity(1);
    let id = section.header.id;
    sections.push(section);
    let mut entries = Vec::with_capacity(1);
    entries.push(AnimEntry { id, offset: kani::any(), size: kani::any() });
    AnimFile { format: AnimFormat::Modern, sections,
        metadata: AnimMetadata::Modern { header: AnimHeader { magic: ANIM_MAGIC, version: kani::any(), id_count: 1, unknown: kani::any(), anim_entry_offset: kani::any() }, entries } }
}

/// file with one section whose single bone has no key frames (known finding anim-section-size excludes bones with data):
/// entry table points at the section, entry.size == section length, parse returns the same content
#[kani::proof]
#[kani::stub(std::fmt::format, vio::fmt_stub)]
#[kani::stub(std::string::String::from_utf8_lossy, segio::lossy_stub)]
#[kani::unwind(5)]
fn c13d_anim_file_roundtrip_empty_bone() {
    let f = modern_file(one_bone_section(false, false, false));
    let mut out = Seg::new();
    let w = f.write(&mut out);
    assert!(w.is_ok());
    // write_modern ends by seeking back to the entry table: the file length (out.len) is the end of the last section
    assert!(out.len == 52, "file length != header + entry table + section");
    let eo = out.get32(16);
    assert!(eo == kc::ANIM_HEADER_SIZE, "anim_entry_offset does not point behind the header");
    let sec_off = out.get32(24);
    let sec_size = out.get32(28);
    kani::cover!(sec_off == 32 && sec_size == 20);
    assert!(sec_off == kc::ANIM_HEADER_SIZE + kc::ANIM_ENTRY_SIZE, "entry offset does not point at the section");
    assert!(sec_size == 20, "entry size != section length");
    assert!(out.get(32) == b'A' && out.get(33) == b'F' && out.get(34) == b'I' && out.get(35) == b'D', "no section at the offset the entry points to");
    let mut src = out.into_source();
    let r = AnimFile::parse(&mut src);
    if r.is_err() {
        assert!(false, "anim file written by the library is rejected by its parser");
        std::mem::forget((r, w, f));
        return;
    }
    let d = r.unwrap();
    assert!(d.format == AnimFormat::Modern && d.sections.len() == 1);
    assert!(d.sections[0].header.id == f.sections[0].header.id && d.sections[0].header.start == f.sections[0].header.start
        && d.sections[0].header.end == f.sections[0].header.end, "section header changed in file write->parse");
    assert!(d.sections[0].bone_animations.len() == 1 && d.sections[0].bone_animations[0].translation.is_none(), "bone list changed in file write->parse");
    std::mem::forget((f, d, w));
}

/// witness (known finding anim-section-size): one bone with one translation key.  AnimFile::write stores the whole section
/// length in the entry, AnimSection::parse derives the bone count from that length
#[kani::proof]
#[kani::stub(std::fmt::format, vio::fmt_stub)]
#[kani::stub(std::string::String::from_utf8_lossy, segio::lossy_stub)]
#[kani::unwind(20)]
fn c13d_anim_file_bone_data_witness() {
    let mut ts = Vec::with_capacity(1); ts.push(10u32);
    let mut vs = Vec::with_capacity(1); vs.push(C3Vector { x: 1.0, y: 2.0, z: 3.0 });
    let mut bones = Vec::with_capacity(1);
    bones.push(AnimBoneAnimation { bone_id: 3, translation: Some(AnimTranslation { timestamps: ts, translations: vs }), rotation: None, scaling: None });
    let section = AnimSection { header: AnimSectionHeader { magic: *b"AFID", id: 5, start: 1, end: 2 }, bone_animations: bones };
    let mut sections = Vec::with_capacity(1); sections.push(section);
    let mut entries = Vec::with_capacity(1); entries.push(AnimEntry { id: 5, offset: 0, size: 0 });
    let f = AnimFile { format: AnimFormat::Modern, sections,
        metadata: AnimMetadata::Modern { header: AnimHeader { magic: ANIM_MAGIC, version: 1, id_count: 1, unknown: 0, anim_entry_offset: 20 }, entries } };
    let mut out = Seg::new();
    assert!(f.write(&mut out).is_ok());
    let mut src = out.into_source();
    let r = AnimFile::parse(&mut src);
    let ok = match &r { Ok(d) => d.sections.len() == 1 && d.sections[0].bone_animations.len() == 1, Err(_) => false };
    assert!(ok, "anim file with key-frame data written by the library is not read back (bone count derived from the section length)");
    std::mem::forget((f, r));
}

/// witness (known finding anim-legacy-placeholder): a legacy-format file loses the section header in write -> parse
/// (parse_legacy returns a placeholder section with id 1, start 0, end 0 for every input)
#[kani::proof]
#[kani::stub(std::fmt::format, vio::fmt_stub)]
#[kani::stub(std::string::String::from_utf8_lossy, segio::lossy_stub)]
#[kani::unwind(30)]
fn c13d_anim_legacy_witness() {
    let section = AnimSection { header: AnimSectionHeader { magic: *b"AFID", id: 77, start: 11, end: 22 }, bone_animations: Vec::new() };
    let mut sections = Vec::with_capacity(1); sections.push(section);
    let f = AnimFile { format: AnimFormat::Legacy, sections,
        metadata: AnimMetadata::Legacy { file_size: 0, animation_count: 1,
            structure_hints: LegacyStructureHints { appears_valid: true, estimated_blocks: 1, has_timestamps: false } } };
    let mut out = Seg::new();
    assert!(f.write(&mut out).is_ok());
    assert!(out.len == 24);
    let mut src = out.into_source();
    let r = AnimFile::parse(&mut src);
    let ok = match &r { Ok(d) => d.sections.len() == 1 && d.sections[0].header.id == 77 && d.sections[0].header.end == 22, Err(_) => false };
    assert!(ok, "legacy anim file: section id / frame range lost in write->parse");
    std::mem::forget((f, r));
}

#[kani::proof]
#[kani::stub(std::fmt::format, vio::fmt_stub)]
#[kani::stub(std::string::String::from_utf8_lossy, segio::lossy_stub)]
#[kani::unwind(8)]
fn c13d_anim_canary() {
    let b: [u8; 16] = kani::any();
    let mut src = Src::<16>::new(b, 16);
    let h = AnimEntry::parse(&mut src).unwrap();
    assert!(h.size != 0x1234, "canary: must be reported as failing");
}
