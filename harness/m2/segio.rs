// In-memory Read/Write/Seek for records and files larger than 64 bytes.
//
// CBMC tracks arrays element-wise ("field sensitivity") only up to 64 elements; in a larger array a byte that the harness
// assigned concretely (a count of 0, a version number, a magic) is no longer a constant for symbolic execution, every
// branch on it is explored both ways and loops on it are unwound to the bound.  `Seg` therefore stores the bytes in
// 64-byte segments that are separate struct fields and moves them one byte at a time; with a concrete position every
// access hits one element of one small array, so concrete bytes stay concrete.
#![allow(dead_code)]
use std::io::{self, Read, Seek, SeekFrom, Write};

pub const SEG: usize = 64;

/// 16 x 64 = 1024 bytes; `len` = logical length for reading (bytes written so far when used as a sink), `pos` = cursor
pub struct Seg {
    pub s0: [u8; SEG], pub s1: [u8; SEG], pub s2: [u8; SEG], pub s3: [u8; SEG],
    pub s4: [u8; SEG], pub s5: [u8; SEG], pub s6: [u8; SEG], pub s7: [u8; SEG],
    pub s8: [u8; SEG], pub s9: [u8; SEG], pub s10: [u8; SEG], pub s11: [u8; SEG],
    pub s12: [u8; SEG], pub s13: [u8; SEG], pub s14: [u8; SEG], pub s15: [u8; SEG],
    pub len: usize,
    pub pos: usize,
}
pub const CAP: usize = 16 * SEG;

impl Seg {
    /// empty sink / zero-filled source of logical length 0
    pub fn new() -> Self {
        Seg { s0: [0; SEG], s1: [0; SEG], s2: [0; SEG], s3: [0; SEG], s4: [0; SEG], s5: [0; SEG], s6: [0; SEG], s7: [0; SEG],
            s8: [0; SEG], s9: [0; SEG], s10: [0; SEG], s11: [0; SEG], s12: [0; SEG], s13: [0; SEG], s14: [0; SEG], s15: [0; SEG], len: 0, pos: 0 }
    }
    /// source of `len` <= 512 bytes, every byte symbolic
    pub fn any(len: usize) -> Self {
        Seg { s0: kani::any(), s1: kani::any(), s2: kani::any(), s3: kani::any(), s4: kani::any(), s5: kani::any(), s6: kani::any(), s7: kani::any(),
            s8: [0; SEG], s9: [0; SEG], s10: [0; SEG], s11: [0; SEG], s12: [0; SEG], s13: [0; SEG], s14: [0; SEG], s15: [0; SEG], len, pos: 0 }
    }
    pub fn get(&self, i: usize) -> u8 {
        let j = i % SEG;
        match i / SEG { 0 => self.s0[j], 1 => self.s1[j], 2 => self.s2[j], 3 => self.s3[j], 4 => self.s4[j], 5 => self.s5[j], 6 => self.s6[j], 7 => self.s7[j],
            8 => self.s8[j], 9 => self.s9[j], 10 => self.s10[j], 11 => self.s11[j], 12 => self.s12[j], 13 => self.s13[j], 14 => self.s14[j], _ => self.s15[j] }
    }
    pub fn set(&mut self, i: usize, v: u8) {
        let j = i % SEG;
        match i / SEG { 0 => self.s0[j] = v, 1 => self.s1[j] = v, 2 => self.s2[j] = v, 3 => self.s3[j] = v, 4 => self.s4[j] = v, 5 => self.s5[j] = v, 6 => self.s6[j] = v,
            7 => self.s7[j] = v, 8 => self.s8[j] = v, 9 => self.s9[j] = v, 10 => self.s10[j] = v, 11 => self.s11[j] = v, 12 => self.s12[j] = v,
            13 => self.s13[j] = v, 14 => self.s14[j] = v, _ => self.s15[j] = v }
    }
    pub fn set32(&mut self, i: usize, v: u32) {
        let b = v.to_le_bytes();
        self.set(i, b[0]); self.set(i + 1, b[1]); self.set(i + 2, b[2]); self.set(i + 3, b[3]);
    }
    pub fn get16(&self, i: usize) -> u16 { u16::from_le_bytes([self.get(i), self.get(i + 1)]) }
    pub fn get32(&self, i: usize) -> u32 { u32::from_le_bytes([self.get(i), self.get(i + 1), self.get(i + 2), self.get(i + 3)]) }
    /// rewind and read what was written
    pub fn into_source(mut self) -> Self { self.pos = 0; self }
    /// same bytes, fresh cursor (for "the second write is byte-identical")
    pub fn same_byte(&self, other: &Seg, i: usize) -> bool { self.get(i) == other.get(i) }
}

impl Read for Seg {
    fn read(&mut self, out: &mut [u8]) -> io::Result<usize> {
        let avail = if self.pos < self.len { self.len - self.pos } else { 0 };
        let n = if out.len() < avail { out.len() } else { avail };
        let mut k = 0;
        while k < n { out[k] = self.get(self.pos + k); k += 1; }
        self.pos += n;
        Ok(n)
    }
    fn read_exact(&mut self, out: &mut [u8]) -> io::Result<()> {
        let avail = if self.pos < self.len { self.len - self.pos } else { 0 };
        if out.len() > avail {
            self.pos = self.len;
            return Err(io::Error::from(io::ErrorKind::UnexpectedEof));
        }
        let n = out.len();
        let p = self.pos;
        // the sizes the little-endian helpers use, without a loop (keeps the unwinding bound of the harness small)
        if n == 4 { out[0] = self.get(p); out[1] = self.get(p + 1); out[2] = self.get(p + 2); out[3] = self.get(p + 3); }
        else if n == 2 { out[0] = self.get(p); out[1] = self.get(p + 1); }
        else if n == 1 { out[0] = self.get(p); }
        else {
            let mut k = 0;
            while k < n { out[k] = self.get(p + k); k += 1; }
        }
        self.pos = p + n;
        Ok(())
    }
}
impl Write for Seg {
    fn write(&mut self, b: &[u8]) -> io::Result<usize> {
        let n = b.len();
        if self.pos > CAP || n > CAP - self.pos { return Err(io::Error::from(io::ErrorKind::WriteZero)); }
        let p = self.pos;
        if n == 4 { self.set(p, b[0]); self.set(p + 1, b[1]); self.set(p + 2, b[2]); self.set(p + 3, b[3]); }
        else if n == 2 { self.set(p, b[0]); self.set(p + 1, b[1]); }
        else if n == 1 { self.set(p, b[0]); }
        else if n <= 8 {
            let mut k = 0;
            while k < n { self.set(p + k, b[k]); k += 1; }
        } else {
            // long slices (a file's whole data section): one block copy per 64-byte segment, so that the loop bound is
            // the number of segments and not the number of bytes
            let mut done = 0;
            let mut q = p;
            while done < n {
                let j = q % SEG;
                let take = if SEG - j < n - done { SEG - j } else { n - done };
                let dst: &mut [u8; SEG] = match q / SEG { 0 => &mut self.s0, 1 => &mut self.s1, 2 => &mut self.s2, 3 => &mut self.s3, 4 => &mut self.s4,
                    5 => &mut self.s5, 6 => &mut self.s6, 7 => &mut self.s7, 8 => &mut self.s8, 9 => &mut self.s9, 10 => &mut self.s10, 11 => &mut self.s11,
                    12 => &mut self.s12, 13 => &mut self.s13, 14 => &mut self.s14, _ => &mut self.s15 };
                dst[j..j + take].copy_from_slice(&b[done..done + take]);
                done += take;
                q += take;
            }
        }
        self.pos = p + n;
        if self.pos > self.len { self.len = self.pos; }
        Ok(n)
    }
    fn write_all(&mut self, b: &[u8]) -> io::Result<()> { self.write(b).map(|_| ()) }
    fn flush(&mut self) -> io::Result<()> { Ok(()) }
}
impl Seek for Seg {
    fn seek(&mut self, s: SeekFrom) -> io::Result<u64> {
        let np: i128 = match s {
            SeekFrom::Start(o) => o as i128,
            SeekFrom::Current(d) => self.pos as i128 + d as i128,
            SeekFrom::End(d) => self.len as i128 + d as i128,
        };
        if np < 0 { return Err(io::Error::from(io::ErrorKind::InvalidInput)); }
        self.pos = if np > usize::MAX as i128 { usize::MAX } else { np as usize };
        Ok(np as u64)
    }
}

/// stand-in for String::from_utf8_lossy: the library calls it only to put magic bytes into error messages
/// (and message text is never the subject); without it every magic check costs minutes of UTF-8 decoding
pub fn lossy_stub(v: &[u8]) -> std::borrow::Cow<'_, str> {
    std::borrow::Cow::Borrowed(unsafe { std::str::from_utf8_unchecked(v) })
}
