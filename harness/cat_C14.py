# C14 - ADT terrain survives build -> serialise -> parse, re-serialisation is stable (wow-adt)
CRATES["adt"] = {
    "dir": "file-formats/world-data/wow-adt",
    "attach": [
        ("src/builder/serializer.rs", "adt/serializer.rs", "verif_kani_serializer", ""),
    ],
}

_A = "verif_kani_serializer"
TID = ("std::any::TypeId::eq -> false (environment model: disables binrw's `dyn Any` byte-slice fast paths for [u8; N] / Vec<u8>; "
       "the generic element-wise path transfers the same bytes)")
_ST = [FMT, TID]
H("C14", "adt", _A, "quick", "C14.a MHDR offsets == recorded chunk position - MHDR data start, flags <=> MFBO/MH2O presence",
  ["c14a_mhdr_offsets"], ["builder::serializer::calculate_mhdr_offsets", "builder::serializer::calculate_mhdr_flags"],
  "ChunkPositions fully symbolic (9 mandatory positions, 9 optional positions each present/absent)", "none (loop-free)",
  assumes=["positions ordered as serialize_to_writer records them (MHDR data >= 8, MCIN behind MHDR's 64 bytes, MTEX < MMDX < ... < MODF < optional chunks)",
           "every position <= 2^32 - 1 (file smaller than 4 GiB)"], stubs=_ST)
H("C14", "adt", _A, "quick", "C14.a MCIN entry i == (offset_i, size_i, 0, 0), zero padding to exactly 256 entries",
  ["c14a_mcin_entries_k0", "c14a_mcin_entries_k1", "c14a_mcin_entries_k3"], ["builder::serializer::calculate_mcin_entries"],
  "k recorded MCNK (offset, size) pairs symbolic, probe index symbolic over all 256 entries", "k in {0, 1, 3}; unwind 258",
  assumes=["offsets <= 2^32 - 1"], stubs=_ST)
H("C14", "adt", _A, "quick", "C14.b MMID/MWID offsets point at the byte where MMDX/MWMO serialisation puts each name; reader-side resolution agrees",
  ["c14b_mmid_offsets_3_1_2", "c14b_mwid_offsets_1_3_2"],
  ["builder::serializer::create_mmid_chunk", "builder::serializer::create_mwid_chunk", "builder::serializer::create_mmdx_chunk",
   "builder::serializer::create_mwmo_chunk", "chunks::strings::MmdxChunk::write_options", "chunks::strings::MwmoChunk::write_options",
   "chunks::strings::MmidChunk::{get_filename_index,validate_offsets}", "chunks::strings::MwidChunk::{get_filename_index,validate_offsets}"],
  "three names with symbolic non-NUL ASCII bytes, probe name index symbolic", "3 names of lengths (3,1,2) / (1,3,2)",
  assumes=["name bytes in 1..=0x7F (builder rejects empty names; NUL cannot be stored)"], stubs=_ST)
H("C14", "adt", _A, "quick", "C14.c write_chunk: declared size == payload bytes, consecutive chunks abut, reference walker tiles the output, payload reads back",
  ["c14c_write_chunk_mver_mfbo", "c14c_write_chunk_mhdr_mamp", "c14c_write_chunk_vec_payloads"],
  ["builder::serializer::write_chunk", "builder::serializer::create_mddf_chunk", "chunks::simple::MfboChunk::read_le", "chunks::simple::MhdrChunk::write_le",
   "chunks::placement::MddfChunk::write_le", "chunks::simple::MtxfChunk::write_le", "chunks::mcnk::mcly::MclyChunk::write_le"],
  "MVER version, MFBO planes (18 x i16), MHDR flags/mtxf_offset, MAMP amplifier symbolic; MDDF x 2 placements, MTXF x 3 flags, MCLY x 1 layer with symbolic fields",
  "two or three chunks per harness", stubs=_ST)
H("C14", "adt", _A, "quick", "C14.d fixed-size records: write_le(read_le(b)) == b and both move exactly the documented size",
  ["c14d_rec_doodad_placement", "c14d_rec_wmo_placement", "c14d_rec_mcly_layer", "c14d_rec_sound_emitter", "c14d_rec_texture_height_params",
   "c14d_rec_mh2o_header", "c14d_rec_mh2o_instance", "c14d_rec_mh2o_attributes", "c14d_rec_mcin_entry", "c14d_rec_mfbo", "c14d_rec_mhdr",
   "c14d_rec_chunk_header"],
  ["chunks::placement::DoodadPlacement", "chunks::placement::WmoPlacement", "chunks::mcnk::mcly::MclyLayer", "chunks::mcnk::mcse::SoundEmitter",
   "chunks::simple::TextureHeightParams", "chunks::mh2o::header::Mh2oHeader", "chunks::mh2o::instance::Mh2oInstance",
   "chunks::mh2o::header::Mh2oAttributes", "chunks::simple::McinEntry", "chunks::simple::MfboChunk", "chunks::simple::MhdrChunk",
   "chunk_header::ChunkHeader"],
  "record bytes fully symbolic (36/64/16/28/16/12/24/16/16/36/64/8 bytes)", "one record", stubs=_ST)
_mcnk = ["builder::serializer::write_mcnk_chunk", "builder::serializer::write_chunk", "chunks::mcnk::chunk::McnkChunk::parse_with_offset_and_size",
         "chunks::mcnk::header::McnkHeader::{read_le,write_le,has_*}"]
IMG = "harness environment: in-memory file image (Read+Write+Seek over nested [u8; 64] pages so that CBMC tracks every byte separately)"
_ST2 = [FMT, TID, IMG]
H("C14", "adt", _A, "thorough", "C14.e MCNK without sub-chunks: header content survives write->parse, stale offsets/sizes/counts are cleared, nothing is invented, parse->write reproduces the bytes",
  ["c14e_mcnk_bare_header"], _mcnk,
  "all MCNK header fields symbolic (flags, indices, counts, stale offsets and sizes, holes, position, ...) except unused/_padding = 0",
  "MCNK at file offset 16, no sub-chunks", assumes=["header fields `unused` and `_padding` are zero (padding, not content)"], stubs=_ST2, timeout=2400)
H("C14", "adt", _A, "thorough", "C14.e witness: MCRF lost when header counts are 0", ["c14e_mcnk_refs_zero_counts_witness"], _mcnk,
  "concrete: one MCNK with MCRF [1, 2], header counts 0", "one input", stubs=_ST2, timeout=2400, expect="witness:KF-C14-mcrf-counts")
H("C14", "adt", _A, "thorough", "C14.e witness: MCDD written but never parsed", ["c14e_mcnk_mcdd_dropped_witness"], _mcnk,
  "concrete: one MCNK with MCDD = 64 x 0xFF", "one input", stubs=_ST2, timeout=2400, expect="witness:KF-C14-mcnk-tail-dropped")
H("C14", "adt", _A, "thorough", "C14.e witness: MCCV lost without MCNK flag 0x40", ["c14e_mcnk_vertex_colors_flag_witness"], _mcnk,
  "concrete: one MCNK with default MCCV, flags 0", "one input", stubs=_ST2, timeout=2400, expect="witness:KF-C14-mccv-flag")
H("C14", "adt", _A, "thorough", "C14.e witness: MCLQ last in file cannot be parsed", ["c14e_mcnk_liquid_last_witness"], _mcnk,
  "concrete: one MCNK whose only sub-chunk is an MCLQ (81 vertices), nothing behind it", "one input", stubs=_ST2, timeout=2400,
  expect="witness:KF-C14-mclq-size")
H("C14", "adt", _A, "quick", "canary", ["c14_serializer_canary"], ["builder::serializer::calculate_mhdr_offsets"], "vacuity twin", "-",
  expect="canary", stubs=_ST)

OUTSIDE["C14"] = [
    "whole-file clauses: parse(serialise(build(x))) == x, framing tiles the whole file, MHDR/MCIN entries point at chunks of the named type, for any version - "
    "serialize_to_writer / discover_chunks / parse_root_adt on a complete tile (>= 4.5 KB because of the 4096-byte MCIN, HashMap chunk discovery) "
    "did not finish (> 40 min, > 7 GB for the smallest VanillaEarly tile); only the offset-table kernels, write_chunk framing and single-MCNK round trips are decided",
    "stability under n >= 1 rounds of parse -> rebuild at file level (BuiltAdt::from_root_adt, AdtBuilder::from_parsed); decided only for one MCNK without sub-chunks",
    "version detection of a serialised tile (AdtVersion::detect_from_chunks needs the discovery HashMap; harness did not finish) - defect KF-C14-version-detect is confirmed natively only",
    "MCNK sub-chunks read through binrw `until_eof` (MCLY, MCRF, MCRD, MCRW, MCSE): write->parse harnesses ran out of memory; their 16/4/28-byte records, "
    "declared sizes and framing are decided, the sub-chunk round trip is not (defect KF-C14-mcrf-phantom confirmed natively only)",
    "MCAL, MCSH, MCLV, MCMT, MCBB sub-chunk content; MCNK sub-chunk combinations other than the listed single-kind shapes; more than one terrain chunk; "
    "the 256 generated minimal chunks (write_minimal_mcnk_chunk)",
    "MH2O write_mh2o_chunk -> parse_mh2o_chunk (out of memory even for one layer); only the 12/24/16-byte header/instance/attribute records are decided",
    "MTXF/MTXP/MBMH/MBBB/MBNV/MBMI readers vs. chunk size (defect KF-C14-mtxf-unbounded confirmed natively only: the solver witness ran out of memory "
    "in the reader's terminating error path); MAMP/MTXP/blend-mesh chunks beyond write_chunk framing of MAMP and MTXF; MODF/MMID/MWID chunk-level (not record-level) round trips",
    "name lists with more than 3 names or names longer than 3 bytes, non-ASCII names; builder validation functions (validate_*_filename, placement reference checks)",
    "files of 4 GiB and more (u32 truncation of offsets), write_to_file (filesystem), to_bytes through std::io::Cursor<Vec<u8>>",
]
