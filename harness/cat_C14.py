# C14 - ADT terrain survives build -> serialise -> parse, re-serialisation is stable (wow-adt)
CRATES["adt"] = {
    "dir": "file-formats/world-data/wow-adt",
    "attach": [
        ("src/builder/serializer.rs", "adt/serializer.rs", "verif_kani_serializer", ""),
    ],
}

_A = "verif_kani_serializer"
TID = ("std::any::TypeId::eq -> false (environment model: disables binrw's `dyn Any` byte-slice fast paths for [u8; N] / Vec<u8>; "
       "the generic element-wise path transfers the same bytes)")
_ST = [FMT, TID]
H("C14", "adt", _A, "quick", "C14.a MHDR offsets == recorded chunk position - MHDR data start, flags <=> MFBO/MH2O presence",
  ["c14a_mhdr_offsets"], ["builder::serializer::calculate_mhdr_offsets", "builder::serializer::calculate_mhdr_flags"],
  "ChunkPositions fully symbolic (9 mandatory positions, 9 optional positions each present/absent)", "none (loop-free)",
  assumes=["positions ordered as serialize_to_writer records them (MHDR data >= 8, MCIN behind MHDR's 64 bytes, MTEX < MMDX < ... < MODF < optional chunks)",
           "every position <= 2^32 - 1 (file smaller than 4 GiB)"], stubs=_ST)
H("C14", "adt", _A, "quick", "C14.a MCIN entry i == (offset_i, size_i, 0, 0), zero padding to exactly 256 entries",
  ["c14a_mcin_entries_k0", "c14a_mcin_entries_k1", "c14a_mcin_entries_k3"], ["builder::serializer::calculate_mcin_entries"],
  "k recorded MCNK (offset, size) pairs symbolic, probe index symbolic over all 256 entries", "k in {0, 1, 3}; unwind 258",
  assumes=["offsets <= 2^32 - 1"], stubs=_ST)
H("C14", "adt", _A, "quick", "C14.b MMID/MWID offsets point at the byte where MMDX/MWMO serialisation puts each name; reader-side resolution agrees",
  ["c14b_mmid_offsets_3_1_2", "c14b_mwid_offsets_1_3_2"],
  ["builder::serializer::create_mmid_chunk", "builder::serializer::create_mwid_chunk", "builder::serializer::create_mmdx_chunk",
   "builder::serializer::create_mwmo_chunk", "chunks::strings::MmdxChunk::write_options", "chunks::strings::MwmoChunk::write_options",
   "chunks::strings::MmidChunk::{get_filename_index,validate_offsets}", "chunks::strings::MwidChunk::{get_filename_index,validate_offsets}"],
  "three names with symbolic non-NUL ASCII bytes, probe name index symbolic", "3 names of lengths (3,1,2) / (1,3,2)",
  assumes=["name bytes in 1..=0x7F (builder rejects empty names; NUL cannot be stored)"], stubs=_ST)
H("C14", "adt", _A, "quick", "C14.c write_chunk: declared size == payload bytes, consecutive chunks abut, reference walker tiles the output, payload reads back",
  ["c14c_write_chunk_mver_mfbo", "c14c_write_chunk_mhdr_mamp"],
  ["builder::serializer::write_chunk", "chunks::simple::MfboChunk::read_le", "chunks::simple::MhdrChunk::write_le"],
  "MVER version, MFBO planes (18 x i16), MHDR flags/mtxf_offset, MAMP amplifier symbolic", "two chunks per harness", stubs=_ST)
H("C14", "adt", _A, "quick", "C14.d fixed-size records: write_le(read_le(b)) == b and both move exactly the documented size",
  ["c14d_rec_doodad_placement", "c14d_rec_wmo_placement", "c14d_rec_mcly_layer", "c14d_rec_sound_emitter", "c14d_rec_texture_height_params",
   "c14d_rec_mh2o_header", "c14d_rec_mh2o_instance", "c14d_rec_mh2o_attributes", "c14d_rec_mcin_entry", "c14d_rec_mfbo", "c14d_rec_mhdr",
   "c14d_rec_chunk_header"],
  ["chunks::placement::DoodadPlacement", "chunks::placement::WmoPlacement", "chunks::mcnk::mcly::MclyLayer", "chunks::mcnk::mcse::SoundEmitter",
   "chunks::simple::TextureHeightParams", "chunks::mh2o::header::Mh2oHeader", "chunks::mh2o::instance::Mh2oInstance",
   "chunks::mh2o::header::Mh2oAttributes", "chunks::simple::McinEntry", "chunks::simple::MfboChunk", "chunks::simple::MhdrChunk",
   "chunk_header::ChunkHeader"],
  "record bytes fully symbolic (36/64/16/28/16/12/24/16/16/36/64/8 bytes)", "one record", stubs=_ST)
_mcnk = ["builder::serializer::write_mcnk_chunk", "builder::serializer::write_chunk", "chunks::mcnk::chunk::McnkChunk::parse_with_offset_and_size",
         "chunks::mcnk::header::McnkHeader::{read_le,write_le,has_*}"]
H("C14", "adt", _A, "quick", "C14.e MCNK without sub-chunks: header content survives write->parse, stale offsets/sizes/counts are cleared, nothing is invented",
  ["c14e_mcnk_bare_header"], _mcnk,
  "all 136 header bytes' worth of fields symbolic (flags, indices, counts, stale offsets and sizes, holes, position, ...) except unused/_padding = 0",
  "MCNK at file offset 16, no sub-chunks", assumes=["header fields `unused` and `_padding` are zero (padding, not content)"], stubs=_ST)
H("C14", "adt", _A, "quick", "C14.e MCNK with MCLY + MCSE: counts == list lengths, header offsets point at chunks of the named type, sub-chunks tile the payload, content survives, parse->write reproduces the bytes",
  ["c14e_mcnk_layers_emitters"], _mcnk,
  "header symbolic as above; 2 texture layers and 1 sound emitter with symbolic fields", "MCNK at file offset 16; 2 layers, 1 emitter",
  assumes=["header fields `unused` and `_padding` are zero"], stubs=_ST)
H("C14", "adt", _A, "quick", "canary", ["c14_serializer_canary"], ["builder::serializer::calculate_mhdr_offsets"], "vacuity twin", "-",
  expect="canary", stubs=_ST)

OUTSIDE["C14"] = []
