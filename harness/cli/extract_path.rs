// C11 kernel: the archive-entry-name -> relative-path mapping used by `warcraft-rs mpq extract`.
// Child module of warcraft-rs/src/commands/mpq.rs (extraction_relative_path is private there).
// Decided for EVERY entry name of the bounded length (all valid UTF-8 byte strings) and both modes:
//   containment: a returned path is relative, non-empty and consists of normal components only
//                (no "..", no ".", no root, no drive prefix / ':' , no backslash), so that
//                output_dir.join(path) stays beneath output_dir;
//   function:    the path is exactly the name's components (split on '\\' and '/', empty and "." dropped)
//                joined by '/', or just the last one without --preserve-paths; names without a hostile
//                component and with at least one component are accepted (no over-rejection).
#![allow(unused_imports, dead_code)]
#[path = "../env/io.rs"]
mod vio;
use super::*;

fn is_sep(b: u8) -> bool { b == b'/' || b == b'\\' }

/// reference written from the helper's documentation: -> (accept, expected bytes, expected length)
fn reference<const N: usize, const M: usize>(s: &[u8; N], preserve: bool) -> (bool, [u8; M], usize) {
    let mut out = [0u8; M];
    let mut len = 0usize;
    let mut last_start = 0usize; // start of the last component inside `out`
    let mut any = false;
    let mut i = 0usize;
    while i <= N {
        // component = s[start..i) ends at a separator or at the end
        let mut j = i;
        while j < N && !is_sep(s[j]) { j += 1; }
        let clen = j - i;
        if clen == 0 || (clen == 1 && s[i] == b'.') {
            // dropped
        } else if clen == 2 && s[i] == b'.' && s[i + 1] == b'.' {
            return (false, out, 0);
        } else {
            let mut k = i;
            while k < j { if s[k] == b':' { return (false, out, 0); } k += 1; }
            if any { out[len] = b'/'; len += 1; }
            last_start = len;
            let mut k = i;
            while k < j { out[len] = s[k]; len += 1; k += 1; }
            any = true;
        }
        i = j + 1;
    }
    if !any { return (false, out, 0); }
    if preserve { (true, out, len) } else {
        let mut o2 = [0u8; M];
        let mut k = last_start;
        while k < len { o2[k - last_start] = out[k]; k += 1; }
        (true, o2, len - last_start)
    }
}

fn decide<const N: usize, const M: usize>(preserve: bool) {
    let bytes: [u8; N] = kani::any();
    let s = match std::str::from_utf8(&bytes) { Ok(s) => s, Err(_) => return };
    let r = extraction_relative_path(s, preserve);
    let (accept, want, wlen) = reference::<N, M>(&bytes, preserve);
    kani::cover!(r.is_some(), "some name is accepted");
    kani::cover!(r.is_none(), "some name is rejected");
    match &r {
        None => assert!(!accept, "a harmless entry name is refused"),
        Some(p) => {
            let b = p.as_os_str().as_encoded_bytes();
            // ---- containment, stated on the bytes of the returned path
            assert!(!b.is_empty(), "empty relative path: extraction would write to the output directory itself");
            assert!(b[0] != b'/', "absolute path returned: join() would discard the output directory");
            let mut i = 0usize;
            let mut comp_len = 0usize;
            let mut dots_only = true;
            while i <= b.len() {
                if i == b.len() || b[i] == b'/' {
                    assert!(comp_len > 0 || i == b.len() && false || comp_len > 0, "empty component in the returned path");
                    assert!(!(dots_only && comp_len <= 2), "'.' or '..' component returned: extraction can leave the output directory");
                    comp_len = 0;
                    dots_only = true;
                } else {
                    assert!(b[i] != b'\\' && b[i] != b':', "separator or drive/stream marker survives in a component");
                    if b[i] != b'.' { dots_only = false; }
                    comp_len += 1;
                }
                i += 1;
            }
            // ---- function
            assert!(accept, "a name with a parent-directory / drive component (or without any component) is accepted");
            assert!(b.len() == wlen, "returned path is not the name's components joined by '/'");
            let k: usize = kani::any();
            kani::assume(k < wlen);
            assert!(b[k] == want[k], "returned path is not the name's components joined by '/'");
        }
    }
    std::mem::forget(r);
}

macro_rules! c11 {
    ($name:ident, $n:expr, $m:expr, $preserve:expr, $unw:expr) => {
        #[kani::proof]
        #[kani::unwind($unw)]
        #[kani::stub(std::fmt::format, vio::fmt_stub)]
        fn $name() { decide::<$n, $m>($preserve) }
    };
}
c11!(c11_path_preserve_n1, 1, 2, true, 6);
c11!(c11_path_preserve_n2, 2, 4, true, 7);
c11!(c11_path_preserve_n3, 3, 6, true, 8);
c11!(c11_path_preserve_n4, 4, 8, true, 9);
c11!(c11_path_preserve_n5, 5, 10, true, 10);
c11!(c11_path_preserve_n6, 6, 12, true, 11);
c11!(c11_path_flat_n1, 1, 2, false, 6);
c11!(c11_path_flat_n2, 2, 4, false, 7);
c11!(c11_path_flat_n3, 3, 6, false, 8);
c11!(c11_path_flat_n4, 4, 8, false, 9);
c11!(c11_path_flat_n5, 5, 10, false, 10);
c11!(c11_path_flat_n6, 6, 12, false, 11);

/// std's own path parser agrees: every component of the returned path is Component::Normal
#[kani::proof]
#[kani::unwind(8)]
#[kani::stub(std::fmt::format, vio::fmt_stub)]
fn c11_path_components_normal_n3() {
    let bytes: [u8; 3] = kani::any();
    let s = match std::str::from_utf8(&bytes) { Ok(s) => s, Err(_) => return };
    let preserve: bool = kani::any();
    let r = extraction_relative_path(s, preserve);
    if let Some(p) = &r {
        let mut n = 0;
        for c in p.components() {
            assert!(matches!(c, std::path::Component::Normal(_)), "returned path has a non-normal component (.., root or prefix)");
            n += 1;
        }
        kani::cover!(n == 2);
        assert!(n >= 1 && (preserve || n == 1), "component count of the returned path");
        assert!(p.is_relative());
    }
    std::mem::forget(r);
}

#[kani::proof]
#[kani::unwind(8)]
#[kani::stub(std::fmt::format, vio::fmt_stub)]
fn c11_canary() {
    let bytes: [u8; 2] = kani::any();
    let s = match std::str::from_utf8(&bytes) { Ok(s) => s, Err(_) => return };
    let r = extraction_relative_path(s, true);
    assert!(r.is_some(), "canary: must be reported as failing");
    std::mem::forget(r);
}
