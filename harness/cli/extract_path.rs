// C11 kernel: the containment decision `warcraft-rs mpq extract` makes for every archive entry name.
// Child module of warcraft-rs/src/commands/mpq.rs (entry_name_is_contained is private there).
// Decided for EVERY byte string of the bounded length:
//   entry_name_is_contained(name) is true exactly when no component (pieces between '\\' and '/') is ".."
//   or contains ':' and some component other than "." and "" exists.
// With that, the path extraction_relative_path builds (the same pieces, empty and "." dropped, joined) has normal
// components only, so output_dir.join(path) stays beneath output_dir.
#![allow(unused_imports, dead_code)]
#[path = "../env/io.rs"]
mod vio;
use super::*;

fn is_sep(b: u8) -> bool { b == b'/' || b == b'\\' }

/// the specification, stated position-wise (not as a scan with state): -> (hostile, named)
fn spec<const N: usize>(s: &[u8; N]) -> (bool, bool) {
    let mut hostile = false;
    let mut named = false;
    let mut i = 0;
    while i < N {
        let left = i == 0 || is_sep(s[i - 1]);
        if s[i] == b':' { hostile = true; }
        // a component that is exactly ".."
        if left && i + 1 < N && s[i] == b'.' && s[i + 1] == b'.' && (i + 2 == N || is_sep(s[i + 2])) { hostile = true; }
        // a byte of a component that is not "."
        if !is_sep(s[i]) && !(s[i] == b'.' && left && (i + 1 == N || is_sep(s[i + 1]))) { named = true; }
        i += 1;
    }
    (hostile, named)
}

fn decide<const N: usize>() {
    let bytes: [u8; N] = kani::any();
    // the function under test only looks at bytes; the bytes it tests for are ASCII and never part of a
    // multi-byte sequence, so UTF-8 validity of the rest is irrelevant to it
    let s = unsafe { std::str::from_utf8_unchecked(&bytes) };
    let got = entry_name_is_contained(s);
    let (hostile, named) = spec::<N>(&bytes);
    kani::cover!(got, "some name is accepted");
    kani::cover!(!got && hostile, "some hostile name is rejected");
    if got {
        assert!(!hostile, "an entry name with a '..' component or a ':' is accepted: extraction can leave the output directory");
        assert!(named, "an entry name without any component is accepted: extraction would write to the output directory itself");
    } else {
        assert!(hostile || !named, "a harmless entry name is refused");
    }
}

macro_rules! c11 {
    ($name:ident, $n:expr, $unw:expr) => {
        #[kani::proof]
        #[kani::unwind($unw)]
        #[kani::stub(std::fmt::format, vio::fmt_stub)]
        fn $name() { decide::<$n>() }
    };
}
c11!(c11_contained_n1, 1, 5);
c11!(c11_contained_n2, 2, 6);
c11!(c11_contained_n3, 3, 7);
c11!(c11_contained_n4, 4, 8);
c11!(c11_contained_n5, 5, 9);
c11!(c11_contained_n6, 6, 10);
c11!(c11_contained_n7, 7, 11);
c11!(c11_contained_n8, 8, 12);
c11!(c11_contained_n10, 10, 14);
c11!(c11_contained_n12, 12, 16);
c11!(c11_contained_n16, 16, 20);
c11!(c11_contained_n20, 20, 24);
c11!(c11_contained_n24, 24, 28);

#[kani::proof]
#[kani::unwind(8)]
#[kani::stub(std::fmt::format, vio::fmt_stub)]
fn c11_canary() {
    let bytes: [u8; 2] = kani::any();
    let s = unsafe { std::str::from_utf8_unchecked(&bytes) };
    assert!(entry_name_is_contained(s), "canary: must be reported as failing");
}
