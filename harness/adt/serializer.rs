// C14 (ADT build -> serialise -> parse).  Child module of wow-adt/src/builder/serializer.rs: sees the private
// offset-table kernels, write_chunk, write_mcnk_chunk, write_mh2o_chunk and ChunkPositions via `super::*`.
#![allow(unused_imports, dead_code)]
#[path = "../env/io.rs"]
mod vio;
use vio::{CountSink, Sink, Src};

use super::*;
use crate::chunk_header::ChunkHeader;
use crate::chunks::mcnk::{LiquidType, LiquidVertex, MclqChunk, McrfChunk, McseChunk, McshChunk, SoundEmitter, VertexColor, VertexNormal};
use crate::chunks::mh2o::{Mh2oAttributes, Mh2oEntry, Mh2oInstance};
use crate::chunks::{DoodadPlacement, MampChunk, MfboChunk, MtxfChunk, MtxpChunk, TextureHeightParams, WmoPlacement};
use crate::AdtVersion;
use binrw::BinRead;
use std::io::{self, Read};

/// unwrap without ever dropping a `Result`/error value (drop glue of binrw::Error is recursive and costs minutes)
macro_rules! ok {
    ($e:expr, $msg:expr) => {
        match $e {
            Ok(v) => v,
            Err(e) => {
                std::mem::forget(e);
                panic!($msg)
            }
        }
    };
}

/// Environment model for `TypeId == TypeId`: always false.  binrw asks `<dyn Any>::downcast_ref::<[u8; N] / Vec<u8>>`
/// before every array / Vec transfer to pick a byte-slice fast path; CBMC cannot fold the pointer-to-integer comparison
/// inside `TypeId::eq`, which makes the cursor position symbolic and every error path (with binrw::Error's recursive
/// drop glue) reachable for the solver.  With the fast path disabled the generic element-wise path moves the same bytes.
fn typeid_ne(_a: &std::any::TypeId, _b: &std::any::TypeId) -> bool { false }

// ------------------------------------------------------------------ environment: a file-like sink
/// Write+Seek into `[u8; N]` that, like a file, remembers its extent (`len`) independently of the cursor
/// (`serialize_to_writer` seeks back to patch MHDR/MCIN and leaves the cursor there).
pub struct FSink<const N: usize> {
    pub buf: [u8; N],
    pub pos: usize,
    pub len: usize,
}
impl<const N: usize> FSink<N> {
    pub fn new() -> Self { FSink { buf: [0u8; N], pos: 0, len: 0 } }
}
impl<const N: usize> Write for FSink<N> {
    fn write(&mut self, b: &[u8]) -> io::Result<usize> {
        let n = b.len();
        if self.pos > N || n > N - self.pos {
            return Err(io::Error::from(io::ErrorKind::WriteZero));
        }
        self.buf[self.pos..self.pos + n].copy_from_slice(b);
        self.pos += n;
        if self.pos > self.len { self.len = self.pos; }
        Ok(n)
    }
    fn write_all(&mut self, b: &[u8]) -> io::Result<()> { self.write(b).map(|_| ()) }
    fn flush(&mut self) -> io::Result<()> { Ok(()) }
}
impl<const N: usize> Seek for FSink<N> {
    fn seek(&mut self, s: SeekFrom) -> io::Result<u64> {
        let np: i128 = match s {
            SeekFrom::Start(o) => o as i128,
            SeekFrom::Current(d) => self.pos as i128 + d as i128,
            SeekFrom::End(d) => self.len as i128 + d as i128,
        };
        if np < 0 || np > N as i128 {
            return Err(io::Error::from(io::ErrorKind::InvalidInput));
        }
        self.pos = np as usize;
        Ok(np as u64)
    }
}

// ------------------------------------------------------------------ reference: the chunk framing of the format
fn le32(b: &[u8], p: usize) -> u32 { u32::from_le_bytes([b[p], b[p + 1], b[p + 2], b[p + 3]]) }

/// IFF-style framing as published for ADT v18: magic(4) size(4, LE) payload(size), repeated.
/// Some(number of chunks) iff `b[..len]` is tiled exactly by at most `max` chunks.
fn walk(b: &[u8], len: usize, max: usize) -> Option<usize> {
    let mut p = 0usize;
    let mut n = 0usize;
    while p < len {
        if n == max || len - p < 8 { return None; }
        let sz = le32(b, p + 4) as usize;
        if sz > len - p - 8 { return None; }
        p += 8 + sz;
        n += 1;
    }
    Some(n)
}

fn is_magic(b: &[u8], p: usize, id: ChunkId) -> bool {
    b[p] == id.0[0] && b[p + 1] == id.0[1] && b[p + 2] == id.0[2] && b[p + 3] == id.0[3]
}

// ================================================================== C14.a offset-table kernels
fn opt_pos() -> Option<u64> { if kani::any() { Some(kani::any()) } else { None } }

/// MHDR: every offset + MHDR data start == position the serializer recorded; flags <=> presence
#[kani::proof]
#[kani::stub(std::fmt::format, vio::fmt_stub)]
#[kani::stub(std::any::TypeId::eq, typeid_ne)]
#[kani::unwind(4)]
fn c14a_mhdr_offsets() {
    let p = ChunkPositions {
        mhdr_data_start: kani::any(), mcin_data_start: kani::any(), mtex: kani::any(), mmdx: kani::any(),
        mmid: kani::any(), mwmo: kani::any(), mwid: kani::any(), mddf: kani::any(), modf: kani::any(),
        mfbo: opt_pos(), mh2o: opt_pos(), mtxf: opt_pos(), mamp: opt_pos(), mtxp: opt_pos(),
        mbmh: opt_pos(), mbbb: opt_pos(), mbnv: opt_pos(), mbmi: opt_pos(),
        mcnk_start: kani::any(), mcnk_entries: Vec::new(),
    };
    let base = p.mhdr_data_start;
    // what serialize_to_writer guarantees: MHDR data behind a chunk header, every later chunk behind MHDR's
    // 64 bytes, file smaller than 4 GiB
    let lim = u32::MAX as u64;
    kani::assume(base >= 8 && base <= lim && p.mcin_data_start <= lim && p.mcin_data_start >= base + 64 + 8);
    kani::assume(p.mtex >= p.mcin_data_start && p.mtex <= lim);
    kani::assume(p.mmdx > p.mtex && p.mmid > p.mmdx && p.mwmo > p.mmid && p.mwid > p.mwmo && p.mddf > p.mwid && p.modf > p.mddf);
    kani::assume(p.modf <= lim);
    let after = |o: Option<u64>| match o { Some(x) => x > p.modf && x <= lim, None => true };
    kani::assume(after(p.mfbo) && after(p.mh2o) && after(p.mtxf));
    let h = calculate_mhdr_offsets(&p);
    kani::cover!(p.mfbo.is_some() && p.mh2o.is_none());
    assert!(h.mcin_offset as u64 + base + 8 == p.mcin_data_start, "MHDR.mcin_offset does not point at the MCIN chunk header");
    assert!(h.mtex_offset as u64 + base == p.mtex, "MHDR.mtex_offset != MTEX position - MHDR data start");
    assert!(h.mmdx_offset as u64 + base == p.mmdx, "MHDR.mmdx_offset != MMDX position - MHDR data start");
    assert!(h.mmid_offset as u64 + base == p.mmid, "MHDR.mmid_offset != MMID position - MHDR data start");
    assert!(h.mwmo_offset as u64 + base == p.mwmo, "MHDR.mwmo_offset != MWMO position - MHDR data start");
    assert!(h.mwid_offset as u64 + base == p.mwid, "MHDR.mwid_offset != MWID position - MHDR data start");
    assert!(h.mddf_offset as u64 + base == p.mddf, "MHDR.mddf_offset != MDDF position - MHDR data start");
    assert!(h.modf_offset as u64 + base == p.modf, "MHDR.modf_offset != MODF position - MHDR data start");
    match p.mfbo {
        Some(x) => assert!(h.mfbo_offset as u64 + base == x && h.flags & 1 == 1, "MFBO written but MHDR offset/flag 0x1 wrong"),
        None => assert!(h.mfbo_offset == 0 && h.flags & 1 == 0, "MFBO absent but MHDR offset/flag 0x1 set"),
    }
    match p.mh2o {
        Some(x) => assert!(h.mh2o_offset as u64 + base == x && h.flags & 2 == 2, "MH2O written but MHDR offset/flag 0x2 wrong"),
        None => assert!(h.mh2o_offset == 0 && h.flags & 2 == 0, "MH2O absent but MHDR offset/flag 0x2 set"),
    }
    match p.mtxf {
        Some(x) => assert!(h.mtxf_offset as u64 + base == x, "MTXF written but MHDR.mtxf_offset wrong"),
        None => assert!(h.mtxf_offset == 0, "MTXF absent but MHDR.mtxf_offset set"),
    }
    assert!(h.flags & !3 == 0 && h.flags == calculate_mhdr_flags(&p), "MHDR flags carry bits other than MFBO/MH2O presence");
    assert!(h.unused1 == 0 && h.unused2 == 0 && h.unused3 == 0 && h.unused4 == 0);
    std::mem::forget(p);
}

/// MCIN: entry i == (offset_i, size_i, 0, 0) for the k chunks written, zero entries up to 256
fn mcin_entries(k: usize) {
    let mut p = ChunkPositions::default();
    let mut i = 0;
    while i < k {
        let off: u64 = kani::any();
        kani::assume(off <= u32::MAX as u64);
        p.mcnk_entries.push((off, kani::any()));
        i += 1;
    }
    let m = calculate_mcin_entries(&p);
    assert!(m.entries.len() == 256, "MCIN does not have 256 entries");
    let j: usize = kani::any();
    kani::assume(j < 256);
    kani::cover!(j == 255);
    if j < k {
        let (off, size) = p.mcnk_entries[j];
        let e = m.entries[j];
        assert!(e.offset as u64 == off && e.size == size && e.flags == 0 && e.async_id == 0, "MCIN entry != (offset, size) of the MCNK written");
    } else {
        assert!(m.entries[j] == McinEntry::default(), "MCIN padding entry not zero");
    }
    std::mem::forget((p, m));
}
#[kani::proof]
#[kani::stub(std::fmt::format, vio::fmt_stub)]
#[kani::stub(std::any::TypeId::eq, typeid_ne)]
#[kani::unwind(258)]
fn c14a_mcin_entries_k0() { mcin_entries(0) }
#[kani::proof]
#[kani::stub(std::fmt::format, vio::fmt_stub)]
#[kani::stub(std::any::TypeId::eq, typeid_ne)]
#[kani::unwind(258)]
fn c14a_mcin_entries_k1() { mcin_entries(1) }
#[kani::proof]
#[kani::stub(std::fmt::format, vio::fmt_stub)]
#[kani::stub(std::any::TypeId::eq, typeid_ne)]
#[kani::unwind(258)]
fn c14a_mcin_entries_k3() { mcin_entries(3) }

// ================================================================== C14.b MMID / MWID offsets
fn ascii_name<const L: usize>() -> ([u8; L], String) {
    let a: [u8; L] = kani::any();
    let mut i = 0;
    while i < L {
        kani::assume(a[i] != 0 && a[i] < 0x80);
        i += 1;
    }
    (a, unsafe { String::from_utf8_unchecked(a.to_vec()) })
}

fn name_at(buf: &[u8], off: usize, name: &[u8], first: bool) {
    let j: usize = kani::any();
    kani::assume(j < name.len());
    assert!(buf[off + j] == name[j], "index-chunk offset does not point at the name it was computed for");
    assert!(buf[off + name.len()] == 0, "name not NUL-terminated where the index chunk expects its end");
    if !first {
        assert!(buf[off - 1] == 0, "index-chunk offset points into the middle of a name");
    }
}

macro_rules! index_offsets {
    ($name:ident, $create_names:ident, $create_index:ident, $l0:expr, $l1:expr, $l2:expr) => {
        #[kani::proof]
        #[kani::stub(std::fmt::format, vio::fmt_stub)]
        #[kani::stub(std::any::TypeId::eq, typeid_ne)]
        #[kani::unwind(8)]
        fn $name() {
            let (a, sa) = ascii_name::<$l0>();
            let (b, sb) = ascii_name::<$l1>();
            let (c, sc) = ascii_name::<$l2>();
            let mut names: Vec<String> = Vec::new();
            names.push(sa);
            names.push(sb);
            names.push(sc);
            let strings = $create_names(&names);
            let index = $create_index(&names);
            let mut out = Sink::<24>::new();
            ok!(strings.write_le(&mut out), "string chunk cannot be serialised");
            kani::cover!(out.pos == $l0 + $l1 + $l2 + 3);
            assert!(out.pos == $l0 + $l1 + $l2 + 3, "string chunk payload != sum(len + 1)");
            assert!(index.offsets.len() == 3, "index chunk does not have one offset per name");
            let i: usize = kani::any();
            kani::assume(i < 3);
            let off = index.offsets[i] as usize;
            assert!(off < out.pos, "index-chunk offset outside the string chunk");
            match i {
                0 => name_at(&out.buf, off, &a, true),
                1 => name_at(&out.buf, off, &b, false),
                _ => name_at(&out.buf, off, &c, false),
            }
            // the reader-side resolution of an offset finds the same name index
            assert!(index.get_filename_index(&strings, index.offsets[i]) == Some(i), "reader resolves the written offset to another name");
            assert!(index.validate_offsets(out.pos), "written offsets rejected by the reader-side bound check");
            std::mem::forget((names, strings, index));
        }
    };
}
index_offsets!(c14b_mmid_offsets_3_1_2, create_mmdx_chunk, create_mmid_chunk, 3, 1, 2);
index_offsets!(c14b_mwid_offsets_1_3_2, create_mwmo_chunk, create_mwid_chunk, 1, 3, 2);

// ================================================================== C14.c write_chunk framing
/// two chunks written back to back: declared size == payload written, chunk 2 starts where chunk 1 ends,
/// the reference walker tiles the output, payloads read back
#[kani::proof]
#[kani::stub(std::fmt::format, vio::fmt_stub)]
#[kani::stub(std::any::TypeId::eq, typeid_ne)]
#[kani::unwind(20)]
fn c14c_write_chunk_mver_mfbo() {
    let mver = MverChunk { version: kani::any() };
    let mfbo = MfboChunk { max_plane: kani::any(), min_plane: kani::any() };
    let mut out = FSink::<64>::new();
    ok!(write_chunk(&mut out, ChunkId::MVER, &mver), "write_chunk fails");
    assert!(out.pos == 12 && out.len == 12, "MVER chunk is not 8 + 4 bytes / cursor not at its end");
    ok!(write_chunk(&mut out, ChunkId::MFBO, &mfbo), "write_chunk fails");
    kani::cover!(out.len == 56);
    assert!(out.pos == out.len, "cursor not at end of file after write_chunk");
    assert!(is_magic(&out.buf, 0, ChunkId::MVER) && le32(&out.buf, 4) == 4, "MVER header wrong");
    assert!(is_magic(&out.buf, 12, ChunkId::MFBO), "second chunk does not start where the first ends");
    assert!(le32(&out.buf, 16) as usize + 8 + 12 == out.len, "declared chunk size != bytes written");
    assert!(le32(&out.buf, 16) == 36, "MFBO payload is not 2 x 9 i16");
    assert!(walk(&out.buf, out.len, 2) == Some(2), "chunk framing does not tile the output");
    assert!(le32(&out.buf, 8) == mver.version);
    let mut src = Src::<64>::new(out.buf, out.len);
    src.pos = 20;
    let d = ok!(MfboChunk::read_le(&mut src), "MFBO payload written by write_chunk is rejected by the reader");
    let i: usize = kani::any();
    kani::assume(i < 9);
    assert!(d.max_plane[i] == mfbo.max_plane[i] && d.min_plane[i] == mfbo.min_plane[i], "MFBO planes changed in write->read");
}

/// MHDR placeholder + MAMP: sizes 64 and 4
#[kani::proof]
#[kani::stub(std::fmt::format, vio::fmt_stub)]
#[kani::stub(std::any::TypeId::eq, typeid_ne)]
#[kani::unwind(20)]
fn c14c_write_chunk_mhdr_mamp() {
    let mut h = MhdrChunk::default();
    h.flags = kani::any();
    h.mtxf_offset = kani::any();
    let mamp = MampChunk { amplifier: kani::any() };
    let mut out = FSink::<96>::new();
    ok!(write_chunk(&mut out, ChunkId::MHDR, &h), "write_chunk fails");
    ok!(write_chunk(&mut out, ChunkId::MAMP, &mamp), "write_chunk fails");
    kani::cover!(out.len == 84);
    assert!(le32(&out.buf, 4) == 64, "MHDR payload is not 64 bytes");
    assert!(is_magic(&out.buf, 72, ChunkId::MAMP) && le32(&out.buf, 76) == 4, "MAMP chunk not 8 + 4 bytes behind MHDR");
    assert!(walk(&out.buf, out.len, 2) == Some(2), "chunk framing does not tile the output");
    assert!(le32(&out.buf, 8) == h.flags && le32(&out.buf, 8 + 44) == h.mtxf_offset, "MHDR field order: flags first, mtxf_offset 12th");
    assert!(le32(&out.buf, 80) == mamp.amplifier);
}

// ================================================================== C14.d records: write(read(b)) == b
macro_rules! bytes_roundtrip {
    ($name:ident, $ty:ty, $n:expr, $cap:expr) => {
        #[kani::proof]
        #[kani::stub(std::fmt::format, vio::fmt_stub)]
        #[kani::stub(std::any::TypeId::eq, typeid_ne)]
        #[kani::unwind(20)]
        fn $name() {
            let b: [u8; $n] = kani::any();
            let mut src = Src::<$n>::new(b, $n);
            let c = ok!(<$ty>::read_le(&mut src), "record of the documented size is rejected");
            assert!(src.pos == $n, "reader did not consume the documented record size");
            let mut out = Sink::<$cap>::new();
            ok!(c.write_le(&mut out), "record cannot be serialised");
            kani::cover!(out.pos == $n);
            assert!(out.pos == $n, "writer did not produce the documented record size");
            let i: usize = kani::any();
            kani::assume(i < $n);
            assert!(out.buf[i] == b[i], "write(read(b)) != b");
            std::mem::forget(c);
        }
    };
}
bytes_roundtrip!(c14d_rec_doodad_placement, DoodadPlacement, 36, 40);
bytes_roundtrip!(c14d_rec_wmo_placement, WmoPlacement, 64, 72);
bytes_roundtrip!(c14d_rec_mcly_layer, MclyLayer, 16, 16);
bytes_roundtrip!(c14d_rec_sound_emitter, SoundEmitter, 28, 32);
bytes_roundtrip!(c14d_rec_texture_height_params, TextureHeightParams, 16, 16);
bytes_roundtrip!(c14d_rec_mh2o_header, Mh2oHeader, 12, 16);
bytes_roundtrip!(c14d_rec_mh2o_instance, Mh2oInstance, 24, 24);
bytes_roundtrip!(c14d_rec_mh2o_attributes, Mh2oAttributes, 16, 16);
bytes_roundtrip!(c14d_rec_mcin_entry, McinEntry, 16, 16);
bytes_roundtrip!(c14d_rec_mfbo, MfboChunk, 36, 40);
bytes_roundtrip!(c14d_rec_mhdr, MhdrChunk, 64, 64);
bytes_roundtrip!(c14d_rec_chunk_header, ChunkHeader, 8, 8);

// ================================================================== C14.e MCNK: write_mcnk_chunk -> parse_with_offset_and_size
/// header with every field arbitrary, including stale offsets/sizes/counts the writer has to recompute
fn header_any() -> McnkHeader {
    McnkHeader {
        flags: McnkFlags { value: kani::any() },
        index_x: kani::any(), index_y: kani::any(), n_layers: kani::any(), n_doodad_refs: kani::any(),
        multipurpose_field: kani::any(), ofs_layer: kani::any(), ofs_refs: kani::any(), ofs_alpha: kani::any(),
        size_alpha: kani::any(), ofs_shadow: kani::any(), size_shadow: kani::any(), area_id: kani::any(),
        n_map_obj_refs: kani::any(), holes_low_res: kani::any(), unknown_but_used: kani::any(), pred_tex: kani::any(),
        no_effect_doodad: kani::any(), unknown_8bytes: kani::any(), ofs_snd_emitters: kani::any(),
        n_snd_emitters: kani::any(), ofs_liquid: kani::any(), size_liquid: kani::any(),
        position: [kani::any(), kani::any(), kani::any()], ofs_mccv: kani::any(), ofs_mclv: kani::any(),
        unused: 0, _padding: [0; 8],
    }
}

fn empty_mcnk(header: McnkHeader) -> McnkChunk {
    McnkChunk { header, heights: None, normals: None, layers: None, materials: None, refs: None, doodad_refs: None,
        wmo_refs: None, alpha: None, shadow: None, vertex_colors: None, vertex_lighting: None, sound_emitters: None,
        liquid: None, doodad_disable: None, blend_batches: None }
}

/// the fields of the MCNK header that are content (not recomputed by the writer) survive
fn header_content_eq(a: &McnkHeader, b: &McnkHeader) -> bool {
    a.flags.value == b.flags.value && a.index_x == b.index_x && a.index_y == b.index_y && a.n_doodad_refs == b.n_doodad_refs
        && a.area_id == b.area_id && a.n_map_obj_refs == b.n_map_obj_refs && a.holes_low_res == b.holes_low_res
        && a.unknown_but_used == b.unknown_but_used && u64::from_le_bytes(a.pred_tex) == u64::from_le_bytes(b.pred_tex)
        && u64::from_le_bytes(a.no_effect_doodad) == u64::from_le_bytes(b.no_effect_doodad)
        && u64::from_le_bytes(a.unknown_8bytes) == u64::from_le_bytes(b.unknown_8bytes)
        && a.position[0].to_bits() == b.position[0].to_bits() && a.position[1].to_bits() == b.position[1].to_bits()
        && a.position[2].to_bits() == b.position[2].to_bits()
}

const AT: usize = 16; // the MCNK under test starts at file offset 16 (relative vs absolute offsets differ)

fn write_at<const N: usize>(c: &McnkChunk) -> FSink<N> {
    let mut out = FSink::<N>::new();
    ok!(out.write_all(&[0xEEu8; AT]), "filler write fails");
    ok!(write_mcnk_chunk(&mut out, c), "write_mcnk_chunk fails on a well-formed chunk");
    assert!(out.pos == out.len, "cursor not at the end of the MCNK after write_mcnk_chunk");
    assert!(is_magic(&out.buf, AT, ChunkId::MCNK), "MCNK magic missing");
    assert!(le32(&out.buf, AT + 4) as usize + AT + 8 == out.len, "declared MCNK size != bytes written");
    out
}

fn parse_at<const N: usize>(out: &FSink<N>) -> binrw::BinResult<McnkChunk> {
    let mut src = Src::<N>::new(out.buf, out.len);
    src.pos = AT + 8;
    McnkChunk::parse_with_offset_and_size(&mut src, AT as u64, le32(&out.buf, AT + 4))
}

/// sub-chunks tile the MCNK payload behind the 136-byte header
fn subchunks_tile<const N: usize>(out: &FSink<N>, k: usize) {
    assert!(walk(&out.buf[AT + 144..], out.len - AT - 144, k) == Some(k), "MCNK sub-chunk framing does not tile the MCNK payload");
}

/// parse -> write again reproduces the bytes (no growth, no drift)
fn rewrite_is_stable<const N: usize>(out: &FSink<N>, d: &McnkChunk) {
    let out2 = write_at::<N>(d);
    assert!(out2.len == out.len, "MCNK re-serialised after parsing has a different size");
    let i: usize = kani::any();
    kani::assume(i < out.len);
    assert!(out2.buf[i] == out.buf[i], "MCNK re-serialised after parsing differs from the first serialisation");
}

/// no sub-chunks: header content survives, stale offsets/sizes/counts are cleared, nothing is invented
#[kani::proof]
#[kani::stub(std::fmt::format, vio::fmt_stub)]
#[kani::stub(std::any::TypeId::eq, typeid_ne)]
#[kani::unwind(12)]
fn c14e_mcnk_bare_header() {
    let c = empty_mcnk(header_any());
    let out = write_at::<176>(&c);
    kani::cover!(out.len == AT + 144);
    assert!(out.len == AT + 8 + 136, "MCNK without sub-chunks is not 8 + 136 bytes");
    let d = ok!(parse_at(&out), "MCNK written by the serializer is rejected by the parser");
    assert!(header_content_eq(&d.header, &c.header), "MCNK header content changed in write->parse");
    let h = &d.header;
    assert!(h.n_layers == 0 && h.ofs_layer == 0 && h.ofs_refs == 0 && h.ofs_alpha == 0 && h.size_alpha == 0 && h.ofs_shadow == 0
        && h.size_shadow == 0 && h.ofs_snd_emitters == 0 && h.n_snd_emitters == 0 && h.ofs_liquid == 0 && h.size_liquid == 0
        && h.ofs_mccv == 0 && h.ofs_mclv == 0, "stale sub-chunk offset/size/count survives although the sub-chunk is not written");
    assert!(d.heights.is_none() && d.normals.is_none() && d.layers.is_none() && d.refs.is_none() && d.doodad_refs.is_none()
        && d.wmo_refs.is_none() && d.alpha.is_none() && d.shadow.is_none() && d.vertex_colors.is_none() && d.vertex_lighting.is_none()
        && d.sound_emitters.is_none() && d.liquid.is_none(), "parser invents a sub-chunk that was not written");
    std::mem::forget((c, d));
}

fn layer_any() -> MclyLayer {
    MclyLayer { texture_id: kani::any(), flags: crate::chunks::mcnk::MclyFlags { value: kani::any() }, offset_in_mcal: kani::any(), effect_id: kani::any() }
}
fn emitter_any() -> SoundEmitter {
    SoundEmitter { sound_entry_id: kani::any(), position: [kani::any(), kani::any(), kani::any()],
        size_min: [kani::any(), kani::any(), kani::any()], _padding: [] }
}
fn emitter_eq(a: &SoundEmitter, b: &SoundEmitter) -> bool {
    a.sound_entry_id == b.sound_entry_id && a.position[0].to_bits() == b.position[0].to_bits()
        && a.position[1].to_bits() == b.position[1].to_bits() && a.position[2].to_bits() == b.position[2].to_bits()
        && a.size_min[0].to_bits() == b.size_min[0].to_bits() && a.size_min[1].to_bits() == b.size_min[1].to_bits()
        && a.size_min[2].to_bits() == b.size_min[2].to_bits()
}

/// texture layers + sound emitters: counts, offsets, content, stable re-serialisation
#[kani::proof]
#[kani::stub(std::fmt::format, vio::fmt_stub)]
#[kani::stub(std::any::TypeId::eq, typeid_ne)]
#[kani::unwind(12)]
fn c14e_mcnk_layers_emitters() {
    let mut c = empty_mcnk(header_any());
    let mut layers = Vec::new();
    layers.push(layer_any());
    layers.push(layer_any());
    c.layers = Some(MclyChunk { layers });
    let mut emitters = Vec::new();
    emitters.push(emitter_any());
    c.sound_emitters = Some(McseChunk { emitters });
    let out = write_at::<256>(&c);
    kani::cover!(out.len == AT + 144 + 40 + 36);
    subchunks_tile(&out, 2);
    let d = ok!(parse_at(&out), "MCNK written by the serializer is rejected by the parser");
    assert!(header_content_eq(&d.header, &c.header), "MCNK header content changed in write->parse");
    assert!(d.header.n_layers == 2 && d.header.n_snd_emitters == 1, "MCNK header counts != list lengths");
    assert!(is_magic(&out.buf, AT + d.header.ofs_layer as usize, ChunkId::MCLY), "ofs_layer does not point at an MCLY chunk");
    assert!(is_magic(&out.buf, AT + d.header.ofs_snd_emitters as usize, ChunkId::MCSE), "ofs_snd_emitters does not point at an MCSE chunk");
    assert!(d.layers.is_some() && d.sound_emitters.is_some(), "written sub-chunk not found by the parser");
    let dl = d.layers.as_ref().unwrap();
    let cl = c.layers.as_ref().unwrap();
    assert!(dl.layers.len() == 2 && dl.layers[0] == cl.layers[0] && dl.layers[1] == cl.layers[1], "MCLY layers changed in write->parse");
    let de = d.sound_emitters.as_ref().unwrap();
    assert!(de.emitters.len() == 1 && emitter_eq(&de.emitters[0], &c.sound_emitters.as_ref().unwrap().emitters[0]), "MCSE emitter changed in write->parse");
    assert!(d.heights.is_none() && d.normals.is_none() && d.refs.is_none() && d.alpha.is_none() && d.shadow.is_none()
        && d.vertex_colors.is_none() && d.vertex_lighting.is_none() && d.liquid.is_none(), "parser invents a sub-chunk that was not written");
    rewrite_is_stable(&out, &d);
    std::mem::forget((c, d));
}

/// MCRF object references: survive when the header counts describe the list
fn mcnk_with_refs(n_doodad: u32, n_wmo: u32) -> McnkChunk {
    let mut c = empty_mcnk(header_any());
    c.header.n_doodad_refs = n_doodad;
    c.header.n_map_obj_refs = n_wmo;
    let mut references = Vec::new();
    references.push(kani::any());
    references.push(kani::any());
    c.refs = Some(McrfChunk { references });
    c
}

#[kani::proof]
#[kani::stub(std::fmt::format, vio::fmt_stub)]
#[kani::stub(std::any::TypeId::eq, typeid_ne)]
#[kani::unwind(12)]
fn c14e_mcnk_refs() {
    let nd: u32 = kani::any();
    kani::assume(nd <= 2);
    // documented contract of MCRF (McrfChunk::validate_counts): the two header counts add up to the list length
    let c = mcnk_with_refs(nd, 2 - nd);
    let out = write_at::<192>(&c);
    kani::cover!(out.len == AT + 144 + 16);
    subchunks_tile(&out, 1);
    let d = ok!(parse_at(&out), "MCNK written by the serializer is rejected by the parser");
    assert!(header_content_eq(&d.header, &c.header), "MCNK header content changed in write->parse");
    assert!(is_magic(&out.buf, AT + d.header.ofs_refs as usize, ChunkId::MCRF), "ofs_refs does not point at an MCRF chunk");
    assert!(d.refs.is_some(), "MCRF written but not found by the parser");
    let dr = d.refs.as_ref().unwrap();
    let cr = c.refs.as_ref().unwrap();
    assert!(dr.references.len() == 2 && dr.references[0] == cr.references[0] && dr.references[1] == cr.references[1], "MCRF references changed in write->parse");
    // known finding mcrf-phantom: the parser also returns the same bytes as MCRD and MCRW (doodad_refs / wmo_refs),
    // so `d.doodad_refs.is_none() && d.wmo_refs.is_none()` and size-stability of parse->write are not asserted here
    // (see c14e_mcnk_refs_rewrite_grows_witness)
    std::mem::forget((c, d));
}

/// witness KF-C14-mcrf-phantom: one MCRF with 2 references, parsed and written again, is 32 bytes longer
#[kani::proof]
#[kani::stub(std::fmt::format, vio::fmt_stub)]
#[kani::stub(std::any::TypeId::eq, typeid_ne)]
#[kani::unwind(12)]
fn c14e_mcnk_refs_rewrite_grows_witness() {
    let mut c = empty_mcnk(header_zero());
    c.header.n_doodad_refs = 2;
    let mut references = Vec::new();
    references.push(1u32);
    references.push(2u32);
    c.refs = Some(McrfChunk { references });
    let mut out = FSink::<256>::new();
    ok!(write_mcnk_chunk(&mut out, &c), "write fails");
    let mut src = Src::<256>::new(out.buf, out.len);
    src.pos = 8;
    let d = ok!(McnkChunk::parse_with_offset_and_size(&mut src, 0, le32(&out.buf, 4)), "parse fails");
    let mut out2 = FSink::<256>::new();
    ok!(write_mcnk_chunk(&mut out2, &d), "rewrite fails");
    assert!(out2.len == out.len, "MCNK with MCRF grows when it is parsed and serialised again");
    std::mem::forget((c, d));
}

/// witness KF-C14-mcrf-counts: the writer does not derive the MCRF counts from the list, the parser needs them
#[kani::proof]
#[kani::stub(std::fmt::format, vio::fmt_stub)]
#[kani::stub(std::any::TypeId::eq, typeid_ne)]
#[kani::unwind(12)]
fn c14e_mcnk_refs_zero_counts_witness() {
    let mut c = empty_mcnk(header_zero());
    let mut references = Vec::new();
    references.push(1u32);
    references.push(2u32);
    c.refs = Some(McrfChunk { references });
    let mut out = FSink::<192>::new();
    ok!(write_mcnk_chunk(&mut out, &c), "write fails");
    let mut src = Src::<192>::new(out.buf, out.len);
    src.pos = 8;
    let d = ok!(McnkChunk::parse_with_offset_and_size(&mut src, 0, le32(&out.buf, 4)), "parse fails");
    assert!(d.refs.is_some(), "MCRF written by the serializer is not returned by the parser (header ref counts left at 0)");
    std::mem::forget((c, d));
}

fn header_zero() -> McnkHeader {
    McnkHeader { flags: McnkFlags { value: 0 }, index_x: 0, index_y: 0, n_layers: 0, n_doodad_refs: 0, multipurpose_field: [0; 8],
        ofs_layer: 0, ofs_refs: 0, ofs_alpha: 0, size_alpha: 0, ofs_shadow: 0, size_shadow: 0, area_id: 0, n_map_obj_refs: 0,
        holes_low_res: 0, unknown_but_used: 0, pred_tex: [0; 8], no_effect_doodad: [0; 8], unknown_8bytes: [0; 8], ofs_snd_emitters: 0,
        n_snd_emitters: 0, ofs_liquid: 0, size_liquid: 0, position: [0.0; 3], ofs_mccv: 0, ofs_mclv: 0, unused: 0, _padding: [0; 8] }
}

/// witness KF-C14-mcnk-tail-dropped: MCDD (like MCMT, MCBB) is written by the serializer but never read back
#[kani::proof]
#[kani::stub(std::fmt::format, vio::fmt_stub)]
#[kani::stub(std::any::TypeId::eq, typeid_ne)]
#[kani::unwind(66)]
fn c14e_mcnk_mcdd_dropped_witness() {
    let mut c = empty_mcnk(header_zero());
    c.doodad_disable = Some(crate::chunks::mcnk::McddChunk { disable: [0xFF; 64] });
    let mut out = FSink::<256>::new();
    ok!(write_mcnk_chunk(&mut out, &c), "write fails");
    assert!(out.len == 8 + 136 + 8 + 64);
    let mut src = Src::<256>::new(out.buf, out.len);
    src.pos = 8;
    let d = ok!(McnkChunk::parse_with_offset_and_size(&mut src, 0, le32(&out.buf, 4)), "parse fails");
    assert!(d.doodad_disable.is_some(), "MCDD sub-chunk written by the serializer is lost by the parser");
    std::mem::forget((c, d));
}

// ------------------------------------------------------------------ 145-vertex sub-chunks (MCVT, MCNR, MCCV, MCLV)
fn heights_any() -> McvtChunk {
    let mut heights = Vec::with_capacity(145);
    let mut i = 0;
    while i < 145 {
        heights.push(kani::any::<f32>());
        i += 1;
    }
    McvtChunk { heights }
}
fn normals_any() -> McnrChunk {
    let mut normals = Vec::with_capacity(145);
    let mut i = 0;
    while i < 145 {
        normals.push(VertexNormal { x: kani::any(), z: kani::any(), y: kani::any() });
        i += 1;
    }
    let mut padding = Vec::with_capacity(13);
    let mut j = 0;
    while j < 13 {
        padding.push(0u8);
        j += 1;
    }
    McnrChunk { normals, padding }
}
fn colors_any() -> MccvChunk {
    let mut colors = Vec::with_capacity(145);
    let mut i = 0;
    while i < 145 {
        colors.push(VertexColor { b: kani::any(), g: kani::any(), r: kani::any(), a: kani::any() });
        i += 1;
    }
    MccvChunk { colors }
}

/// heights + normals: the two offsets packed into the multipurpose field point at MCVT / MCNR, every vertex survives
#[kani::proof]
#[kani::stub(std::fmt::format, vio::fmt_stub)]
#[kani::stub(std::any::TypeId::eq, typeid_ne)]
#[kani::unwind(147)]
fn c14e_mcnk_heights_normals() {
    let mut c = empty_mcnk(header_any());
    // flag 0x200 re-purposes the multipurpose field as a hole bitmap (MoP 5.3+); the builder's writer always stores offsets
    c.header.flags.value &= !0x200;
    c.heights = Some(heights_any());
    c.normals = Some(normals_any());
    let out = write_at::<1280>(&c);
    kani::cover!(out.len == AT + 144 + 588 + 456);
    assert!(out.len == AT + 144 + (8 + 145 * 4) + (8 + 145 * 3 + 13), "MCVT/MCNR sizes are not 145 floats / 145 x 3 bytes + 13 padding");
    subchunks_tile(&out, 2);
    let d = ok!(parse_at(&out), "MCNK written by the serializer is rejected by the parser");
    assert!(header_content_eq(&d.header, &c.header), "MCNK header content changed in write->parse");
    assert!(is_magic(&out.buf, AT + d.header.ofs_height() as usize, ChunkId::MCVT), "height offset does not point at an MCVT chunk");
    assert!(is_magic(&out.buf, AT + d.header.ofs_normal() as usize, ChunkId::MCNR), "normal offset does not point at an MCNR chunk");
    assert!(d.heights.is_some() && d.normals.is_some(), "MCVT/MCNR written but not found by the parser");
    let dh = d.heights.as_ref().unwrap();
    let dn = d.normals.as_ref().unwrap();
    assert!(dh.heights.len() == 145 && dn.normals.len() == 145, "vertex count changed");
    let i: usize = kani::any();
    kani::assume(i < 145);
    assert!(dh.heights[i].to_bits() == c.heights.as_ref().unwrap().heights[i].to_bits(), "height changed or moved in write->parse");
    let (a, b) = (dn.normals[i], c.normals.as_ref().unwrap().normals[i]);
    assert!(a.x == b.x && a.y == b.y && a.z == b.z, "normal changed or its components were swapped in write->parse");
    assert!(dn.padding.len() == 13, "MCNR padding is not 13 bytes after parse");
    std::mem::forget((c, d));
}

/// vertex colours: survive when MCNK flag 0x40 (has_mccv) is set
#[kani::proof]
#[kani::stub(std::fmt::format, vio::fmt_stub)]
#[kani::stub(std::any::TypeId::eq, typeid_ne)]
#[kani::unwind(147)]
fn c14e_mcnk_vertex_colors() {
    let mut c = empty_mcnk(header_any());
    // known finding mccv-flag: the writer stores MCCV and its offset but leaves flag 0x40 to the caller, the parser
    // ignores the offset unless the flag is set (see c14e_mcnk_vertex_colors_flag_witness)
    c.header.flags.value |= 0x40;
    c.vertex_colors = Some(colors_any());
    let out = write_at::<768>(&c);
    kani::cover!(out.len == AT + 144 + 8 + 580);
    subchunks_tile(&out, 1);
    let d = ok!(parse_at(&out), "MCNK written by the serializer is rejected by the parser");
    assert!(header_content_eq(&d.header, &c.header), "MCNK header content changed in write->parse");
    assert!(is_magic(&out.buf, AT + d.header.ofs_mccv as usize, ChunkId::MCCV), "ofs_mccv does not point at an MCCV chunk");
    assert!(d.vertex_colors.is_some(), "MCCV written but not found by the parser");
    let dc = d.vertex_colors.as_ref().unwrap();
    assert!(dc.colors.len() == 145);
    let i: usize = kani::any();
    kani::assume(i < 145);
    assert!(dc.colors[i] == c.vertex_colors.as_ref().unwrap().colors[i], "vertex colour changed or its channels were swapped in write->parse");
    std::mem::forget((c, d));
}

/// witness KF-C14-mccv-flag
#[kani::proof]
#[kani::stub(std::fmt::format, vio::fmt_stub)]
#[kani::stub(std::any::TypeId::eq, typeid_ne)]
#[kani::unwind(147)]
fn c14e_mcnk_vertex_colors_flag_witness() {
    let mut c = empty_mcnk(header_zero());
    c.vertex_colors = Some(MccvChunk::default());
    let mut out = FSink::<768>::new();
    ok!(write_mcnk_chunk(&mut out, &c), "write fails");
    let mut src = Src::<768>::new(out.buf, out.len);
    src.pos = 8;
    let d = ok!(McnkChunk::parse_with_offset_and_size(&mut src, 0, le32(&out.buf, 4)), "parse fails");
    assert!(d.vertex_colors.is_some(), "MCCV vertex colours written by the serializer are lost by the parser (MCNK flag 0x40 not set by the writer)");
    std::mem::forget((c, d));
}

#[kani::proof]
#[kani::stub(std::fmt::format, vio::fmt_stub)]
#[kani::stub(std::any::TypeId::eq, typeid_ne)]
#[kani::unwind(4)]
fn c14_serializer_canary() {
    let mut p = ChunkPositions::default();
    p.mhdr_data_start = 20;
    p.mcin_data_start = 92;
    p.mtex = kani::any();
    kani::assume(p.mtex >= 4188 && p.mtex < 1 << 20);
    let h = calculate_mhdr_offsets(&p);
    assert!(h.mtex_offset as u64 == p.mtex, "canary: must be reported as failing");
    std::mem::forget(p);
}
