// C14 (ADT build -> serialise -> parse).  Child module of wow-adt/src/builder/serializer.rs: sees the private
// offset-table kernels, write_chunk, write_mcnk_chunk, write_mh2o_chunk and ChunkPositions via `super::*`.
#![allow(unused_imports, dead_code)]
#[path = "../env/io.rs"]
mod vio;
use vio::{CountSink, Sink, Src};

use super::*;
use crate::chunk_header::ChunkHeader;
use crate::chunks::mcnk::{LiquidType, LiquidVertex, MclqChunk, McrfChunk, McseChunk, McshChunk, SoundEmitter, VertexColor, VertexNormal};
use crate::chunks::mh2o::{Mh2oAttributes, Mh2oEntry, Mh2oInstance};
use crate::chunks::{DoodadPlacement, MampChunk, MfboChunk, MtxfChunk, MtxpChunk, TextureHeightParams, WmoPlacement};
use crate::AdtVersion;
use binrw::BinRead;
use std::io::{self, Read};

/// unwrap without ever dropping a `Result`/error value (drop glue of binrw::Error is recursive and costs minutes)
macro_rules! ok {
    ($e:expr, $msg:expr) => {
        match $e {
            Ok(v) => v,
            Err(e) => {
                std::mem::forget(e);
                panic!($msg)
            }
        }
    };
}

/// Environment model for `TypeId == TypeId`: always false.  binrw asks `<dyn Any>::downcast_ref::<[u8; N] / Vec<u8>>`
/// before every array / Vec transfer to pick a byte-slice fast path; CBMC cannot fold the pointer-to-integer comparison
/// inside `TypeId::eq`, which makes the cursor position symbolic and every error path (with binrw::Error's recursive
/// drop glue) reachable for the solver.  With the fast path disabled the generic element-wise path moves the same bytes.
fn typeid_ne(_a: &std::any::TypeId, _b: &std::any::TypeId) -> bool { false }

/// Model of `binrw::helpers::until_eof` (third-party helper behind `#[br(parse_with = until_eof)]`): the same loop, but the
/// end-of-input error that terminates it is leaked instead of dropped (drop glue of binrw::Error is recursive; CBMC unrolls it
/// to the unwind bound on every explored path).
fn until_eof_model<'a, Ret, T, Arg, Reader>(reader: &mut Reader, endian: binrw::Endian, args: Arg) -> binrw::BinResult<Ret>
where
    Ret: FromIterator<T>,
    T: BinRead<Args<'a> = Arg>,
    Arg: Clone,
    Reader: Read + Seek,
{
    std::iter::from_fn(|| match T::read_options(reader, endian, args.clone()) {
        Ok(v) => Some(Ok(v)),
        Err(err) => {
            if err.is_eof() {
                std::mem::forget(err);
                None
            } else {
                Some(Err(err))
            }
        }
    })
    .fuse()
    .collect()
}

// ------------------------------------------------------------------ environment: a file-like sink
/// Write+Seek into `[u8; N]` that, like a file, remembers its extent (`len`) independently of the cursor
/// (`serialize_to_writer` seeks back to patch MHDR/MCIN and leaves the cursor there).
pub struct FSink<const N: usize> {
    pub buf: [u8; N],
    pub pos: usize,
    pub len: usize,
}
impl<const N: usize> FSink<N> {
    pub fn new() -> Self { FSink { buf: [0u8; N], pos: 0, len: 0 } }
}
impl<const N: usize> Write for FSink<N> {
    fn write(&mut self, b: &[u8]) -> io::Result<usize> {
        let n = b.len();
        if self.pos > N || n > N - self.pos {
            return Err(io::Error::from(io::ErrorKind::WriteZero));
        }
        self.buf[self.pos..self.pos + n].copy_from_slice(b);
        self.pos += n;
        if self.pos > self.len { self.len = self.pos; }
        Ok(n)
    }
    fn write_all(&mut self, b: &[u8]) -> io::Result<()> { self.write(b).map(|_| ()) }
    fn flush(&mut self) -> io::Result<()> { Ok(()) }
}
impl<const N: usize> Seek for FSink<N> {
    fn seek(&mut self, s: SeekFrom) -> io::Result<u64> {
        let np: i128 = match s {
            SeekFrom::Start(o) => o as i128,
            SeekFrom::Current(d) => self.pos as i128 + d as i128,
            SeekFrom::End(d) => self.len as i128 + d as i128,
        };
        if np < 0 || np > N as i128 {
            return Err(io::Error::from(io::ErrorKind::InvalidInput));
        }
        self.pos = np as usize;
        Ok(np as u64)
    }
}

// ------------------------------------------------------------------ reference: the chunk framing of the format
fn le32(b: &[u8], p: usize) -> u32 { u32::from_le_bytes([b[p], b[p + 1], b[p + 2], b[p + 3]]) }

/// IFF-style framing as published for ADT v18: magic(4) size(4, LE) payload(size), repeated.
/// Some(number of chunks) iff `b[..len]` is tiled exactly by at most `max` chunks.
fn walk(b: &[u8], len: usize, max: usize) -> Option<usize> {
    let mut p = 0usize;
    let mut n = 0usize;
    while p < len {
        if n == max || len - p < 8 { return None; }
        let sz = le32(b, p + 4) as usize;
        if sz > len - p - 8 { return None; }
        p += 8 + sz;
        n += 1;
    }
    Some(n)
}

fn is_magic(b: &[u8], p: usize, id: ChunkId) -> bool {
    b[p] == id.0[0] && b[p + 1] == id.0[1] && b[p + 2] == id.0[2] && b[p + 3] == id.0[3]
}

// ================================================================== C14.a offset-table kernels
fn opt_pos() -> Option<u64> { if kani::any() { Some(kani::any()) } else { None } }

/// MHDR: every offset + MHDR data start == position the serializer recorded; flags <=> presence
#[kani::proof]
#[kani::stub(std::fmt::format, vio::fmt_stub)]
#[kani::stub(std::any::TypeId::eq, typeid_ne)]
#[kani::unwind(4)]
fn c14a_mhdr_offsets() {
    let p = ChunkPositions {
        mhdr_data_start: kani::any(), mcin_data_start: kani::any(), mtex: kani::any(), mmdx: kani::any(),
        mmid: kani::any(), mwmo: kani::any(), mwid: kani::any(), mddf: kani::any(), modf: kani::any(),
        mfbo: opt_pos(), mh2o: opt_pos(), mtxf: opt_pos(), mamp: opt_pos(), mtxp: opt_pos(),
        mbmh: opt_pos(), mbbb: opt_pos(), mbnv: opt_pos(), mbmi: opt_pos(),
        mcnk_start: kani::any(), mcnk_entries: Vec::new(),
    };
    let base = p.mhdr_data_start;
    // what serialize_to_writer guarantees: MHDR data behind a chunk header, every later chunk behind MHDR's
    // 64 bytes, file smaller than 4 GiB
    let lim = u32::MAX as u64;
    kani::assume(base >= 8 && base <= lim && p.mcin_data_start <= lim && p.mcin_data_start >= base + 64 + 8);
    kani::assume(p.mtex >= p.mcin_data_start && p.mtex <= lim);
    kani::assume(p.mmdx > p.mtex && p.mmid > p.mmdx && p.mwmo > p.mmid && p.mwid > p.mwmo && p.mddf > p.mwid && p.modf > p.mddf);
    kani::assume(p.modf <= lim);
    let after = |o: Option<u64>| match o { Some(x) => x > p.modf && x <= lim, None => true };
    kani::assume(after(p.mfbo) && after(p.mh2o) && after(p.mtxf));
    let h = calculate_mhdr_offsets(&p);
    kani::cover!(p.mfbo.is_some() && p.mh2o.is_none());
    assert!(h.mcin_offset as u64 + base + 8 == p.mcin_data_start, "MHDR.mcin_offset does not point at the MCIN chunk header");
    assert!(h.mtex_offset as u64 + base == p.mtex, "MHDR.mtex_offset != MTEX position - MHDR data start");
    assert!(h.mmdx_offset as u64 + base == p.mmdx, "MHDR.mmdx_offset != MMDX position - MHDR data start");
    assert!(h.mmid_offset as u64 + base == p.mmid, "MHDR.mmid_offset != MMID position - MHDR data start");
    assert!(h.mwmo_offset as u64 + base == p.mwmo, "MHDR.mwmo_offset != MWMO position - MHDR data start");
    assert!(h.mwid_offset as u64 + base == p.mwid, "MHDR.mwid_offset != MWID position - MHDR data start");
    assert!(h.mddf_offset as u64 + base == p.mddf, "MHDR.mddf_offset != MDDF position - MHDR data start");
    assert!(h.modf_offset as u64 + base == p.modf, "MHDR.modf_offset != MODF position - MHDR data start");
    match p.mfbo {
        Some(x) => assert!(h.mfbo_offset as u64 + base == x && h.flags & 1 == 1, "MFBO written but MHDR offset/flag 0x1 wrong"),
        None => assert!(h.mfbo_offset == 0 && h.flags & 1 == 0, "MFBO absent but MHDR offset/flag 0x1 set"),
    }
    match p.mh2o {
        Some(x) => assert!(h.mh2o_offset as u64 + base == x && h.flags & 2 == 2, "MH2O written but MHDR offset/flag 0x2 wrong"),
        None => assert!(h.mh2o_offset == 0 && h.flags & 2 == 0, "MH2O absent but MHDR offset/flag 0x2 set"),
    }
    match p.mtxf {
        Some(x) => assert!(h.mtxf_offset as u64 + base == x, "MTXF written but MHDR.mtxf_offset wrong"),
        None => assert!(h.mtxf_offset == 0, "MTXF absent but MHDR.mtxf_offset set"),
    }
    assert!(h.flags & !3 == 0 && h.flags == calculate_mhdr_flags(&p), "MHDR flags carry bits other than MFBO/MH2O presence");
    assert!(h.unused1 == 0 && h.unused2 == 0 && h.unused3 == 0 && h.unused4 == 0);
    std::mem::forget(p);
}

/// MCIN: entry i == (offset_i, size_i, 0, 0) for the k chunks written, zero entries up to 256
fn mcin_entries(k: usize) {
    let mut p = ChunkPositions::default();
    let mut i = 0;
    while i < k {
        let off: u64 = kani::any();
        kani::assume(off <= u32::MAX as u64);
        p.mcnk_entries.push((off, kani::any()));
        i += 1;
    }
    let m = calculate_mcin_entries(&p);
    assert!(m.entries.len() == 256, "MCIN does not have 256 entries");
    let j: usize = kani::any();
    kani::assume(j < 256);
    kani::cover!(j == 255);
    if j < k {
        let (off, size) = p.mcnk_entries[j];
        let e = m.entries[j];
        assert!(e.offset as u64 == off && e.size == size && e.flags == 0 && e.async_id == 0, "MCIN entry != (offset, size) of the MCNK written");
    } else {
        assert!(m.entries[j] == McinEntry::default(), "MCIN padding entry not zero");
    }
    std::mem::forget((p, m));
}
#[kani::proof]
#[kani::stub(std::fmt::format, vio::fmt_stub)]
#[kani::stub(std::any::TypeId::eq, typeid_ne)]
#[kani::unwind(258)]
fn c14a_mcin_entries_k0() { mcin_entries(0) }
#[kani::proof]
#[kani::stub(std::fmt::format, vio::fmt_stub)]
#[kani::stub(std::any::TypeId::eq, typeid_ne)]
#[kani::unwind(258)]
fn c14a_mcin_entries_k1() { mcin_entries(1) }
#[kani::proof]
#[kani::stub(std::fmt::format, vio::fmt_stub)]
#[kani::stub(std::any::TypeId::eq, typeid_ne)]
#[kani::unwind(258)]
fn c14a_mcin_entries_k3() { mcin_entries(3) }

// ================================================================== C14.b MMID / MWID offsets
fn ascii_name<const L: usize>() -> ([u8; L], String) {
    let a: [u8; L] = kani::any();
    let mut i = 0;
    while i < L {
        kani::assume(a[i] != 0 && a[i] < 0x80);
        i += 1;
    }
    (a, unsafe { String::from_utf8_unchecked(a.to_vec()) })
}

fn name_at(buf: &[u8], off: usize, name: &[u8], first: bool) {
    let j: usize = kani::any();
    kani::assume(j < name.len());
    assert!(buf[off + j] == name[j], "index-chunk offset does not point at the name it was computed for");
    assert!(buf[off + name.len()] == 0, "name not NUL-terminated where the index chunk expects its end");
    if !first {
        assert!(buf[off - 1] == 0, "index-chunk offset points into the middle of a name");
    }
}

macro_rules! index_offsets {
    ($name:ident, $create_names:ident, $create_index:ident, $l0:expr, $l1:expr, $l2:expr) => {
        #[kani::proof]
        #[kani::stub(std::fmt::format, vio::fmt_stub)]
        #[kani::stub(std::any::TypeId::eq, typeid_ne)]
        #[kani::unwind(8)]
        fn $name() {
            let (a, sa) = ascii_name::<$l0>();
            let (b, sb) = ascii_name::<$l1>();
            let (c, sc) = ascii_name::<$l2>();
            let mut names: Vec<String> = Vec::new();
            names.push(sa);
            names.push(sb);
            names.push(sc);
            let strings = $create_names(&names);
            let index = $create_index(&names);
            let mut out = Sink::<24>::new();
            ok!(strings.write_le(&mut out), "string chunk cannot be serialised");
            kani::cover!(out.pos == $l0 + $l1 + $l2 + 3);
            assert!(out.pos == $l0 + $l1 + $l2 + 3, "string chunk payload != sum(len + 1)");
            assert!(index.offsets.len() == 3, "index chunk does not have one offset per name");
            let i: usize = kani::any();
            kani::assume(i < 3);
            let off = index.offsets[i] as usize;
            assert!(off < out.pos, "index-chunk offset outside the string chunk");
            match i {
                0 => name_at(&out.buf, off, &a, true),
                1 => name_at(&out.buf, off, &b, false),
                _ => name_at(&out.buf, off, &c, false),
            }
            // the reader-side resolution of an offset finds the same name index
            assert!(index.get_filename_index(&strings, index.offsets[i]) == Some(i), "reader resolves the written offset to another name");
            assert!(index.validate_offsets(out.pos), "written offsets rejected by the reader-side bound check");
            std::mem::forget((names, strings, index));
        }
    };
}
index_offsets!(c14b_mmid_offsets_3_1_2, create_mmdx_chunk, create_mmid_chunk, 3, 1, 2);
index_offsets!(c14b_mwid_offsets_1_3_2, create_mwmo_chunk, create_mwid_chunk, 1, 3, 2);

// ================================================================== C14.c write_chunk framing
/// two chunks written back to back: declared size == payload written, chunk 2 starts where chunk 1 ends,
/// the reference walker tiles the output, payloads read back
#[kani::proof]
#[kani::stub(std::fmt::format, vio::fmt_stub)]
#[kani::stub(std::any::TypeId::eq, typeid_ne)]
#[kani::unwind(20)]
fn c14c_write_chunk_mver_mfbo() {
    let mver = MverChunk { version: kani::any() };
    let mfbo = MfboChunk { max_plane: kani::any(), min_plane: kani::any() };
    let mut out = FSink::<64>::new();
    ok!(write_chunk(&mut out, ChunkId::MVER, &mver), "write_chunk fails");
    assert!(out.pos == 12 && out.len == 12, "MVER chunk is not 8 + 4 bytes / cursor not at its end");
    ok!(write_chunk(&mut out, ChunkId::MFBO, &mfbo), "write_chunk fails");
    kani::cover!(out.len == 56);
    assert!(out.pos == out.len, "cursor not at end of file after write_chunk");
    assert!(is_magic(&out.buf, 0, ChunkId::MVER) && le32(&out.buf, 4) == 4, "MVER header wrong");
    assert!(is_magic(&out.buf, 12, ChunkId::MFBO), "second chunk does not start where the first ends");
    assert!(le32(&out.buf, 16) as usize + 8 + 12 == out.len, "declared chunk size != bytes written");
    assert!(le32(&out.buf, 16) == 36, "MFBO payload is not 2 x 9 i16");
    assert!(walk(&out.buf, out.len, 2) == Some(2), "chunk framing does not tile the output");
    assert!(le32(&out.buf, 8) == mver.version);
    let mut src = Src::<64>::new(out.buf, out.len);
    src.pos = 20;
    let d = ok!(MfboChunk::read_le(&mut src), "MFBO payload written by write_chunk is rejected by the reader");
    let i: usize = kani::any();
    kani::assume(i < 9);
    assert!(d.max_plane[i] == mfbo.max_plane[i] && d.min_plane[i] == mfbo.min_plane[i], "MFBO planes changed in write->read");
}

/// MHDR placeholder + MAMP: sizes 64 and 4
#[kani::proof]
#[kani::stub(std::fmt::format, vio::fmt_stub)]
#[kani::stub(std::any::TypeId::eq, typeid_ne)]
#[kani::unwind(20)]
fn c14c_write_chunk_mhdr_mamp() {
    let mut h = MhdrChunk::default();
    h.flags = kani::any();
    h.mtxf_offset = kani::any();
    let mamp = MampChunk { amplifier: kani::any() };
    let mut out = FSink::<96>::new();
    ok!(write_chunk(&mut out, ChunkId::MHDR, &h), "write_chunk fails");
    ok!(write_chunk(&mut out, ChunkId::MAMP, &mamp), "write_chunk fails");
    kani::cover!(out.len == 84);
    assert!(le32(&out.buf, 4) == 64, "MHDR payload is not 64 bytes");
    assert!(is_magic(&out.buf, 72, ChunkId::MAMP) && le32(&out.buf, 76) == 4, "MAMP chunk not 8 + 4 bytes behind MHDR");
    assert!(walk(&out.buf, out.len, 2) == Some(2), "chunk framing does not tile the output");
    assert!(le32(&out.buf, 8) == h.flags && le32(&out.buf, 8 + 44) == h.mtxf_offset, "MHDR field order: flags first, mtxf_offset 12th");
    assert!(le32(&out.buf, 80) == mamp.amplifier);
}

/// variable-length payloads: declared size == element count x record size of the format
#[kani::proof]
#[kani::stub(std::fmt::format, vio::fmt_stub)]
#[kani::stub(std::any::TypeId::eq, typeid_ne)]
#[kani::unwind(8)]
fn c14c_write_chunk_vec_payloads() {
    let dp = DoodadPlacement { name_id: kani::any(), unique_id: kani::any(), position: [kani::any(), kani::any(), kani::any()],
        rotation: [kani::any(), kani::any(), kani::any()], scale: kani::any(), flags: kani::any() };
    let mut placements = Vec::new();
    placements.push(dp);
    placements.push(dp);
    let mddf = create_mddf_chunk(&placements);
    let mut flags = Vec::new();
    flags.push(kani::any::<u32>());
    flags.push(kani::any::<u32>());
    flags.push(kani::any::<u32>());
    let mtxf = MtxfChunk { flags };
    let mut layers = Vec::new();
    layers.push(MclyLayer { texture_id: kani::any(), flags: crate::chunks::mcnk::MclyFlags { value: kani::any() }, offset_in_mcal: kani::any(), effect_id: kani::any() });
    let mcly = MclyChunk { layers };
    let mut out = FSink::<160>::new();
    ok!(write_chunk(&mut out, ChunkId::MDDF, &mddf), "write_chunk fails");
    ok!(write_chunk(&mut out, ChunkId::MTXF, &mtxf), "write_chunk fails");
    ok!(write_chunk(&mut out, ChunkId::MCLY, &mcly), "write_chunk fails");
    kani::cover!(out.len == 80 + 20 + 24);
    assert!(le32(&out.buf, 4) == 2 * 36, "MDDF declared size != 36 bytes per placement");
    assert!(is_magic(&out.buf, 80, ChunkId::MTXF) && le32(&out.buf, 84) == 3 * 4, "MTXF declared size != 4 bytes per texture / chunk not behind MDDF");
    assert!(is_magic(&out.buf, 100, ChunkId::MCLY) && le32(&out.buf, 104) == 16, "MCLY declared size != 16 bytes per layer / chunk not behind MTXF");
    assert!(out.len == 124 && out.pos == out.len && walk(&out.buf, out.len, 3) == Some(3), "chunk framing does not tile the output");
    assert!(le32(&out.buf, 8 + 36) == dp.name_id && le32(&out.buf, 8 + 36 + 4) == dp.unique_id, "second MDDF record does not start 36 bytes behind the first");
    std::mem::forget((placements, mddf, mtxf, mcly));
}

// ================================================================== C14.d records: write(read(b)) == b
macro_rules! bytes_roundtrip {
    ($name:ident, $ty:ty, $n:expr, $cap:expr) => {
        #[kani::proof]
        #[kani::stub(std::fmt::format, vio::fmt_stub)]
        #[kani::stub(std::any::TypeId::eq, typeid_ne)]
        #[kani::unwind(20)]
        fn $name() {
            let b: [u8; $n] = kani::any();
            let mut src = Src::<$n>::new(b, $n);
            let c = ok!(<$ty>::read_le(&mut src), "record of the documented size is rejected");
            assert!(src.pos == $n, "reader did not consume the documented record size");
            let mut out = Sink::<$cap>::new();
            ok!(c.write_le(&mut out), "record cannot be serialised");
            kani::cover!(out.pos == $n);
            assert!(out.pos == $n, "writer did not produce the documented record size");
            let i: usize = kani::any();
            kani::assume(i < $n);
            assert!(out.buf[i] == b[i], "write(read(b)) != b");
            std::mem::forget(c);
        }
    };
}
bytes_roundtrip!(c14d_rec_doodad_placement, DoodadPlacement, 36, 40);
bytes_roundtrip!(c14d_rec_wmo_placement, WmoPlacement, 64, 72);
bytes_roundtrip!(c14d_rec_mcly_layer, MclyLayer, 16, 16);
bytes_roundtrip!(c14d_rec_sound_emitter, SoundEmitter, 28, 32);
bytes_roundtrip!(c14d_rec_texture_height_params, TextureHeightParams, 16, 16);
bytes_roundtrip!(c14d_rec_mh2o_header, Mh2oHeader, 12, 16);
bytes_roundtrip!(c14d_rec_mh2o_instance, Mh2oInstance, 24, 24);
bytes_roundtrip!(c14d_rec_mh2o_attributes, Mh2oAttributes, 16, 16);
bytes_roundtrip!(c14d_rec_mcin_entry, McinEntry, 16, 16);
bytes_roundtrip!(c14d_rec_mfbo, MfboChunk, 36, 40);
bytes_roundtrip!(c14d_rec_mhdr, MhdrChunk, 64, 64);
bytes_roundtrip!(c14d_rec_chunk_header, ChunkHeader, 8, 8);

// ================================================================== file image for everything larger than one record
/// In-memory file (Read + Write + Seek, extent `len` independent of the cursor, like a file).  The bytes live in
/// P pages of 64 so that CBMC keeps every byte as its own symbol (arrays longer than 64 are opaque to its constant
/// propagation; structural fields - magics, sizes, offsets - then stop folding and every parser error path becomes
/// reachable for the solver).  Capacity P * 64 bytes, P <= 64; symbolic execution time grows with P, so every harness
/// uses the smallest P that holds its file.
macro_rules! put16 {
    ($s:expr, $p:expr, $b:expr, $i:expr, $n:expr, $($k:expr),*) => {
        $( if $i + $k < $n { let q = $p + $k; $s.buf[q >> 6][q & 63] = $b[$i + $k]; } )*
    };
}
macro_rules! get16 {
    ($s:expr, $p:expr, $o:expr, $i:expr, $n:expr, $($k:expr),*) => {
        $( if $i + $k < $n { $o[$i + $k] = $s.at($p + $k); } )*
    };
}
pub struct Img<const P: usize> {
    pub buf: [[u8; 64]; P],
    pub pos: usize,
    pub len: usize,
}
impl<const P: usize> Img<P> {
    pub const CAP: usize = P * 64;
    pub fn new() -> Self { Img { buf: [[0u8; 64]; P], pos: 0, len: 0 } }
    #[inline(always)]
    pub fn at(&self, p: usize) -> u8 { self.buf[p >> 6][p & 63] }
    pub fn le32(&self, p: usize) -> u32 { u32::from_le_bytes([self.at(p), self.at(p + 1), self.at(p + 2), self.at(p + 3)]) }
    pub fn is_magic(&self, p: usize, id: ChunkId) -> bool {
        self.at(p) == id.0[0] && self.at(p + 1) == id.0[1] && self.at(p + 2) == id.0[2] && self.at(p + 3) == id.0[3]
    }
    /// reference chunk walker over [from, to): Some(n) iff n <= max chunks tile the range exactly
    pub fn walk(&self, from: usize, to: usize, max: usize) -> Option<usize> {
        let mut p = from;
        let mut n = 0usize;
        while p < to {
            if n == max || to - p < 8 { return None; }
            let sz = self.le32(p + 4) as usize;
            if sz > to - p - 8 { return None; }
            p += 8 + sz;
            n += 1;
        }
        Some(n)
    }
}
impl<const P: usize> Write for Img<P> {
    fn write(&mut self, b: &[u8]) -> io::Result<usize> {
        let n = b.len();
        if self.pos > Self::CAP || n > Self::CAP - self.pos {
            return Err(io::Error::from(io::ErrorKind::WriteZero));
        }
        // 16 bytes per loop iteration (keeps the unwind bound small)
        let mut i = 0;
        while i < n {
            let p = self.pos + i;
            put16!(self, p, b, i, n, 0, 1, 2, 3, 4, 5, 6, 7, 8, 9, 10, 11, 12, 13, 14, 15);
            i += 16;
        }
        self.pos += n;
        if self.pos > self.len { self.len = self.pos; }
        Ok(n)
    }
    fn write_all(&mut self, b: &[u8]) -> io::Result<()> { self.write(b).map(|_| ()) }
    fn flush(&mut self) -> io::Result<()> { Ok(()) }
}
impl<const P: usize> Read for Img<P> {
    fn read(&mut self, out: &mut [u8]) -> io::Result<usize> {
        let avail = if self.pos < self.len { self.len - self.pos } else { 0 };
        let n = if out.len() < avail { out.len() } else { avail };
        let mut i = 0;
        while i < n {
            let p = self.pos + i;
            get16!(self, p, out, i, n, 0, 1, 2, 3, 4, 5, 6, 7, 8, 9, 10, 11, 12, 13, 14, 15);
            i += 16;
        }
        self.pos += n;
        Ok(n)
    }
    fn read_exact(&mut self, out: &mut [u8]) -> io::Result<()> {
        let avail = if self.pos < self.len { self.len - self.pos } else { 0 };
        if out.len() > avail {
            self.pos = self.len;
            return Err(io::Error::from(io::ErrorKind::UnexpectedEof));
        }
        let n = out.len();
        let mut i = 0;
        while i < n {
            let p = self.pos + i;
            get16!(self, p, out, i, n, 0, 1, 2, 3, 4, 5, 6, 7, 8, 9, 10, 11, 12, 13, 14, 15);
            i += 16;
        }
        self.pos += n;
        Ok(())
    }
}
impl<const P: usize> Seek for Img<P> {
    fn seek(&mut self, s: SeekFrom) -> io::Result<u64> {
        let np: i128 = match s {
            SeekFrom::Start(o) => o as i128,
            SeekFrom::Current(d) => self.pos as i128 + d as i128,
            SeekFrom::End(d) => self.len as i128 + d as i128,
        };
        if np < 0 || np > usize::MAX as i128 {
            return Err(io::Error::from(io::ErrorKind::InvalidInput));
        }
        self.pos = np as usize;
        Ok(np as u64)
    }
}

// ================================================================== C14.e MCNK: write_mcnk_chunk -> parse_with_offset_and_size
/// header with every field arbitrary, including stale offsets/sizes/counts the writer has to recompute
fn header_any() -> McnkHeader {
    McnkHeader {
        flags: McnkFlags { value: kani::any() },
        index_x: kani::any(), index_y: kani::any(), n_layers: kani::any(), n_doodad_refs: kani::any(),
        multipurpose_field: kani::any(), ofs_layer: kani::any(), ofs_refs: kani::any(), ofs_alpha: kani::any(),
        size_alpha: kani::any(), ofs_shadow: kani::any(), size_shadow: kani::any(), area_id: kani::any(),
        n_map_obj_refs: kani::any(), holes_low_res: kani::any(), unknown_but_used: kani::any(), pred_tex: kani::any(),
        no_effect_doodad: kani::any(), unknown_8bytes: kani::any(), ofs_snd_emitters: kani::any(),
        n_snd_emitters: kani::any(), ofs_liquid: kani::any(), size_liquid: kani::any(),
        position: [kani::any(), kani::any(), kani::any()], ofs_mccv: kani::any(), ofs_mclv: kani::any(),
        unused: 0, _padding: [0; 8],
    }
}
fn header_zero() -> McnkHeader {
    McnkHeader { flags: McnkFlags { value: 0 }, index_x: 0, index_y: 0, n_layers: 0, n_doodad_refs: 0, multipurpose_field: [0; 8],
        ofs_layer: 0, ofs_refs: 0, ofs_alpha: 0, size_alpha: 0, ofs_shadow: 0, size_shadow: 0, area_id: 0, n_map_obj_refs: 0,
        holes_low_res: 0, unknown_but_used: 0, pred_tex: [0; 8], no_effect_doodad: [0; 8], unknown_8bytes: [0; 8], ofs_snd_emitters: 0,
        n_snd_emitters: 0, ofs_liquid: 0, size_liquid: 0, position: [0.0; 3], ofs_mccv: 0, ofs_mclv: 0, unused: 0, _padding: [0; 8] }
}

fn empty_mcnk(header: McnkHeader) -> McnkChunk {
    McnkChunk { header, heights: None, normals: None, layers: None, materials: None, refs: None, doodad_refs: None,
        wmo_refs: None, alpha: None, shadow: None, vertex_colors: None, vertex_lighting: None, sound_emitters: None,
        liquid: None, doodad_disable: None, blend_batches: None }
}

/// the fields of the MCNK header that are content (not recomputed by the writer) survive
fn header_content_eq(a: &McnkHeader, b: &McnkHeader) -> bool {
    a.flags.value == b.flags.value && a.index_x == b.index_x && a.index_y == b.index_y && a.n_doodad_refs == b.n_doodad_refs
        && a.area_id == b.area_id && a.n_map_obj_refs == b.n_map_obj_refs && a.holes_low_res == b.holes_low_res
        && a.unknown_but_used == b.unknown_but_used && u64::from_le_bytes(a.pred_tex) == u64::from_le_bytes(b.pred_tex)
        && u64::from_le_bytes(a.no_effect_doodad) == u64::from_le_bytes(b.no_effect_doodad)
        && u64::from_le_bytes(a.unknown_8bytes) == u64::from_le_bytes(b.unknown_8bytes)
        && a.position[0].to_bits() == b.position[0].to_bits() && a.position[1].to_bits() == b.position[1].to_bits()
        && a.position[2].to_bits() == b.position[2].to_bits()
}

const AT: usize = 16; // the MCNK under test starts at file offset 16 (relative vs absolute offsets differ)

fn write_at<const P: usize>(c: &McnkChunk) -> Img<P> {
    let mut out = Img::<P>::new();
    ok!(out.write_all(&[0xEEu8; AT]), "filler write fails");
    ok!(write_mcnk_chunk(&mut out, c), "write_mcnk_chunk fails on a well-formed chunk");
    assert!(out.pos == out.len, "cursor not at the end of the MCNK after write_mcnk_chunk");
    assert!(out.is_magic(AT, ChunkId::MCNK), "MCNK magic missing");
    assert!(out.le32(AT + 4) as usize + AT + 8 == out.len, "declared MCNK size != bytes written");
    out
}

fn parse_at<const P: usize>(img: &mut Img<P>) -> binrw::BinResult<McnkChunk> {
    img.pos = AT + 8;
    let size = img.le32(AT + 4);
    McnkChunk::parse_with_offset_and_size(img, AT as u64, size)
}

/// sub-chunks tile the MCNK payload behind the 136-byte header
fn subchunks_tile<const P: usize>(out: &Img<P>, to: usize, k: usize) {
    assert!(out.walk(AT + 144, to, k) == Some(k), "MCNK sub-chunk framing does not tile the MCNK payload");
}

/// parse -> write again reproduces the bytes (no growth, no drift)
fn rewrite_is_stable<const P: usize>(out: &Img<P>, d: &McnkChunk) {
    let out2 = write_at::<P>(d);
    assert!(out2.len == out.len, "MCNK re-serialised after parsing has a different size");
    let i: usize = kani::any();
    kani::assume(i < out.len);
    assert!(out2.at(i) == out.at(i), "MCNK re-serialised after parsing differs from the first serialisation");
}

/// no sub-chunks: header content survives, stale offsets/sizes/counts are cleared, nothing is invented
#[kani::proof]
#[kani::stub(std::fmt::format, vio::fmt_stub)]
#[kani::stub(std::any::TypeId::eq, typeid_ne)]
#[kani::stub(binrw::helpers::until_eof, until_eof_model)]
#[kani::unwind(12)]
fn c14e_mcnk_bare_header() {
    let c = empty_mcnk(header_any());
    let mut out = write_at::<3>(&c);
    kani::cover!(out.len == AT + 144);
    assert!(out.len == AT + 8 + 136, "MCNK without sub-chunks is not 8 + 136 bytes");
    let d = ok!(parse_at(&mut out), "MCNK written by the serializer is rejected by the parser");
    assert!(header_content_eq(&d.header, &c.header), "MCNK header content changed in write->parse");
    let h = &d.header;
    assert!(h.n_layers == 0 && h.ofs_layer == 0 && h.ofs_refs == 0 && h.ofs_alpha == 0 && h.size_alpha == 0 && h.ofs_shadow == 0
        && h.size_shadow == 0 && h.ofs_snd_emitters == 0 && h.n_snd_emitters == 0 && h.ofs_liquid == 0 && h.size_liquid == 0
        && h.ofs_mccv == 0 && h.ofs_mclv == 0 && h.ofs_height() == 0 && h.ofs_normal() == 0,
        "stale sub-chunk offset/size/count survives although the sub-chunk is not written");
    assert!(d.heights.is_none() && d.normals.is_none() && d.layers.is_none() && d.refs.is_none() && d.doodad_refs.is_none()
        && d.wmo_refs.is_none() && d.alpha.is_none() && d.shadow.is_none() && d.vertex_colors.is_none() && d.vertex_lighting.is_none()
        && d.sound_emitters.is_none() && d.liquid.is_none(), "parser invents a sub-chunk that was not written");
    rewrite_is_stable(&out, &d);
    std::mem::forget((c, d));
}

fn layer_any() -> MclyLayer {
    MclyLayer { texture_id: kani::any(), flags: crate::chunks::mcnk::MclyFlags { value: kani::any() }, offset_in_mcal: kani::any(), effect_id: kani::any() }
}
fn emitter_any() -> SoundEmitter {
    SoundEmitter { sound_entry_id: kani::any(), position: [kani::any(), kani::any(), kani::any()],
        size_min: [kani::any(), kani::any(), kani::any()], _padding: [] }
}
fn emitter_eq(a: &SoundEmitter, b: &SoundEmitter) -> bool {
    a.sound_entry_id == b.sound_entry_id && a.position[0].to_bits() == b.position[0].to_bits()
        && a.position[1].to_bits() == b.position[1].to_bits() && a.position[2].to_bits() == b.position[2].to_bits()
        && a.size_min[0].to_bits() == b.size_min[0].to_bits() && a.size_min[1].to_bits() == b.size_min[1].to_bits()
        && a.size_min[2].to_bits() == b.size_min[2].to_bits()
}

/// texture layers + sound emitters: counts, offsets, content, stable re-serialisation
// NOT REGISTERED in cat_C14.py: did not finish on this machine (see NOTES.md, "Not finished"); kept for a faster solver / more memory
#[kani::proof]
#[kani::stub(std::fmt::format, vio::fmt_stub)]
#[kani::stub(std::any::TypeId::eq, typeid_ne)]
#[kani::stub(binrw::helpers::until_eof, until_eof_model)]
#[kani::unwind(12)]
fn c14e_mcnk_layers_emitters() {
    let mut c = empty_mcnk(header_any());
    let mut layers = Vec::new();
    layers.push(layer_any());
    layers.push(layer_any());
    c.layers = Some(MclyChunk { layers });
    let mut emitters = Vec::new();
    emitters.push(emitter_any());
    c.sound_emitters = Some(McseChunk { emitters });
    let mut out = write_at::<4>(&c);
    kani::cover!(out.len == AT + 144 + 40 + 36);
    assert!(out.len == AT + 144 + (8 + 2 * 16) + (8 + 28), "MCLY entry is not 16 bytes / MCSE entry is not 28 bytes");
    subchunks_tile(&out, AT + 144 + 40 + 36, 2);
    let d = ok!(parse_at(&mut out), "MCNK written by the serializer is rejected by the parser");
    assert!(header_content_eq(&d.header, &c.header), "MCNK header content changed in write->parse");
    assert!(d.header.n_layers == 2 && d.header.n_snd_emitters == 1, "MCNK header counts != list lengths");
    assert!(out.is_magic(AT + d.header.ofs_layer as usize, ChunkId::MCLY), "ofs_layer does not point at an MCLY chunk");
    assert!(out.is_magic(AT + d.header.ofs_snd_emitters as usize, ChunkId::MCSE), "ofs_snd_emitters does not point at an MCSE chunk");
    assert!(d.layers.is_some() && d.sound_emitters.is_some(), "written sub-chunk not found by the parser");
    let dl = d.layers.as_ref().unwrap();
    let cl = c.layers.as_ref().unwrap();
    assert!(dl.layers.len() == 2 && dl.layers[0] == cl.layers[0] && dl.layers[1] == cl.layers[1], "MCLY layers changed in write->parse");
    let de = d.sound_emitters.as_ref().unwrap();
    assert!(de.emitters.len() == 1 && emitter_eq(&de.emitters[0], &c.sound_emitters.as_ref().unwrap().emitters[0]), "MCSE emitter changed in write->parse");
    assert!(d.heights.is_none() && d.normals.is_none() && d.refs.is_none() && d.alpha.is_none() && d.shadow.is_none()
        && d.vertex_colors.is_none() && d.vertex_lighting.is_none() && d.liquid.is_none(), "parser invents a sub-chunk that was not written");
    rewrite_is_stable(&out, &d);
    std::mem::forget((c, d));
}

/// MCRF object references: survive when the header counts describe the list
// NOT REGISTERED in cat_C14.py: did not finish on this machine (see NOTES.md, "Not finished"); kept for a faster solver / more memory
#[kani::proof]
#[kani::stub(std::fmt::format, vio::fmt_stub)]
#[kani::stub(std::any::TypeId::eq, typeid_ne)]
#[kani::stub(binrw::helpers::until_eof, until_eof_model)]
#[kani::unwind(12)]
fn c14e_mcnk_refs() {
    let nd: u32 = kani::any();
    kani::assume(nd <= 2);
    let mut c = empty_mcnk(header_any());
    // documented contract of MCRF (McrfChunk::validate_counts): the two header counts add up to the list length;
    // known finding mcrf-counts: the writer does not enforce or derive them (c14e_mcnk_refs_zero_counts_witness)
    c.header.n_doodad_refs = nd;
    c.header.n_map_obj_refs = 2 - nd;
    let mut references = Vec::new();
    references.push(kani::any());
    references.push(kani::any());
    c.refs = Some(McrfChunk { references });
    let mut out = write_at::<3>(&c);
    kani::cover!(out.len == AT + 144 + 16);
    subchunks_tile(&out, AT + 144 + 16, 1);
    let d = ok!(parse_at(&mut out), "MCNK written by the serializer is rejected by the parser");
    assert!(header_content_eq(&d.header, &c.header), "MCNK header content changed in write->parse");
    assert!(out.is_magic(AT + d.header.ofs_refs as usize, ChunkId::MCRF), "ofs_refs does not point at an MCRF chunk");
    assert!(d.refs.is_some(), "MCRF written but not found by the parser");
    let dr = d.refs.as_ref().unwrap();
    let cr = c.refs.as_ref().unwrap();
    assert!(dr.references.len() == 2 && dr.references[0] == cr.references[0] && dr.references[1] == cr.references[1], "MCRF references changed in write->parse");
    // known finding mcrf-phantom: the parser also returns the same bytes as MCRD and MCRW (doodad_refs / wmo_refs),
    // so `d.doodad_refs.is_none() && d.wmo_refs.is_none()` and size-stability of parse->write are not asserted here
    // (c14e_mcnk_refs_rewrite_grows_witness)
    std::mem::forget((c, d));
}

fn concrete_refs_mcnk(n_doodad_refs: u32) -> McnkChunk {
    let mut c = empty_mcnk(header_zero());
    c.header.n_doodad_refs = n_doodad_refs;
    let mut references = Vec::new();
    references.push(1u32);
    references.push(2u32);
    c.refs = Some(McrfChunk { references });
    c
}

/// witness KF-C14-mcrf-phantom: one MCRF with 2 references, parsed and written again, is 32 bytes longer
// NOT REGISTERED in cat_C14.py: did not finish on this machine (see NOTES.md, "Not finished"); kept for a faster solver / more memory
#[kani::proof]
#[kani::stub(std::fmt::format, vio::fmt_stub)]
#[kani::stub(std::any::TypeId::eq, typeid_ne)]
#[kani::stub(binrw::helpers::until_eof, until_eof_model)]
#[kani::unwind(12)]
fn c14e_mcnk_refs_rewrite_grows_witness() {
    let c = concrete_refs_mcnk(2);
    let mut out = write_at::<4>(&c);
    let d = ok!(parse_at(&mut out), "parse fails");
    let mut out2 = Img::<4>::new();
    ok!(out2.write_all(&[0xEEu8; AT]), "filler write fails");
    ok!(write_mcnk_chunk(&mut out2, &d), "rewrite fails");
    assert!(out2.len == out.len, "MCNK with MCRF grows when it is parsed and serialised again");
    std::mem::forget((c, d));
}

/// witness KF-C14-mcrf-counts: the writer does not derive the MCRF counts from the list, the parser needs them
#[kani::proof]
#[kani::stub(std::fmt::format, vio::fmt_stub)]
#[kani::stub(std::any::TypeId::eq, typeid_ne)]
#[kani::stub(binrw::helpers::until_eof, until_eof_model)]
#[kani::unwind(12)]
fn c14e_mcnk_refs_zero_counts_witness() {
    let c = concrete_refs_mcnk(0);
    let mut out = write_at::<3>(&c);
    let d = ok!(parse_at(&mut out), "parse fails");
    assert!(d.refs.is_some(), "MCRF written by the serializer is not returned by the parser (header ref counts left at 0)");
    std::mem::forget((c, d));
}

/// witness KF-C14-mcnk-tail-dropped: MCDD (like MCMT, MCBB) is written by the serializer but never read back
#[kani::proof]
#[kani::stub(std::fmt::format, vio::fmt_stub)]
#[kani::stub(std::any::TypeId::eq, typeid_ne)]
#[kani::stub(binrw::helpers::until_eof, until_eof_model)]
#[kani::unwind(66)]
fn c14e_mcnk_mcdd_dropped_witness() {
    let mut c = empty_mcnk(header_zero());
    c.doodad_disable = Some(crate::chunks::mcnk::McddChunk { disable: [0xFF; 64] });
    let mut out = write_at::<4>(&c);
    assert!(out.len == AT + 8 + 136 + 8 + 64);
    let d = ok!(parse_at(&mut out), "parse fails");
    assert!(d.doodad_disable.is_some(), "MCDD sub-chunk written by the serializer is lost by the parser");
    std::mem::forget((c, d));
}

// ------------------------------------------------------------------ 145-vertex sub-chunks (MCVT, MCNR, MCCV, MCLV)
fn heights_any() -> McvtChunk {
    let mut heights = Vec::with_capacity(145);
    let mut i = 0;
    while i < 145 {
        heights.push(kani::any::<f32>());
        i += 1;
    }
    McvtChunk { heights }
}
fn normals_any() -> McnrChunk {
    let mut normals = Vec::with_capacity(145);
    let mut i = 0;
    while i < 145 {
        normals.push(VertexNormal { x: kani::any(), z: kani::any(), y: kani::any() });
        i += 1;
    }
    let mut padding = Vec::with_capacity(13);
    let mut j = 0;
    while j < 13 {
        padding.push(0u8);
        j += 1;
    }
    McnrChunk { normals, padding }
}
fn colors_any() -> MccvChunk {
    let mut colors = Vec::with_capacity(145);
    let mut i = 0;
    while i < 145 {
        colors.push(VertexColor { b: kani::any(), g: kani::any(), r: kani::any(), a: kani::any() });
        i += 1;
    }
    MccvChunk { colors }
}

/// heights + normals: the two offsets packed into the multipurpose field point at MCVT / MCNR, every vertex survives
// NOT REGISTERED in cat_C14.py: did not finish on this machine (see NOTES.md, "Not finished"); kept for a faster solver / more memory
#[kani::proof]
#[kani::stub(std::fmt::format, vio::fmt_stub)]
#[kani::stub(std::any::TypeId::eq, typeid_ne)]
#[kani::stub(binrw::helpers::until_eof, until_eof_model)]
#[kani::unwind(150)]
fn c14e_mcnk_heights_normals() {
    let mut c = empty_mcnk(header_any());
    // flag 0x200 re-purposes the multipurpose field as a hole bitmap (MoP 5.3+); the builder's writer always stores offsets
    c.header.flags.value &= !0x200;
    c.heights = Some(heights_any());
    c.normals = Some(normals_any());
    let mut out = write_at::<19>(&c);
    kani::cover!(out.len == AT + 144 + 588 + 456);
    assert!(out.len == AT + 144 + (8 + 145 * 4) + (8 + 145 * 3 + 13), "MCVT/MCNR sizes are not 145 floats / 145 x 3 bytes + 13 padding");
    subchunks_tile(&out, AT + 144 + 588 + 456, 2);
    let d = ok!(parse_at(&mut out), "MCNK written by the serializer is rejected by the parser");
    assert!(header_content_eq(&d.header, &c.header), "MCNK header content changed in write->parse");
    assert!(out.is_magic(AT + d.header.ofs_height() as usize, ChunkId::MCVT), "height offset does not point at an MCVT chunk");
    assert!(out.is_magic(AT + d.header.ofs_normal() as usize, ChunkId::MCNR), "normal offset does not point at an MCNR chunk");
    assert!(d.heights.is_some() && d.normals.is_some(), "MCVT/MCNR written but not found by the parser");
    let dh = d.heights.as_ref().unwrap();
    let dn = d.normals.as_ref().unwrap();
    assert!(dh.heights.len() == 145 && dn.normals.len() == 145, "vertex count changed");
    let i: usize = kani::any();
    kani::assume(i < 145);
    assert!(dh.heights[i].to_bits() == c.heights.as_ref().unwrap().heights[i].to_bits(), "height changed or moved in write->parse");
    let (a, b) = (dn.normals[i], c.normals.as_ref().unwrap().normals[i]);
    assert!(a.x == b.x && a.y == b.y && a.z == b.z, "normal changed or its components were swapped in write->parse");
    assert!(dn.padding.len() == 13, "MCNR padding is not 13 bytes after parse");
    std::mem::forget((c, d));
}

/// vertex colours: survive when MCNK flag 0x40 (has_mccv) is set
// NOT REGISTERED in cat_C14.py: did not finish on this machine (see NOTES.md, "Not finished"); kept for a faster solver / more memory
#[kani::proof]
#[kani::stub(std::fmt::format, vio::fmt_stub)]
#[kani::stub(std::any::TypeId::eq, typeid_ne)]
#[kani::stub(binrw::helpers::until_eof, until_eof_model)]
#[kani::unwind(150)]
fn c14e_mcnk_vertex_colors() {
    let mut c = empty_mcnk(header_any());
    // known finding mccv-flag: the writer stores MCCV and its offset but leaves flag 0x40 to the caller, the parser
    // ignores the offset unless the flag is set (c14e_mcnk_vertex_colors_flag_witness)
    c.header.flags.value |= 0x40;
    c.vertex_colors = Some(colors_any());
    let mut out = write_at::<12>(&c);
    kani::cover!(out.len == AT + 144 + 8 + 580);
    subchunks_tile(&out, AT + 144 + 588, 1);
    let d = ok!(parse_at(&mut out), "MCNK written by the serializer is rejected by the parser");
    assert!(header_content_eq(&d.header, &c.header), "MCNK header content changed in write->parse");
    assert!(out.is_magic(AT + d.header.ofs_mccv as usize, ChunkId::MCCV), "ofs_mccv does not point at an MCCV chunk");
    assert!(d.vertex_colors.is_some(), "MCCV written but not found by the parser");
    let dc = d.vertex_colors.as_ref().unwrap();
    assert!(dc.colors.len() == 145);
    let i: usize = kani::any();
    kani::assume(i < 145);
    assert!(dc.colors[i] == c.vertex_colors.as_ref().unwrap().colors[i], "vertex colour changed or its channels were swapped in write->parse");
    std::mem::forget((c, d));
}

/// witness KF-C14-mccv-flag
#[kani::proof]
#[kani::stub(std::fmt::format, vio::fmt_stub)]
#[kani::stub(std::any::TypeId::eq, typeid_ne)]
#[kani::stub(binrw::helpers::until_eof, until_eof_model)]
#[kani::unwind(150)]
fn c14e_mcnk_vertex_colors_flag_witness() {
    let mut c = empty_mcnk(header_zero());
    c.vertex_colors = Some(MccvChunk::default());
    let mut out = write_at::<12>(&c);
    let d = ok!(parse_at(&mut out), "parse fails");
    assert!(d.vertex_colors.is_some(), "MCCV vertex colours written by the serializer are lost by the parser (MCNK flag 0x40 not set by the writer)");
    std::mem::forget((c, d));
}

// ------------------------------------------------------------------ MCLQ legacy liquid
fn liquid_any() -> MclqChunk {
    let mut vertices = Vec::with_capacity(81);
    let mut i = 0;
    while i < 81 {
        vertices.push(LiquidVertex { union_data: kani::any(), height: kani::any() });
        i += 1;
    }
    let min_height: f32 = kani::any();
    let max_height: f32 = kani::any();
    // MclqChunk::has_valid_heights (the reader treats anything else as a corrupted placeholder)
    kani::assume(min_height.is_finite() && max_height.is_finite() && min_height >= -10000.0 && max_height <= 10000.0 && min_height <= max_height);
    MclqChunk { min_height, max_height, vertices, tile_flags: kani::any(), liquid_type: LiquidType::Water }
}

/// MCLQ: ofs_liquid points at MCLQ, size_liquid counts the 8 header bytes (format), all 81 vertices and 64 tile flags survive
// NOT REGISTERED in cat_C14.py: did not finish on this machine (see NOTES.md, "Not finished"); kept for a faster solver / more memory
#[kani::proof]
#[kani::stub(std::fmt::format, vio::fmt_stub)]
#[kani::stub(std::any::TypeId::eq, typeid_ne)]
#[kani::stub(binrw::helpers::until_eof, until_eof_model)]
#[kani::unwind(84)]
fn c14e_mcnk_liquid() {
    let mut c = empty_mcnk(header_any());
    c.header.flags.value &= !0x38; // liquid_type Water (flags 0x08/0x10/0x20 select ocean/magma/slime)
    c.liquid = Some(liquid_any());
    let mut out = write_at::<15>(&c);
    kani::cover!(out.len == AT + 144 + 8 + 720);
    assert!(out.len == AT + 144 + 8 + (8 + 81 * 8 + 64), "MCLQ payload is not 2 floats + 81 x 8 bytes + 64 flags");
    subchunks_tile(&out, AT + 144 + 728, 1);
    // known finding mclq-size: the parser reads size_liquid (which includes the 8 header bytes) bytes *behind* the
    // header, i.e. 8 bytes past the MCLQ payload; here 8 bytes of a following chunk exist (c14e_mcnk_liquid_last_witness)
    ok!(out.write_all(&[0u8; 8]), "filler write fails");
    let d = ok!(parse_at(&mut out), "MCNK written by the serializer is rejected by the parser");
    assert!(header_content_eq(&d.header, &c.header), "MCNK header content changed in write->parse");
    assert!(out.is_magic(AT + d.header.ofs_liquid as usize, ChunkId::MCLQ), "ofs_liquid does not point at an MCLQ chunk");
    assert!(d.header.size_liquid == 8 + 720, "size_liquid is not chunk header + payload");
    assert!(d.liquid.is_some(), "MCLQ written but not found by the parser");
    let dq = d.liquid.as_ref().unwrap();
    let cq = c.liquid.as_ref().unwrap();
    assert!(dq.min_height.to_bits() == cq.min_height.to_bits() && dq.max_height.to_bits() == cq.max_height.to_bits(), "MCLQ height range changed");
    assert!(dq.vertices.len() == 81);
    let i: usize = kani::any();
    kani::assume(i < 81);
    assert!(u32::from_le_bytes(dq.vertices[i].union_data) == u32::from_le_bytes(cq.vertices[i].union_data)
        && dq.vertices[i].height.to_bits() == cq.vertices[i].height.to_bits(), "MCLQ vertex changed or moved in write->parse");
    let j: usize = kani::any();
    kani::assume(j < 64);
    assert!(dq.tile_flags[j] == cq.tile_flags[j], "MCLQ tile flag changed or moved in write->parse");
    std::mem::forget((c, d));
}

/// witness KF-C14-mclq-size: an MCLQ that is the last thing in the file cannot be parsed back
#[kani::proof]
#[kani::stub(std::fmt::format, vio::fmt_stub)]
#[kani::stub(std::any::TypeId::eq, typeid_ne)]
#[kani::stub(binrw::helpers::until_eof, until_eof_model)]
#[kani::unwind(84)]
fn c14e_mcnk_liquid_last_witness() {
    let mut c = empty_mcnk(header_zero());
    let mut vertices = Vec::with_capacity(81);
    let mut i = 0;
    while i < 81 {
        vertices.push(LiquidVertex { union_data: [0; 4], height: 0.5 });
        i += 1;
    }
    c.liquid = Some(MclqChunk { min_height: 0.0, max_height: 1.0, vertices, tile_flags: [0; 64], liquid_type: LiquidType::Water });
    let mut out = write_at::<14>(&c);
    let r = parse_at(&mut out);
    let good = r.is_ok();
    std::mem::forget(r);
    assert!(good, "MCNK whose last sub-chunk is MCLQ is rejected by the parser when nothing follows it in the file (reads size_liquid bytes behind the MCLQ header)");
    std::mem::forget(c);
}

// ================================================================== C14.g MTXF reader vs chunk size
// (whole-file harnesses through AdtBuilder -> serialize_to_writer -> discover_chunks -> parse_root_adt, the MH2O
// write->parse harnesses and everything that needs the chunk-discovery HashMap did not finish and are not kept here; see NOTES.md)
/// witness KF-C14-mtxf-unbounded without chunk discovery (no HashMap): MTXF directly in front of an MCNK, as
/// serialize_to_writer lays them out; then exactly what parse_root_adt does with an MTXF location
/// (`reader.seek(offset + 8); MtxfChunk::read_le(reader)`)
// NOT REGISTERED in cat_C14.py: CBMC ran out of memory (status 6) in the reader's terminating error path; see NOTES.md
#[kani::proof]
#[kani::stub(std::fmt::format, vio::fmt_stub)]
#[kani::stub(std::any::TypeId::eq, typeid_ne)]
#[kani::unwind(40)]
fn c14g_mtxf_reader_ignores_chunk_size_witness() {
    let mut out = Img::<3>::new();
    let mut flags = Vec::new();
    flags.push(7u32);
    let mtxf = MtxfChunk { flags };
    ok!(write_chunk(&mut out, ChunkId::MTXF, &mtxf), "write_chunk fails");
    let c = empty_mcnk(header_zero());
    ok!(write_mcnk_chunk(&mut out, &c), "write_mcnk_chunk fails");
    assert!(out.le32(4) == 4 && out.is_magic(12, ChunkId::MCNK) && out.len == 12 + 144);
    ok!(out.seek(SeekFrom::Start(0 + 8)), "seek fails");
    let m = ok!(MtxfChunk::read_le(&mut out), "MTXF rejected");
    assert!(m.flags.len() == 1, "texture flags (MTXF) read back have more entries than the chunk declares (the reader runs past the chunk into the following MCNK)");
    std::mem::forget((mtxf, c, m));
}

#[kani::proof]
#[kani::stub(std::fmt::format, vio::fmt_stub)]
#[kani::stub(std::any::TypeId::eq, typeid_ne)]
#[kani::unwind(4)]
fn c14_serializer_canary() {
    let mut p = ChunkPositions::default();
    p.mhdr_data_start = 20;
    p.mcin_data_start = 92;
    p.mtex = kani::any();
    kani::assume(p.mtex >= 4188 && p.mtex < 1 << 20);
    let h = calculate_mhdr_offsets(&p);
    assert!(h.mtex_offset as u64 == p.mtex, "canary: must be reported as failing");
    std::mem::forget(p);
}
