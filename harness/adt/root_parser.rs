// C14: child module of wow-adt/src/root_parser.rs (pub(crate)): exposes the private MH2O parser to the
// serializer-side harnesses and hosts the parser-side harnesses.
#![allow(unused_imports, dead_code)]
#[path = "../env/io.rs"]
mod vio;
use vio::{Sink, Src};

use super::*;

pub(crate) fn parse_mh2o<R: Read + Seek>(reader: &mut R, chunk_offset: u64, chunk_size: u32) -> Result<Option<Mh2oChunk>> {
    parse_mh2o_chunk(reader, chunk_offset, chunk_size)
}

fn typeid_ne(_a: &std::any::TypeId, _b: &std::any::TypeId) -> bool { false }

/// an MH2O without any liquid is reported as "no water" and never as an error
#[kani::proof]
#[kani::stub(std::fmt::format, vio::fmt_stub)]
#[kani::stub(std::any::TypeId::eq, typeid_ne)]
#[kani::unwind(260)]
fn c14f_mh2o_all_dry_is_none() {
    // 256 zero headers; Src is a flat array, but every byte is a constant here
    let img = [0u8; 3072];
    let mut src = Src::<3072>::new(img, 3072);
    let r = parse_mh2o_chunk(&mut src, 0, 3064);
    match r {
        Ok(v) => {
            kani::cover!(v.is_none());
            assert!(v.is_none(), "MH2O with 256 empty headers parsed as water");
            std::mem::forget(v);
        }
        Err(e) => {
            std::mem::forget(e);
            panic!("MH2O with 256 empty headers rejected");
        }
    }
}

#[kani::proof]
#[kani::stub(std::fmt::format, vio::fmt_stub)]
#[kani::stub(std::any::TypeId::eq, typeid_ne)]
#[kani::unwind(260)]
fn c14_root_parser_canary() {
    let img = [0u8; 3072];
    let mut src = Src::<3072>::new(img, 3072);
    let r = parse_mh2o_chunk(&mut src, 0, 3064);
    let some = match &r { Ok(v) => v.is_some(), Err(_) => false };
    std::mem::forget(r);
    assert!(some, "canary: must be reported as failing");
}
