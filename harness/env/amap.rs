// Association-list model of std::collections::HashMap, the same idea as env/vmap.rs with the wider API surface
// that patch_chain.rs (and plausible edits of it) use: entry().or_insert(), retain(), values_mut(), iter_mut().
// hashbrown's probing is not executable in CBMC within useful time; this model has the same observable
// semantics for the listed operations (iteration order: insertion order, which HashMap leaves unspecified).
// Installed only in the derived copy of patch_chain.rs (catalogue "derive" entry, scratch directory only).
#![allow(dead_code)]
use std::borrow::Borrow;

/// model limit: at most CAP entries.  The search loops run over `0..CAP` with an early exit, so their trip count
/// is a constant for CBMC.
pub const CAP: usize = 3;

#[derive(Debug, Clone)]
pub struct AMap<K, V> {
    items: Vec<(K, V)>,
}

impl<K, V> Default for AMap<K, V> {
    fn default() -> Self { AMap { items: Vec::with_capacity(CAP) } }
}

pub struct Entry<'a, K, V> {
    map: &'a mut AMap<K, V>,
    key: K,
    idx: Option<usize>,
}

impl<'a, K, V> Entry<'a, K, V> {
    pub fn or_insert(self, v: V) -> &'a mut V {
        match self.idx {
            Some(i) => &mut self.map.items[i].1,
            None => {
                assert!(self.map.items.len() < CAP, "AMap model: more than CAP entries");
                self.map.items.push((self.key, v));
                let n = self.map.items.len();
                &mut self.map.items[n - 1].1
            }
        }
    }
    pub fn or_insert_with<F: FnOnce() -> V>(self, f: F) -> &'a mut V {
        match self.idx {
            Some(i) => &mut self.map.items[i].1,
            None => self.or_insert(f()),
        }
    }
    pub fn or_default(self) -> &'a mut V
    where
        V: Default,
    {
        self.or_insert_with(V::default)
    }
    pub fn and_modify<F: FnOnce(&mut V)>(self, f: F) -> Self {
        if let Some(i) = self.idx {
            f(&mut self.map.items[i].1);
        }
        self
    }
    pub fn key(&self) -> &K { &self.key }
}

impl<K: PartialEq, V> AMap<K, V> {
    /// capacity for CAP entries up front: no reallocation later (Vec growth is expensive in symbolic execution)
    pub fn new() -> Self { AMap { items: Vec::with_capacity(CAP) } }
    pub fn with_capacity(_n: usize) -> Self { Self::new() }
    pub fn len(&self) -> usize { self.items.len() }
    pub fn is_empty(&self) -> bool { self.items.is_empty() }
    pub fn reserve(&mut self, _n: usize) {}
    pub fn clear(&mut self) { self.items.clear() }

    fn index_of<Q: ?Sized + PartialEq>(&self, k: &Q) -> Option<usize>
    where
        K: Borrow<Q>,
    {
        let n = self.items.len();
        let mut i = 0;
        while i < CAP {
            if i >= n { break; }
            if self.items[i].0.borrow() == k {
                return Some(i);
            }
            i += 1;
        }
        None
    }
    /// like HashMap::insert: returns the previous value of an existing key (and keeps the old key)
    pub fn insert(&mut self, k: K, v: V) -> Option<V> {
        match self.index_of(&k) {
            Some(i) => Some(std::mem::replace(&mut self.items[i].1, v)),
            None => {
                assert!(self.items.len() < CAP, "AMap model: more than CAP entries");
                self.items.push((k, v));
                None
            }
        }
    }
    pub fn get<Q: ?Sized + PartialEq>(&self, k: &Q) -> Option<&V>
    where
        K: Borrow<Q>,
    {
        match self.index_of(k) {
            Some(i) => Some(&self.items[i].1),
            None => None,
        }
    }
    pub fn get_mut<Q: ?Sized + PartialEq>(&mut self, k: &Q) -> Option<&mut V>
    where
        K: Borrow<Q>,
    {
        match self.index_of(k) {
            Some(i) => Some(&mut self.items[i].1),
            None => None,
        }
    }
    pub fn contains_key<Q: ?Sized + PartialEq>(&self, k: &Q) -> bool
    where
        K: Borrow<Q>,
    {
        self.index_of(k).is_some()
    }
    pub fn remove<Q: ?Sized + PartialEq>(&mut self, k: &Q) -> Option<V>
    where
        K: Borrow<Q>,
    {
        match self.index_of(k) {
            Some(i) => Some(self.items.remove(i).1),
            None => None,
        }
    }
    pub fn entry(&mut self, k: K) -> Entry<'_, K, V> {
        let idx = self.index_of(&k);
        Entry { map: self, key: k, idx }
    }
    pub fn retain<F: FnMut(&K, &mut V) -> bool>(&mut self, mut f: F) {
        let mut i = 0;
        let mut steps = 0;
        while steps < CAP {
            if i >= self.items.len() { break; }
            let keep = {
                let e = &mut self.items[i];
                f(&e.0, &mut e.1)
            };
            if keep { i += 1; } else { drop(self.items.remove(i)); }
            steps += 1;
        }
    }
    pub fn keys(&self) -> impl Iterator<Item = &K> { self.items.iter().map(|e| &e.0) }
    pub fn values(&self) -> impl Iterator<Item = &V> { self.items.iter().map(|e| &e.1) }
    pub fn values_mut(&mut self) -> impl Iterator<Item = &mut V> { self.items.iter_mut().map(|e| &mut e.1) }
    pub fn iter(&self) -> impl Iterator<Item = (&K, &V)> { self.items.iter().map(|e| (&e.0, &e.1)) }
    pub fn iter_mut(&mut self) -> impl Iterator<Item = (&K, &mut V)> { self.items.iter_mut().map(|e| (&e.0, &mut e.1)) }
}

impl<K: PartialEq, V> FromIterator<(K, V)> for AMap<K, V> {
    fn from_iter<I: IntoIterator<Item = (K, V)>>(it: I) -> Self {
        let mut m: AMap<K, V> = AMap::new();
        for (k, v) in it { m.insert(k, v); }
        m
    }
}
impl<K: PartialEq, V> Extend<(K, V)> for AMap<K, V> {
    fn extend<I: IntoIterator<Item = (K, V)>>(&mut self, it: I) {
        for (k, v) in it { self.insert(k, v); }
    }
}
impl<K, V> IntoIterator for AMap<K, V> {
    type Item = (K, V);
    type IntoIter = std::vec::IntoIter<(K, V)>;
    fn into_iter(self) -> Self::IntoIter { self.items.into_iter() }
}
