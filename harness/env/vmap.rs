// Association-list model of std::collections::HashMap (the subset of the API the code under test uses).
// hashbrown's probing is not executable in CBMC within useful time; this model has the same observable
// semantics for new / with_capacity / insert / get / contains_key / len.  Installed only in the scratch copy
// (see the "rewrite" entries of the catalogue).
#![allow(dead_code)]
use std::borrow::Borrow;

/// model limit: at most CAP entries.  The search loops run over `0..CAP` with an early exit, so that their trip
/// count is a constant for CBMC even under a large global unwind bound (a `while i < self.items.len()` loop is
/// otherwise unrolled up to that bound because the Vec's length is not a literal).
const CAP: usize = 8;

#[derive(Debug, Clone, Default)]
pub struct VMap<K, V> {
    items: Vec<(K, V)>,
}

impl<K: PartialEq, V> VMap<K, V> {
    pub fn new() -> Self { VMap { items: Vec::new() } }
    pub fn with_capacity(n: usize) -> Self { VMap { items: Vec::with_capacity(n) } }
    pub fn len(&self) -> usize { self.items.len() }
    pub fn is_empty(&self) -> bool { self.items.is_empty() }
    /// like HashMap::insert: returns the previous value of an existing key (and keeps the old key)
    pub fn insert(&mut self, k: K, v: V) -> Option<V> {
        let n = self.items.len();
        assert!(n < CAP, "VMap model: more than CAP entries");
        let mut i = 0;
        while i < CAP {
            if i >= n { break; }
            if self.items[i].0 == k {
                return Some(std::mem::replace(&mut self.items[i].1, v));
            }
            i += 1;
        }
        self.items.push((k, v));
        None
    }
    pub fn get<Q: ?Sized + PartialEq>(&self, k: &Q) -> Option<&V>
    where
        K: Borrow<Q>,
    {
        let n = self.items.len();
        let mut i = 0;
        while i < CAP {
            if i >= n { break; }
            if self.items[i].0.borrow() == k {
                return Some(&self.items[i].1);
            }
            i += 1;
        }
        None
    }
    pub fn contains_key<Q: ?Sized + PartialEq>(&self, k: &Q) -> bool
    where
        K: Borrow<Q>,
    {
        self.get(k).is_some()
    }
    pub fn remove<Q: ?Sized + PartialEq>(&mut self, k: &Q) -> Option<V>
    where
        K: Borrow<Q>,
    {
        let n = self.items.len();
        let mut i = 0;
        while i < CAP {
            if i >= n { break; }
            if self.items[i].0.borrow() == k {
                return Some(self.items.remove(i).1);
            }
            i += 1;
        }
        None
    }
    pub fn keys(&self) -> impl Iterator<Item = &K> { self.items.iter().map(|e| &e.0) }
    pub fn values(&self) -> impl Iterator<Item = &V> { self.items.iter().map(|e| &e.1) }
    pub fn iter(&self) -> impl Iterator<Item = (&K, &V)> { self.items.iter().map(|e| (&e.0, &e.1)) }
    pub fn clear(&mut self) { self.items.clear() }
}

// more of the HashMap surface, so that a change in the code under test that builds a map differently (collect(),
// extend(), get_mut(), into_iter()) still compiles against the model instead of making the check inconclusive
impl<K: PartialEq, V> VMap<K, V> {
    pub fn get_mut<Q: ?Sized + PartialEq>(&mut self, k: &Q) -> Option<&mut V>
    where
        K: Borrow<Q>,
    {
        let n = self.items.len();
        let mut i = 0;
        while i < CAP {
            if i >= n { break; }
            if self.items[i].0.borrow() == k {
                return Some(&mut self.items[i].1);
            }
            i += 1;
        }
        None
    }
    pub fn reserve(&mut self, _n: usize) {}
}
impl<K: PartialEq, V> FromIterator<(K, V)> for VMap<K, V> {
    fn from_iter<I: IntoIterator<Item = (K, V)>>(it: I) -> Self {
        let mut m = VMap::new();
        for (k, v) in it { m.insert(k, v); }
        m
    }
}
impl<K: PartialEq, V> Extend<(K, V)> for VMap<K, V> {
    fn extend<I: IntoIterator<Item = (K, V)>>(&mut self, it: I) {
        for (k, v) in it { self.insert(k, v); }
    }
}
impl<K, V> IntoIterator for VMap<K, V> {
    type Item = (K, V);
    type IntoIter = std::vec::IntoIter<(K, V)>;
    fn into_iter(self) -> Self::IntoIter { self.items.into_iter() }
}

// the `entry` API in the form `if let Entry::Vacant(e) = map.entry(k) { e.insert(v); }` / `.or_insert(v)`
pub enum Entry<'a, K, V> {
    Occupied(OccupiedEntry<'a, K, V>),
    Vacant(VacantEntry<'a, K, V>),
}
pub struct OccupiedEntry<'a, K, V> { map: &'a mut VMap<K, V>, idx: usize }
pub struct VacantEntry<'a, K, V> { map: &'a mut VMap<K, V>, key: K }
impl<'a, K: PartialEq, V> OccupiedEntry<'a, K, V> {
    pub fn get(&self) -> &V { &self.map.items[self.idx].1 }
    pub fn get_mut(&mut self) -> &mut V { &mut self.map.items[self.idx].1 }
    pub fn into_mut(self) -> &'a mut V { &mut self.map.items[self.idx].1 }
    pub fn insert(&mut self, v: V) -> V { std::mem::replace(&mut self.map.items[self.idx].1, v) }
}
impl<'a, K: PartialEq, V> VacantEntry<'a, K, V> {
    pub fn insert(self, v: V) -> &'a mut V {
        assert!(self.map.items.len() < CAP, "VMap model: more than CAP entries");
        self.map.items.push((self.key, v));
        let n = self.map.items.len();
        &mut self.map.items[n - 1].1
    }
}
impl<'a, K: PartialEq, V> Entry<'a, K, V> {
    pub fn or_insert(self, v: V) -> &'a mut V {
        match self { Entry::Occupied(o) => o.into_mut(), Entry::Vacant(e) => e.insert(v) }
    }
    pub fn or_insert_with<F: FnOnce() -> V>(self, f: F) -> &'a mut V {
        match self { Entry::Occupied(o) => o.into_mut(), Entry::Vacant(e) => e.insert(f()) }
    }
}
impl<K: PartialEq, V> VMap<K, V> {
    pub fn entry(&mut self, k: K) -> Entry<'_, K, V> {
        let n = self.items.len();
        let mut i = 0;
        while i < CAP {
            if i >= n { break; }
            if self.items[i].0 == k { return Entry::Occupied(OccupiedEntry { map: self, idx: i }); }
            i += 1;
        }
        Entry::Vacant(VacantEntry { map: self, key: k })
    }
}
