// Association-list model of std::collections::HashMap (the subset of the API the code under test uses).
// hashbrown's probing is not executable in CBMC within useful time; this model has the same observable
// semantics for new / with_capacity / insert / get / contains_key / len.  Installed only in the scratch copy
// (see the "rewrite" entries of the catalogue).
#![allow(dead_code)]
use std::borrow::Borrow;

/// model limit: at most CAP entries.  The search loops run over `0..CAP` with an early exit, so that their trip
/// count is a constant for CBMC even under a large global unwind bound (a `while i < self.items.len()` loop is
/// otherwise unrolled up to that bound because the Vec's length is not a literal).
const CAP: usize = 8;

#[derive(Debug, Clone, Default)]
pub struct VMap<K, V> {
    items: Vec<(K, V)>,
}

impl<K: PartialEq, V> VMap<K, V> {
    pub fn new() -> Self { VMap { items: Vec::new() } }
    pub fn with_capacity(n: usize) -> Self { VMap { items: Vec::with_capacity(n) } }
    pub fn len(&self) -> usize { self.items.len() }
    pub fn is_empty(&self) -> bool { self.items.is_empty() }
    /// like HashMap::insert: returns the previous value of an existing key (and keeps the old key)
    pub fn insert(&mut self, k: K, v: V) -> Option<V> {
        let n = self.items.len();
        assert!(n < CAP, "VMap model: more than CAP entries");
        let mut i = 0;
        while i < CAP {
            if i >= n { break; }
            if self.items[i].0 == k {
                return Some(std::mem::replace(&mut self.items[i].1, v));
            }
            i += 1;
        }
        self.items.push((k, v));
        None
    }
    pub fn get<Q: ?Sized + PartialEq>(&self, k: &Q) -> Option<&V>
    where
        K: Borrow<Q>,
    {
        let n = self.items.len();
        let mut i = 0;
        while i < CAP {
            if i >= n { break; }
            if self.items[i].0.borrow() == k {
                return Some(&self.items[i].1);
            }
            i += 1;
        }
        None
    }
    pub fn contains_key<Q: ?Sized + PartialEq>(&self, k: &Q) -> bool
    where
        K: Borrow<Q>,
    {
        self.get(k).is_some()
    }
    pub fn remove<Q: ?Sized + PartialEq>(&mut self, k: &Q) -> Option<V>
    where
        K: Borrow<Q>,
    {
        let n = self.items.len();
        let mut i = 0;
        while i < CAP {
            if i >= n { break; }
            if self.items[i].0.borrow() == k {
                return Some(self.items.remove(i).1);
            }
            i += 1;
        }
        None
    }
    pub fn keys(&self) -> impl Iterator<Item = &K> { self.items.iter().map(|e| &e.0) }
    pub fn values(&self) -> impl Iterator<Item = &V> { self.items.iter().map(|e| &e.1) }
    pub fn iter(&self) -> impl Iterator<Item = (&K, &V)> { self.items.iter().map(|e| (&e.0, &e.1)) }
    pub fn clear(&mut self) { self.items.clear() }
}
