// In-memory model of std::fs::File for Kani: an image + position behind File's Read/Seek impls.
// Installed per harness with
//   #[kani::stub(<std::fs::File as std::io::Read>::read, memfile::mem_read)]
//   #[kani::stub(<std::fs::File as std::io::Read>::read_buf, memfile::mem_read_buf)]
//   #[kani::stub(<std::fs::File as std::io::Seek>::seek, memfile::mem_seek)]
#![allow(dead_code, static_mut_refs)]
use std::fs::File;
use std::io::{self, SeekFrom};
use std::os::fd::FromRawFd;

pub const IMG_CAP: usize = 1400;
pub static mut IMG: [u8; IMG_CAP] = [0; IMG_CAP];
pub static mut IMG_LEN: usize = 0;
pub static mut POS: u64 = 0;

pub fn handle() -> File {
    unsafe { POS = 0; File::from_raw_fd(100) }
}

pub fn set_image(bytes: &[u8]) {
    unsafe {
        IMG_LEN = bytes.len();
        IMG[..bytes.len()].copy_from_slice(bytes);
        POS = 0;
    }
}

/// element-wise variant: keeps concrete bytes concrete for CBMC's constant propagation (a bulk copy turns
/// the whole image into one array-update expression and offsets read back from it become symbolic)
pub fn set_image_elementwise(bytes: &[u8]) {
    unsafe {
        IMG_LEN = bytes.len();
        let mut i = 0;
        while i < bytes.len() {
            IMG[i] = bytes[i];
            i += 1;
        }
        POS = 0;
    }
}

pub static mut ELEMENTWISE: bool = false;

pub fn mem_read(_f: &mut File, buf: &mut [u8]) -> io::Result<usize> {
    unsafe {
        let pos = if POS > IMG_LEN as u64 { IMG_LEN } else { POS as usize };
        let avail = IMG_LEN - pos;
        let n = if buf.len() < avail { buf.len() } else { avail };
        if ELEMENTWISE {
            // byte-wise: keeps concrete image bytes concrete in the reader's buffers
            let mut i = 0;
            while i < n {
                buf[i] = IMG[pos + i];
                i += 1;
            }
        } else {
            buf[..n].copy_from_slice(&IMG[pos..pos + n]);
        }
        POS = (pos + n) as u64;
        Ok(n)
    }
}

pub fn mem_read_buf(_f: &mut File, mut cur: io::BorrowedCursor<'_, u8>) -> io::Result<()> {
    unsafe {
        let pos = if POS > IMG_LEN as u64 { IMG_LEN } else { POS as usize };
        let avail = IMG_LEN - pos;
        let n = if cur.capacity() < avail { cur.capacity() } else { avail };
        cur.append(&IMG[pos..pos + n]);
        POS = (pos + n) as u64;
        Ok(())
    }
}

pub fn mem_seek(_f: &mut File, s: SeekFrom) -> io::Result<u64> {
    unsafe {
        let np: i128 = match s {
            SeekFrom::Start(o) => o as i128,
            SeekFrom::Current(d) => POS as i128 + d as i128,
            SeekFrom::End(d) => IMG_LEN as i128 + d as i128,
        };
        if np < 0 || np > u64::MAX as i128 {
            return Err(io::Error::from(io::ErrorKind::InvalidInput));
        }
        POS = np as u64;
        Ok(POS)
    }
}
