// Bounded-array model of Vec<u8> (the subset of the API the sparse codec uses).  Vec growth by data-dependent
// amounts (push / extend_from_slice / resize on a heap buffer of symbolic length) is what puts the codec loops
// out of CBMC's reach; this model has the same observable semantics for with_capacity / push /
// extend_from_slice / resize / len / deref and fails an assertion when more than its capacity is stored.
// It is installed only in a *derived copy* of the codec source inside the scratch directory (catalogue
// "derive" entries): the text of the functions is the repository's, only the container type is substituted.
#![allow(dead_code)]

/// two instances: CBMC treats arrays of up to 64 elements field-sensitively (cheap for short inputs), larger ones
/// through its array theory (needed for the 138-byte run-boundary harness)
pub type BVec = BVecN<176>;
pub type BVecS = BVecN<40>;

#[derive(Clone)]
pub struct BVecN<const CAP: usize> {
    pub buf: [u8; CAP],
    pub len: usize,
}

impl<const CAP: usize> BVecN<CAP> {
    pub fn new() -> Self { BVecN { buf: [0u8; CAP], len: 0 } }
    pub fn with_capacity(_n: usize) -> Self { Self::new() }
    pub fn len(&self) -> usize { self.len }
    pub fn is_empty(&self) -> bool { self.len == 0 }
    pub fn push(&mut self, b: u8) {
        assert!(self.len < CAP, "BVec model: more than CAP bytes");
        self.buf[self.len] = b;
        self.len += 1;
    }
    pub fn extend_from_slice(&mut self, s: &[u8]) {
        let n = s.len();
        assert!(n <= CAP - self.len, "BVec model: more than CAP bytes");
        let mut i = 0;
        while i < n {
            self.buf[self.len + i] = s[i];
            i += 1;
        }
        self.len += n;
    }
    pub fn resize(&mut self, new_len: usize, v: u8) {
        assert!(new_len <= CAP, "BVec model: more than CAP bytes");
        let mut i = self.len;
        while i < new_len {
            self.buf[i] = v;
            i += 1;
        }
        self.len = new_len;
    }
}

impl<const CAP: usize> std::ops::Deref for BVecN<CAP> {
    type Target = [u8];
    fn deref(&self) -> &[u8] { &self.buf[..self.len] }
}
