// Cheap in-memory Read/Write/Seek implementations for harnesses (std::io::Cursor costs ~1900 symex
// steps per 4-byte read in Kani's dev-profile std; these cost a few dozen).
#![allow(dead_code)]
use std::io::{self, Read, Seek, SeekFrom, Write};

/// fixed-capacity byte sink; `pos` = bytes written so far
pub struct Sink<const N: usize> {
    pub buf: [u8; N],
    pub pos: usize,
}
impl<const N: usize> Sink<N> {
    pub fn new() -> Self { Sink { buf: [0u8; N], pos: 0 } }
}
impl<const N: usize> Write for Sink<N> {
    fn write(&mut self, b: &[u8]) -> io::Result<usize> {
        let n = b.len();
        if n > N - self.pos {
            return Err(io::Error::from(io::ErrorKind::WriteZero));
        }
        self.buf[self.pos..self.pos + n].copy_from_slice(b);
        self.pos += n;
        Ok(n)
    }
    fn write_all(&mut self, b: &[u8]) -> io::Result<()> {
        self.write(b).map(|_| ())
    }
    fn flush(&mut self) -> io::Result<()> { Ok(()) }
}
impl<const N: usize> Seek for Sink<N> {
    fn seek(&mut self, s: SeekFrom) -> io::Result<u64> {
        let np: i128 = match s {
            SeekFrom::Start(o) => o as i128,
            SeekFrom::Current(d) => self.pos as i128 + d as i128,
            SeekFrom::End(d) => N as i128 + d as i128,
        };
        if np < 0 || np > N as i128 {
            return Err(io::Error::from(io::ErrorKind::InvalidInput));
        }
        self.pos = np as usize;
        Ok(np as u64)
    }
}

/// sink that only counts
pub struct CountSink {
    pub n: usize,
}
impl Write for CountSink {
    fn write(&mut self, b: &[u8]) -> io::Result<usize> { self.n += b.len(); Ok(b.len()) }
    fn write_all(&mut self, b: &[u8]) -> io::Result<()> { self.n += b.len(); Ok(()) }
    fn flush(&mut self) -> io::Result<()> { Ok(()) }
}

/// byte source over a fixed array with a logical length
pub struct Src<const N: usize> {
    pub buf: [u8; N],
    pub len: usize,
    pub pos: usize,
}
impl<const N: usize> Src<N> {
    pub fn new(buf: [u8; N], len: usize) -> Self { Src { buf, len, pos: 0 } }
}
impl<const N: usize> Read for Src<N> {
    fn read(&mut self, out: &mut [u8]) -> io::Result<usize> {
        let avail = if self.pos < self.len { self.len - self.pos } else { 0 };
        let n = if out.len() < avail { out.len() } else { avail };
        out[..n].copy_from_slice(&self.buf[self.pos..self.pos + n]);
        self.pos += n;
        Ok(n)
    }
    fn read_exact(&mut self, out: &mut [u8]) -> io::Result<()> {
        let avail = if self.pos < self.len { self.len - self.pos } else { 0 };
        if out.len() > avail {
            self.pos = self.len;
            return Err(io::Error::from(io::ErrorKind::UnexpectedEof));
        }
        let n = out.len();
        out.copy_from_slice(&self.buf[self.pos..self.pos + n]);
        self.pos += n;
        Ok(())
    }
}
impl<const N: usize> Seek for Src<N> {
    fn seek(&mut self, s: SeekFrom) -> io::Result<u64> {
        let np: i128 = match s {
            SeekFrom::Start(o) => o as i128,
            SeekFrom::Current(d) => self.pos as i128 + d as i128,
            SeekFrom::End(d) => self.len as i128 + d as i128,
        };
        if np < 0 {
            return Err(io::Error::from(io::ErrorKind::InvalidInput));
        }
        self.pos = if np > usize::MAX as i128 { usize::MAX } else { np as usize };
        Ok(np as u64)
    }
}

pub fn fmt_stub(_a: std::fmt::Arguments<'_>) -> String { String::new() }
