# C13 - M2 / skin / anim write->parse (wow-m2).  Executed inside catalogue.py's namespace.

_M2SRC = "src/model.rs"
CRATES["m2"] = {
    "dir": "file-formats/graphics/wow-m2",
    "attach": [
        ("src/header.rs", "m2/header.rs", "verif_kani_header", ""),
        ("src/chunks/mod.rs", "m2/records.rs", "verif_kani_records", ""),
        ("src/skin.rs", "m2/skin.rs", "verif_kani_skin", ""),
        ("src/anim.rs", "m2/anim.rs", "verif_kani_anim", ""),
        ("src/model.rs", "m2/model.rs", "verif_kani_model", ""),
        ("src/model.rs", "m2/relocate.rs", "verif_kani_relocate", ""),
        ("src/lib.rs", "env/vmap.rs", "verif_vmap", "pub(crate)"),
    ],
    # wow-m2 depends on wow-blp -> image (default features pull rav1e, which Kani's rustc cannot build)
    "rewrite": [("../wow-blp/Cargo.toml", r'^image\s*=.*$',
                 'image = { version = "0.25", default-features = false, features = ["png", "jpeg"] }'),
                # scratch copy only: the old-offset -> new-offset relocation maps of model.rs become the association-list model
                ("src/model.rs", r"^use std::collections::HashMap;$",
                 "#[cfg(kani)] use crate::verif_vmap::VMap as HashMap;\n#[cfg(not(kani))] use std::collections::HashMap;"),
                ("src/model.rs", r"^(\s*)use std::collections::hash_map::Entry;$",
                 r"\1#[cfg(kani)] use crate::verif_vmap::Entry;\n\1#[cfg(not(kani))] use std::collections::hash_map::Entry;")],
    # size constants the writers hard-code, taken from the copied sources (an anchor that no longer matches -> exit 2)
    "extract": [{
        "out": "m2/consts_gen.rs",
        "consts": [
            # the sequence-table rule of M2Model::write: `if header.version <OP> <N> { A } else { B }` - operator and threshold are
            # extracted too, so that the whole rule (not only A and B) is decided against M2Animation::write (c13b_sequence_size_rule)
            ("ANIM_SIZE_V256", _M2SRC, r'let anim_size = if header\.version <=? \d+ \{ (\d+) \} else \{ \d+ \};', "usize"),
            ("ANIM_SIZE_TBC", _M2SRC, r'let anim_size = if header\.version <=? \d+ \{ \d+ \} else \{ (\d+) \};', "usize"),
            ("ANIM_SIZE_OP", _M2SRC, r'let anim_size = if header\.version (<=?) \d+ \{ \d+ \} else \{ \d+ \};', "&str"),
            ("ANIM_SIZE_SPLIT", _M2SRC, r'let anim_size = if header\.version <=? (\d+) \{ \d+ \} else \{ \d+ \};', "u32"),
            ("BONE_SIZE_V256", _M2SRC, r'let bone_size = if header\.version < 260 \{\s*(\d+)', "usize"),
            ("BONE_SIZE_TBC", _M2SRC, r'let bone_size = if header\.version < 260 \{[^}]*\} else if header\.version < 264 \{\s*(\d+)', "usize"),
            ("BONE_SIZE_WOTLK", _M2SRC,
             r'let bone_size = if header\.version < 260 \{[^}]*\} else if header\.version < 264 \{[^}]*\} else \{\s*(\d+)', "usize"),
            ("VERTEX_SIZE", _M2SRC, r'let vertex_size = (\d+);', "usize"),
            ("TEXTURE_DEF_SIZE", _M2SRC, r'let texture_def_size = (\d+);', "usize"),
            ("MATERIAL_SIZE", _M2SRC, r'current_offset \+= \(self\.materials\.len\(\) \* (\d+)\) as u32;', "usize"),
            ("EMB_MODEL_VIEW_READ", _M2SRC, r'const MODEL_VIEW_SIZE: usize = (\d+);', "usize"),
            ("EMB_MODEL_VIEW_WRITE", _M2SRC, r'const MODEL_VIEW_SIZE: u32 = (\d+);', "usize"),
            ("EMB_PROP_READ", _M2SRC, r'vec!\[0u8; n_properties as usize \* (\d+)\]', "usize"),
            ("EMB_PROP_WRITE", _M2SRC, r'let n_properties = \(skin\.properties\.len\(\) / (\d+)\) as u32;', "usize"),
            ("EMB_SUBMESH_READ_V256", _M2SRC, r'fn collect_embedded_skin_data.*?let submesh_size = if header\.version < 260 \{ (\d+) \} else \{ \d+ \};', "usize"),
            ("EMB_SUBMESH_READ_TBC", _M2SRC, r'fn collect_embedded_skin_data.*?let submesh_size = if header\.version < 260 \{ \d+ \} else \{ (\d+) \};', "usize"),
            ("EMB_SUBMESH_WRITE_V256", _M2SRC, r'const MODEL_VIEW_SIZE: u32 = \d+;.*?let submesh_size = if header\.version < 260 \{ (\d+) \} else \{ \d+ \};', "usize"),
            ("EMB_SUBMESH_WRITE_TBC", _M2SRC, r'const MODEL_VIEW_SIZE: u32 = \d+;.*?let submesh_size = if header\.version < 260 \{ \d+ \} else \{ (\d+) \};', "usize"),
            ("EMB_BATCH_READ", _M2SRC, r'vec!\[0u8; n_batches as usize \* (\d+)\]', "usize"),
            ("EMB_BATCH_WRITE", _M2SRC, r'let n_batches = \(skin\.batches\.len\(\) / (\d+)\) as u32;', "usize"),
            ("SKIN_SUBMESH_ADVANCE", "src/skin.rs", r'current_offset \+= \(self\.submeshes\.len\(\) \* (\d+)\) as u32;', "usize"),
            ("ANIM_HEADER_SIZE", "src/anim.rs", r'let header_size = (\d+); // Magic', "u32"),
            ("ANIM_ENTRY_SIZE", "src/anim.rs", r'let entry_size = (\d+);', "u32"),
            ("AFID_HEADER_SIZE", "src/anim.rs", r'let header_size = (\d+); // "AFID"', "u32"),
        ],
    }],
}

LOSSY13 = "String::from_utf8_lossy -> the same bytes as &str without validation (the library calls it only to put magic bytes into error messages)"
_H13_orig = H
def H(*a, **kw):
    # every harness of header.rs / skin.rs / anim.rs / model.rs carries the from_utf8_lossy stub
    if a[2] in ("verif_kani_header", "verif_kani_skin", "verif_kani_anim", "verif_kani_model"):
        st = list(kw.get("stubs", []))
        if LOSSY13 not in st:
            st.append(LOSSY13)
        kw["stubs"] = st
    _H13_orig(*a, **kw)

_CONSTS = ("size constants extracted by the runner from the copied model.rs/skin.rs/anim.rs (regex anchors; a missing anchor is exit 2)")

# =============================================================================== C13.a header
_HD = "verif_kani_header"
_hdr_fns = ["header::M2Header::parse", "header::M2Header::write", "common::M2Array::{parse,write}", "version::M2Version::from_header_version"]
H("C13", "m2", _HD, "quick", "C13.a header: parse consumes the format's header size for the version/flag class, write(parse(b)) == b, parsed header is well formed",
  ["c13a_header_v256"], _hdr_fns,
  "352 symbolic bytes behind the assigned magic and version; flag word assigned (layout bits 0x8 combiners, 0x8000000 blend override as named; the 30 other bits all clear or all set)",
  "one header; version 256, layout bits clear",
  assumes=["texture_animation_lookup.count <= 1 000 000 (documented corruption workaround zeroes larger counts)"], stubs=[FMT])
H("C13", "m2", _HD, "thorough", "C13.a header, the other version classes and the classes with optional arrays (combiner bit / blend-override bit set)",
  ["c13a_header_v260", "c13a_header_v264", "c13a_header_v272", "c13a_header_v274_legion",
   "c13a_header_v256_combiners_blendbit", "c13a_header_v260_blend", "c13a_header_v263_combiners_blend", "c13a_header_v264_combiners",
   "c13a_header_v272_combiners_blend", "c13a_header_v276_legion_combiners_blend"], _hdr_fns,
  "as above with version and layout bits assigned as in the harness name",
  "version in {256,260,263,264,272,274,276} x flag class",
  assumes=["texture_animation_lookup.count <= 1 000 000"], stubs=[FMT], timeout=2400)
H("C13", "m2", _HD, "quick", "C13.a M2Header::new(v) is well formed (optional fields == those the format defines for v)",
  ["c13a_header_new_well_formed"], ["header::M2Header::new", "version::M2Version::{to_header_version,from_header_version}"],
  "concrete: the 9 versions TBC..TheWarWithin without WoD", "9 versions",
  assumes=["version != Vanilla (known finding KF-C13-header-new-vanilla)", "version != WoD (known finding KF-C13-version-wod-275)"], stubs=[FMT])
H("C13", "m2", _HD, "thorough", "C13.a M2Header::new(v) with symbolic content is read back with the same layout and content",
  ["c13a_header_new_write_parse_tbc", "c13a_header_new_write_parse_wotlk", "c13a_header_new_write_parse_cataclysm", "c13a_header_new_write_parse_legion"],
  ["header::M2Header::{new,write,parse}"], "name / vertices / particle emitter references and one float symbolic, everything else as new() sets it",
  "one header per version", stubs=[FMT], timeout=2400)
H("C13", "m2", _HD, "quick", "C13.a witness: M2Header::new(Vanilla) lacks playable_animation_lookup", ["c13a_header_new_vanilla_witness"],
  ["header::M2Header::new"], "concrete", "one input", stubs=[FMT], expect="witness:KF-C13-header-new-vanilla")
H("C13", "m2", _HD, "quick", "C13.a version numbers the library writes are read back as the same version",
  ["c13a_version_number_roundtrip"], ["version::M2Version::{to_header_version,from_header_version,detect_expansion}"],
  "version index symbolic over 9 versions", "none",
  assumes=["MoP excluded (shares 272 with Cataclysm: documented)", "WoD excluded (known finding KF-C13-version-wod-275)"], stubs=[FMT])
H("C13", "m2", _HD, "quick", "C13.a witness: WoD is written as 275, which is read back as Legion", ["c13a_version_wod_275_witness"],
  ["version::M2Version::{to_header_version,from_header_version}"], "concrete", "one input", stubs=[FMT], expect="witness:KF-C13-version-wod-275")
H("C13", "m2", _HD, "quick", "C13.a convert(v -> v) is the identity on the header", ["c13a_header_convert_same_version_identity"],
  ["header::M2Header::convert"], "flags and the content of name/bones/vertices/textures/particle emitters/optional arrays symbolic; versions Vanilla, TBC, WotLK, Cataclysm, Legion, BfA, TheWarWithin",
  "7 versions", assumes=["header well formed for its version (what parse returns)"], stubs=[FMT])
H("C13", "m2", _HD, "quick", "C13.a convert(from -> to): result well formed for the target, common fields kept, optional arrays kept when both versions have them",
  ["c13a_header_convert_from_vanilla", "c13a_header_convert_from_tbc", "c13a_header_convert_from_wotlk", "c13a_header_convert_from_cataclysm",
   "c13a_header_convert_from_legion"], ["header::M2Header::convert", "version::M2Version::{to_header_version,from_header_version}"],
  "source version per harness, target version symbolic over 10 versions, flags (30 bits) and array contents symbolic", "one header",
  assumes=["flag bits 0x8 and 0x8000000 clear (known finding KF-C13-header-convert-flags)", "target != WoD (known finding KF-C13-version-wod-275)",
           "source header well formed"], stubs=[FMT])
H("C13", "m2", _HD, "quick", "C13.a witness: Cataclysm header with USE_TEXTURE_COMBINERS converted to WotLK", ["c13a_header_convert_flags_witness"],
  ["header::M2Header::convert"], "concrete", "one input", stubs=[FMT], expect="witness:KF-C13-header-convert-flags")
H("C13", "m2", _HD, "quick", "canary", ["c13a_header_canary"], ["header::M2Header::convert"], "vacuity twin", "-", expect="canary", stubs=[FMT])

# =============================================================================== C13.b records
_RC = "verif_kani_records"
H("C13", "m2", _RC, "quick", "C13.b sequence record: size == the 32/52 the writer adds, write(parse(b)) == b",
  ["c13b_sequence_v256", "c13b_sequence_v257", "c13b_sequence_v259", "c13b_sequence_v260", "c13b_sequence_v264", "c13b_sequence_v272"],
  ["chunks::animation::M2Animation::{parse,write}", "chunks::animation::M2Range::{parse,write}", "model::M2Model::write (anim_size constant)"],
  "record bytes fully symbolic (40/60-byte buffer)", "one record per version number 256, 257, 259 (right behind the switch of M2Model::write), 260, 264, 272",
  assumes=["v256: start_timestamp <= u32::MAX - 1000 (known finding KF-C13-sequence-start-overflow)", _CONSTS], stubs=[FMT])
H("C13", "m2", _RC, "quick", "C13.b sequence table: the size rule of M2Model::write (operator, threshold and both sizes taken from model.rs) == bytes M2Animation::write/parse move, for every legacy version number",
  ["c13b_sequence_size_rule"],
  ["chunks::animation::M2Animation::{parse,write}", "model::M2Model::write (anim_size rule)"],
  "version symbolic in 256..=264, record bytes fully symbolic", "one record",
  assumes=["start_timestamp <= u32::MAX - 1000 (known finding KF-C13-sequence-start-overflow)", _CONSTS], stubs=[FMT])
H("C13", "m2", _RC, "quick", "C13.b witness: Vanilla sequence with start_timestamp = u32::MAX", ["c13b_sequence_start_overflow_witness"],
  ["chunks::animation::M2Animation::write"], "concrete", "one input", stubs=[FMT], expect="witness:KF-C13-sequence-start-overflow")
H("C13", "m2", _RC, "thorough", "C13.b sequence written in the other layout (conversion): size the writer assumes, shared fields kept",
  ["c13b_sequence_cross_version"], ["chunks::animation::M2Animation::{parse,write,convert}"],
  "record bytes symbolic, direction (256->264 / 264->256) symbolic", "one record",
  assumes=["start_timestamp <= u32::MAX - 1000 (known finding KF-C13-sequence-start-overflow)"], stubs=[FMT], timeout=2400)
H("C13", "m2", _RC, "quick", "C13.b bone record: size == the 108/112/88 the writer adds, write(parse(b)) == b",
  ["c13b_bone_v256", "c13b_bone_v260", "c13b_bone_v264"],
  ["chunks::bone::M2Bone::{parse,write}", "chunks::m2_track::M2Track::{parse,write}", "chunks::m2_track::M2TrackBase::{parse,write}",
   "common::C3Vector::{parse,write}", "model::M2Model::write (bone_size constant)"],
  "record bytes symbolic (120-byte buffer); the three interpolation-type words are masked to 0..3", "one record per version class",
  assumes=["interpolation type is one of the 4 the enum holds (others are mapped to Linear by the parser: documented lossy)",
           "pivot has no NaN component (documented repair zeroes NaN pivots)", _CONSTS], stubs=[FMT])
H("C13", "m2", _RC, "thorough", "C13.b bone record, versions 263 and 272", ["c13b_bone_v263", "c13b_bone_v272"],
  ["chunks::bone::M2Bone::{parse,write}", "chunks::m2_track::M2Track::{parse,write}"], "as above", "one record", assumes=["as above"], stubs=[FMT], timeout=2400)
H("C13", "m2", _RC, "thorough", "C13.b static bone (what the writer emits without preserved key frames): size per version, fields kept",
  ["c13b_bone_static_all_versions"], ["chunks::bone::M2Bone::{new,write,parse}"],
  "bone id, parent, submesh id, name CRC, pivot.x symbolic; versions 256, 260, 263, 264, 272", "one bone x 5 versions",
  assumes=["pivot not NaN"], stubs=[FMT], timeout=2400)
H("C13", "m2", _RC, "quick", "C13.b vertex / texture definition / material records: sizes == 48/16/4 the writer adds, write(parse(b)) == b",
  ["c13b_vertex", "c13b_texture_def", "c13b_material"],
  ["chunks::vertex::M2Vertex::{parse_with_validation,write}", "chunks::texture::M2Texture::{parse,write}", "common::M2ArrayString::{parse,write}",
   "common::FixedString::parse", "chunks::material::M2Material::{parse,write}", "model::M2Model::write (vertex_size, texture_def_size, material size)"],
  "record bytes symbolic; vertex: bone count symbolic; texture: 4-byte file name at offset 16 (shape), content symbolic", "one record each",
  assumes=["vertex bone indices < bone count (documented repair replaces the others by 0)", "texture type is one the enum holds (0..14, 255)", _CONSTS],
  stubs=[FMT])
H("C13", "m2", _RC, "quick", "C13.b attachment / event / light / camera records: write(parse(b)) == b with the documented size (size() where the library has one)",
  ["c13b_attachment", "c13b_attachment_one_key", "c13b_event", "c13b_camera_v264"],
  ["chunks::attachment::M2Attachment::{parse,write,size}", "chunks::event::M2Event::{parse,write,size}", "chunks::camera::M2Camera::{parse,write,size}",
   "chunks::animation::M2AnimationBlock::{parse,write}", "chunks::animation::M2AnimationTrack::{parse,write}", "common::M2Vec::parse", "common::read_array"],
  "record bytes symbolic; value arrays of the embedded tracks empty (one harness: one key, value at offset 48)", "one record each",
  assumes=["interpolation type in 0..3", "padding bytes zero", "camera v264 is measured against the 132 bytes it really has (known finding KF-C13-camera-size)"],
  stubs=[FMT])
H("C13", "m2", _RC, "thorough", "C13.b light record (164 bytes) and camera v256 / v263", ["c13b_light", "c13b_camera_v256", "c13b_camera_v263"],
  ["chunks::light::M2Light::{parse,write}", "chunks::camera::M2Camera::{parse,write,size}"], "record bytes symbolic, 5 embedded tracks with empty value arrays",
  "one record", assumes=["light type in 0..3, padding zero, interpolation types in 0..3"], stubs=[FMT], timeout=2400)
H("C13", "m2", _RC, "quick", "C13.b witness: M2Camera::size(264) vs bytes written", ["c13b_camera_size_witness"],
  ["chunks::camera::M2Camera::{new,write,size}"], "concrete", "one input", stubs=[FMT], expect="witness:KF-C13-camera-size")
H("C13", "m2", _RC, "quick", "C13.b compressed quaternion write->parse", ["c13b_compquat"], ["chunks::m2_track::M2CompQuat::{parse,write}"],
  "y, z, w symbolic", "one value", assumes=["x == 0 (known finding KF-C13-compquat-x)"], stubs=[FMT])
H("C13", "m2", _RC, "quick", "C13.b witness: compressed quaternion with x = 5", ["c13b_compquat_x_witness"], ["chunks::m2_track::M2CompQuat::{parse,write}"],
  "concrete", "one input", stubs=[FMT], expect="witness:KF-C13-compquat-x")
H("C13", "m2", _RC, "quick", "C13.b embedded skin (pre-WotLK): element sizes used by the parser == divisors used by the writer == record sizes",
  ["c13b_embedded_skin_element_sizes"], ["model::collect_embedded_skin_data (constants)", "model::M2Model::write (constants)", "skin::SkinBatch::write"],
  "SkinBatch fields symbolic; constants from the sources", "-", assumes=["batch divisor of the writer excluded (known finding KF-C13-embedded-batch-size)", _CONSTS], stubs=[FMT])
H("C13", "m2", _RC, "quick", "C13.b witness: embedded skin batch size 24 (parser) vs 96 (writer)", ["c13b_embedded_batch_size_witness"],
  ["model::collect_embedded_skin_data (constant)", "model::M2Model::write (constant)"], "constants from the sources", "-", stubs=[FMT],
  expect="witness:KF-C13-embedded-batch-size")
H("C13", "m2", _RC, "quick", "canary", ["c13b_records_canary"], ["chunks::material::M2Material::parse"], "vacuity twin", "-", expect="canary", stubs=[FMT])


# =============================================================================== C13.c skin
_SK = "verif_kani_skin"
H("C13", "m2", _SK, "quick", "C13.c skin records: submesh 48 bytes, batch 24 bytes, write(parse(b)) == b", ["c13c_submesh_record", "c13c_batch_record"],
  ["skin::SkinSubmesh::{parse,write}", "skin::SkinBatch::{parse,write}"], "record bytes symbolic (submesh padding word zero)", "one record", stubs=[FMT])
H("C13", "m2", _SK, "quick", "C13.c skin headers (new layout versions 0..3, old layout): calculate_size() == bytes written == bytes parsed, fields kept",
  ["c13c_new_header_roundtrip", "c13c_old_header_roundtrip"],
  ["skin::SkinHeader::{write,parse,calculate_size}", "skin::OldSkinHeader::{write,parse,calculate_size}"],
  "all counts/offsets/version/bone_count_max symbolic", "one header", assumes=["new layout: version <= 3 (version 4 with center position: known finding KF-C13-skin-center-lost)"], stubs=[FMT])
H("C13", "m2", _SK, "quick", "C13.c witness: BfA skin header loses center_position", ["c13c_header_center_witness"],
  ["skin::SkinHeader::{write,parse}"], "concrete", "one input", stubs=[FMT], expect="witness:KF-C13-skin-center-lost")
_skfn = ["skin::SkinG::{write,parse}", "skin::SkinHeader::{write,parse,calculate_size,set_array_fields}", "skin::OldSkinHeader::{write,parse,calculate_size}",
         "skin::SkinSubmesh::{parse,write}", "skin::SkinBatch::{parse,write}"]
_skin_shape = "shape: 2 indices, 3 triangle indices, 1 vertex (4 bone indices), and (1 submesh, 0 batches) or (0 submeshes, 1 batch); all contents symbolic"
H("C13", "m2", _SK, "quick", "C13.c whole skin write->parse->write, new layout with a submesh / old layout with a batch: lengths, contents, second write byte-identical",
  ["c13c_skin_new_1submesh", "c13c_skin_old_1batch"], _skfn, _skin_shape,
  "that shape", assumes=["not both a submesh and a batch (known finding KF-C13-skin-submesh-advance)"], stubs=[FMT])
H("C13", "m2", _SK, "thorough", "C13.c whole skin write->parse->write, the two other layout / shape combinations",
  ["c13c_skin_new_1batch", "c13c_skin_old_1submesh"], _skfn, _skin_shape,
  "that shape", assumes=["not both a submesh and a batch (known finding KF-C13-skin-submesh-advance)"], stubs=[FMT], timeout=2400)
H("C13", "m2", _SK, "quick", "C13.c witness: submesh record 48 bytes vs the 40 the skin writer adds per submesh",
  ["c13c_submesh_advance_witness"], ["skin::SkinSubmesh::write", "skin::SkinG::write (constant)"],
  "submesh fields symbolic", "one record", stubs=[FMT], expect="witness:KF-C13-skin-submesh-advance")
H("C13", "m2", _SK, "thorough", "C13.c witness: skin with one submesh and one batch, write->parse",
  ["c13c_skin_submesh_and_batch_witness"], ["skin::SkinG::{write,parse}"],
  "concrete skin", "one input", stubs=[FMT], expect="witness:KF-C13-skin-submesh-advance", timeout=2400)
H("C13", "m2", _SK, "quick", "C13.c parse_skin (layout auto-detection) reads an old-layout skin written by the library back as old layout",
  ["c13c_parse_skin_autodetect_old"], ["skin::parse_skin", "skin::detect_skin_format", "skin::SkinG::{write,parse}"], "5 indices, symbolic", "that shape",
  assumes=["at least 5 indices (known finding KF-C13-skin-autodetect-small)"], stubs=[FMT])
H("C13", "m2", _SK, "quick", "C13.c witness: old-layout skin with 4 indices through parse_skin", ["c13c_parse_skin_autodetect_small_witness"],
  ["skin::detect_skin_format (first step of skin::parse_skin)", "skin::SkinG::write"], "concrete", "one input", stubs=[FMT], expect="witness:KF-C13-skin-autodetect-small")
H("C13", "m2", _SK, "quick", "canary", ["c13c_skin_canary"], ["skin::SkinBatch::parse"], "vacuity twin", "-", expect="canary", stubs=[FMT])

# =============================================================================== C13.d anim
_AN = "verif_kani_anim"
H("C13", "m2", _AN, "quick", "C13.d anim records: header 20, entry 12, section header 16 bytes == the constants the writer/parser compute with; write(parse(b)) == b",
  ["c13d_anim_header_record", "c13d_anim_entry_record", "c13d_anim_section_header_record"],
  ["anim::AnimHeader::{parse,write}", "anim::AnimEntry::{parse,write}", "anim::AnimSectionHeader::{parse,write}"],
  "record bytes symbolic behind the assigned magic", "one record", assumes=[_CONSTS], stubs=[FMT])
H("C13", "m2", _AN, "quick", "C13.d section with one bone and one key per track: parse of the section image returns that content (fields where the layout puts them)",
  ["c13d_anim_section_parse"], ["anim::AnimSection::parse", "anim::AnimSectionHeader::parse", "common::C3Vector::parse", "common::Quaternion::parse"],
  "92-byte section image: magic, offset word (20), flags (7) and the three key counts (1) assigned; ids, time stamps and 10 floats symbolic",
  "1 bone, 1 key per track; parse is given size = 16 + 4 * bones", stubs=[FMT])
H("C13", "m2", _AN, "thorough", "C13.d section with one bone and one translation key written: exactly the image the parser reads (offset table points at the bone)",
  ["c13d_anim_section_write"], ["anim::AnimSection::write", "anim::AnimSectionHeader::write", "common::C3Vector::write"],
  "ids, frame end, time stamp, 2 floats symbolic", "1 bone, 1 translation key", stubs=[FMT], timeout=2400)
_afile = ["anim::AnimFile::{parse,write}", "anim::AnimParser::parse_modern", "anim::AnimFile::write_modern", "anim::AnimFormatDetector::detect_format",
          "anim::AnimSection::{parse,write}"]
H("C13", "m2", _AN, "quick", "C13.d modern anim file, one section, one bone without keys: parse of the file image returns that content (fields where the layout puts them)",
  ["c13d_anim_file_parse"], _afile,
  "52-byte file image: magics, id_count, entry offset, section offset/size, bone offset word (0) assigned; version, unknown, ids, frame range symbolic",
  "1 section, 1 bone, no key frames", assumes=["bones carry no key frames (known finding KF-C13-anim-section-size)"], stubs=[FMT])
H("C13", "m2", _AN, "quick", "C13.d witness: section with one translation key parsed with the length AnimFile::write records for it", ["c13d_anim_section_size_witness"],
  ["anim::AnimSection::parse", "anim::AnimFile::write_modern (entry.size = section length)"], "concrete 48-byte section image", "one input", stubs=[FMT],
  expect="witness:KF-C13-anim-section-size")
H("C13", "m2", _AN, "quick", "C13.d witness: legacy-format anim file loses its section header", ["c13d_anim_legacy_witness"],
  ["anim::AnimFile::{write,parse}", "anim::AnimParser::parse_legacy"], "concrete", "one input", stubs=[FMT], expect="witness:KF-C13-anim-legacy-placeholder")
H("C13", "m2", _AN, "quick", "canary", ["c13d_anim_canary"], ["anim::AnimEntry::parse"], "vacuity twin", "-", expect="canary", stubs=[FMT])

# =============================================================================== C13.e model writer vs header / record parsers
_MD = "verif_kani_model"
_mdl = ["model::M2Model::write", "model::M2Model::calculate_header_size", "header::M2Header::{new,write,parse}"]
H("C13", "m2", _MD, "quick", "C13.e empty model: bytes written == calculate_header_size() == bytes the header parser consumes; version, flags, bounding volume kept",
  ["c13e_model_empty_wotlk"], _mdl,
  "5 header floats symbolic; flags = all bits except the two layout bits; version per harness", "model without any section",
  assumes=["flag bits 0x8 and 0x8000000 clear (known finding KF-C13-model-layout-flags)"], stubs=[FMT, LOSSY13])
H("C13", "m2", _MD, "thorough", "C13.e empty model, Vanilla, TBC and Cataclysm", ["c13e_model_empty_vanilla", "c13e_model_empty_tbc", "c13e_model_empty_cataclysm"], _mdl,
  "as above", "model without any section", assumes=["flag bits 0x8 and 0x8000000 clear"], stubs=[FMT, LOSSY13], timeout=2400)
H("C13", "m2", _MD, "quick", "C13.e witness: empty WotLK model with USE_TEXTURE_COMBINERS",
  ["c13e_model_layout_flags_witness"], _mdl, "concrete", "one input", stubs=[FMT], expect="witness:KF-C13-model-layout-flags")
H("C13", "m2", _MD, "quick", "C13.e witness: empty model with a Legion version number (texture_transforms dropped by the writer)",
  ["c13e_model_legion_witness"], _mdl, "concrete", "one input", stubs=[FMT], expect="witness:KF-C13-model-legion-transforms")
_small = ("2-byte ASCII name, 2 global sequences, 1 animation lookup, 1 key bone lookup, 1 vertex, 1 material, 1 texture lookup: all contents symbolic")
H("C13", "m2", _MD, "quick", "C13.e small model: every (count, offset) in the written header points at its section; section contents kept; file length == header + sections",
  ["c13e_model_small_wotlk"], _mdl + ["chunks::vertex::M2Vertex::write", "chunks::material::M2Material::write"], _small, "that shape; WotLK", stubs=[FMT, LOSSY13])
H("C13", "m2", _MD, "thorough", "C13.e small model, Vanilla / TBC / Cataclysm",
  ["c13e_model_small_vanilla", "c13e_model_small_tbc", "c13e_model_small_cataclysm"],
  _mdl + ["chunks::vertex::M2Vertex::write", "chunks::material::M2Material::write"], _small, "that shape; version per harness", stubs=[FMT, LOSSY13], timeout=2400)
H("C13", "m2", _MD, "thorough", "C13.e model with one element per section (sequence, static bone, 6 lookup tables, bounding triangles/vertices/normals, event): offsets, order, contents, file length",
  ["c13e_model_sections_wotlk", "c13e_model_sections_tbc", "c13e_model_sections_vanilla"],
  _mdl + ["chunks::animation::M2Animation::write", "chunks::bone::M2Bone::write", "chunks::event::M2Event::write"],
  "ids, flags, lookup values, 30 bounding bytes, event data symbolic", "one element per listed section; version per harness", stubs=[FMT, LOSSY13], timeout=2400)
H("C13", "m2", _MD, "quick", "C13.e witness: model with one texture that has a file name", ["c13e_model_texture_filename_witness"],
  _mdl, "concrete", "one input", stubs=[FMT], expect="witness:KF-C13-model-texture-filename")
H("C13", "m2", _MD, "quick", "canary", ["c13e_model_canary"], ["model::M2Model::calculate_header_size"], "vacuity twin", "-", expect="canary", stubs=[FMT])

OUTSIDE["C13"] = [
    "M2Model::parse as a whole, hence parse(write(model)) == model at model level: M2Model::write is decided against M2Header::parse, the record parsers "
    "and direct reads at the offsets of the written header, for models with at most one element per section",
    "model sections that own a Vec per record (textures, attachments, cameras, lights: CBMC out of memory at model level; decided at record level only), "
    "particle / ribbon emitters, texture / colour / transparency animations, colour replacements",
    "preserved key-frame data (raw_data.*_animation_data): its collection from a parsed file, the construction of the old-offset -> new-offset map and "
    "the relocation of particle / ribbon / texture / colour / transparency / event / attachment / camera / light records - decided is only the relocation "
    "step for bones (relocate_bone_track_offsets, maps of <= 3 entries, on the association-list model of HashMap); embedded skins at model level (only "
    "their element-size constants)",
    "textures with a file name at model level (the writer fails on them: KF-C13-model-texture-filename)",
    "chunked (MD21) files and Legion+ file-id chunks",
    "version conversion of whole models (M2Model::convert, M2Converter paths): decided for the header and for sequences; bone / vertex / texture / material "
    "convert are clones",
    "header: version numbers other than 256, 260, 263, 264, 272, 274, 276 (incl. the legacy numbers 8..19); flag words other than the named layout bits "
    "combined with the other 30 bits all clear or all set",
    "skins beyond the shape 2 indices / 3 triangle indices / 1 vertex / at most 1 submesh or 1 batch; Skin::convert, to_old_format, to_new_format; "
    "bone index arrays whose length is not a multiple of 4",
    "anim: AnimFile::write as a whole (no verdict under the 14 GB memory cap; decided: records, AnimSection::write, AnimFile::parse), more than one section, "
    "bone or key per track; AnimFile::convert; the legacy layout (placeholder parser: KF-C13-anim-legacy-placeholder)",
    "names longer than 2 bytes or non-ASCII; floats are compared bitwise (NaN payloads included) except for the documented NaN-pivot repair",
    "allocation behaviour on untrusted counts (read_array pre-allocates count * size): C05 territory",
]
H = _H13_orig

# ---- added after the seeded-change trials: record-level version conversion
H("C13", "m2", _RC, "quick", "C13.f converting a bone to another version keeps identity, parent, flags, pivot and (for targets TBC+) the name CRC",
  ["c13f_bone_convert_keeps_common_content"], ["chunks::bone::M2Bone::convert"],
  "bone scalar fields and name CRC symbolic, target version in Vanilla..Legion symbolic", "one bone (tracks empty)", stubs=["std::fmt::format -> String::new()"])

# =============================================================================== C13.g preserved key-frame relocation
_RL = "verif_kani_relocate"
_VM13 = "HashMap<u32,u32> (old offset -> new offset) -> association-list model in the scratch copy (catalogue rewrite of model.rs)"
H("C13", "m2", _RL, "quick", "C13.g preserved key-frame data: after relocate_bone_track_offsets no track array carries an offset of the old file - moved to the mapped offset with its count, or the track is emptied",
  ["c13g_bone_relocation_pre_wotlk", "c13g_bone_relocation_wotlk"], ["model::relocate_bone_track_offsets (relocate_or_zero_track)"],
  "three tracks: count and offset of time stamps, values and (pre-WotLK) ranges all symbolic; relocation map of 1..=3 entries, keys and values symbolic",
  "one bone, map of <= 3 entries", stubs=[FMT, _VM13], timeout=900)
H("C13", "m2", _RL, "thorough", "C13.g the same for cameras (3 animation blocks) and lights (5): every non-empty array of a block is moved to its mapped offset with its count, or the block is emptied",
  ["c13g_camera_relocation", "c13g_light_relocation"], ["model::relocate_camera_animation_offsets", "model::relocate_light_animation_offsets"],
  "per block: count and offset of interpolation ranges, time stamps and values symbolic; relocation map of 1..=3 entries symbolic",
  "one camera / one light, map of <= 3 entries", stubs=[FMT, _VM13], timeout=1800)
H("C13", "m2", _RL, "quick", "canary", ["c13g_canary"], ["model::relocate_bone_track_offsets"], "vacuity twin", "-", expect="canary", stubs=[FMT, _VM13])
