# C05 kernels of wow-blp (bounds helpers); the crate itself is registered by cat_C16.py (loaded after this file:
# the attach entry is added lazily below)
def _c05_blp_register():
    if "blp" not in CRATES:
        return False
    att = CRATES["blp"]["attach"]
    if not any(a[2] == "verif_kani_bounds" for a in att):
        att.append(("src/parser/bounds.rs", "blp/bounds.rs", "verif_kani_bounds", ""))
    H("C05", "blp", "verif_kani_bounds", "quick", "C05.blp.1 BLP bounds helpers are total for hostile (offset, size) pairs and accept only ranges inside the input",
      ["c05_blp_check_bounds_total", "c05_blp_bounded_slice_total"], ["parser::bounds::check_bounds", "parser::bounds::get_bounded_slice"],
      "offset, size: u32 symbolic; input of <= 8 symbolic bytes (symbolic length)", "8-byte input", stubs=["::std::fmt::format -> String::new()"])
    H("C05", "blp", "verif_kani_bounds", "quick", "canary", ["c05_blp_bounds_canary"], ["parser::bounds::check_bounds"], "vacuity twin", "-", expect="canary")
    return True
_C05_BLP_PENDING = not _c05_blp_register()
