# C05 kernels of wow-blp (bounds helpers); the crate itself is registered by cat_C16.py (loaded after this file:
# the attach entry is added lazily below)
def _c05_blp_register():
    if "blp" not in CRATES:
        return False
    att = CRATES["blp"]["attach"]
    if not any(a[2] == "verif_kani_bounds" for a in att):
        att.append(("src/parser/bounds.rs", "blp/bounds.rs", "verif_kani_bounds", ""))
    H("C05", "blp", "verif_kani_bounds", "quick", "C05.blp.1 BLP bounds helpers are total for hostile (offset, size) pairs and accept only ranges inside the input",
      ["c05_blp_check_bounds_total", "c05_blp_bounded_slice_total"], ["parser::bounds::check_bounds", "parser::bounds::get_bounded_slice"],
      "offset, size: u32 symbolic; input of <= 8 symbolic bytes (symbolic length)", "8-byte input", stubs=["::std::fmt::format -> String::new()"])
    H("C05", "blp", "verif_kani_direct", "thorough", "C05.blp.2 parse_dxtn on a hostile BLP2 header: value or error for every width / height / mipmap flag / locator offset - "
      "no index beyond the 16-entry mipmap locator, no overflow in the block-count arithmetic, at most 16 levels",
      ["c05_blp_parse_dxt1_hostile_header", "c05_blp_parse_dxt5_hostile_header"], ["parser::direct::blp2::parse_dxtn", "BlpHeader::mipmaps_count", "BlpHeader::mipmap_size"],
      "width, height: u32 symbolic below 2^31 (not limited to the encoder's 65535), has_mipmaps u8 symbolic, one symbolic offset shared by the 16 locator entries, declared sizes 0, 16 symbolic file bytes",
      "16-byte file; level payloads empty (declared size 0)", stubs=["::std::fmt::format -> String::new()", "f32::log2 -> integer model floor(log2 x) (libm is imprecise in CBMC; equality after `as usize` checked natively for 0..=70000)"],
      timeout=2400)
    H("C05", "blp", "verif_kani_bounds", "quick", "canary", ["c05_blp_bounds_canary"], ["parser::bounds::check_bounds"], "vacuity twin", "-", expect="canary")
    return True
_C05_BLP_PENDING = not _c05_blp_register()
