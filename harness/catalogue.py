# Catalogue of proof harnesses: which property/obligation each serves, where it is attached,
# which real functions it encodes, its symbolic inputs, bounds, assumptions and stubs.
# bin/check reads this; the per-harness text ends up verbatim in the evidence files.

FMT = "std::fmt::format -> String::new() (message text is never the subject)"

CRATES = {
    "mpq": {
        "dir": "file-formats/archives/wow-mpq",
        "attach": [
            # (source file the module is appended to, harness file, module name, visibility)
            ("src/crypto/mod.rs", "mpq/crypto.rs", "verif_kani_crypto", ""),
            ("src/tables/mod.rs", "mpq/tables_common.rs", "verif_kani_common", "pub(crate)"),
            ("src/security.rs", "mpq/security.rs", "verif_kani_security", ""),
            ("src/compression/compress.rs", "mpq/compress.rs", "verif_kani_compress", ""),
            ("src/archive.rs", "mpq/archive_fab.rs", "verif_kani_archive", "pub(crate)"),
            ("src/builder.rs", "mpq/builder_path.rs", "verif_kani_builder_path", ""),
            ("src/modification.rs", "mpq/modification.rs", "verif_kani_modification", ""),
            ("src/builder.rs", "mpq/builder_layout.rs", "verif_kani_builder_layout", ""),
            ("src/crypto/signature.rs", "mpq/signature.rs", "verif_kani_signature", ""),
            ("src/patch/apply.rs", "mpq/patch_apply.rs", "verif_kani_patch", ""),
            ("src/compression/algorithms/rle.rs", "mpq/rle.rs", "verif_kani_rle", ""),
            ("src/header.rs", "mpq/header.rs", "verif_kani_header", ""),
            ("src/patch_chain.rs", "mpq/patch_chain.rs", "verif_kani_chain", ""),
            ("src/special_files/attributes.rs", "mpq/attributes.rs", "verif_kani_attributes", ""),
            ("src/compression/mod.rs", "mpq/dispatch.rs", "verif_kani_dispatch", ""),
            ("src/compression/algorithms/adpcm.rs", "mpq/adpcm.rs", "verif_kani_adpcm", ""),
            ("src/tables/hash.rs", "mpq/tables_hash.rs", "verif_kani_tables_hash", ""),
            ("src/compression/algorithms/sparse.rs", "mpq/sparse.rs", "verif_kani_sparse", ""),
            ("src/archive.rs", "mpq/v4_md5.rs", "verif_kani_v4md5", ""),
        ],
        # derived copy (scratch only): the sparse codec's source text with Vec<u8> -> bounded-array model BVec
        "derive": [("src/compression/algorithms/sparse.rs", "gen/sparse_bv.rs",
                    [(r"\bVec<u8>", "BVec"), (r"\bVec::(with_capacity|new)\b", r"BVec::\1")], "use super::BVec;"),
                   ("src/compression/algorithms/sparse.rs", "gen/sparse_bvs.rs",
                    [(r"\bVec<u8>", "BVecS"), (r"\bVec::(with_capacity|new)\b", r"BVecS::\1")], "use super::BVecS;")],
        "prepend": [("src/lib.rs", "#![cfg_attr(kani, feature(read_buf, core_io_borrowed_buf))]\n#![cfg_attr(kani, recursion_limit = \"512\")]")],
    },
    "cdbc": {
        "dir": "file-formats/database/wow-cdbc",
        "attach": [("src/writer.rs", "cdbc/writer.rs", "verif_kani_writer", ""),
                   ("src/parser.rs", "cdbc/parser.rs", "verif_kani_parser", ""),
                   ("src/lib.rs", "env/vmap.rs", "verif_vmap", "pub(crate)")],
        # scratch copy only: the writer's string-offset table becomes the association-list model of HashMap
        "rewrite": [("src/writer.rs", r"^use std::collections::HashMap;$", "#[cfg(kani)] use crate::verif_vmap::VMap as HashMap;\n#[cfg(not(kani))] use std::collections::HashMap;"),
                    ("src/parser.rs", r"^use std::collections::HashMap;$", "#[cfg(kani)] use crate::verif_vmap::VMap as HashMap;\n#[cfg(not(kani))] use std::collections::HashMap;")],
        "kani_args": ["--lib"],
    },
    "ffi": {
        "dir": "ffi/storm-ffi",
        "attach": [("src/lib.rs", "ffi/storm.rs", "verif_kani_storm", "")],
        "kani_args": ["--lib"],
        # archive-level steps fabricate a wow_mpq::Archive through a pub facade attached to the dependency
        "needs": ["mpq_pub"],
    },
    "mpq_pub": {
        "dir": "file-formats/archives/wow-mpq",
        "attach": [("src/archive.rs", "mpq/archive_fab.rs", "verif_kani_archive", "pub")],
        "prepend": [("src/lib.rs", "#![cfg_attr(kani, feature(read_buf, core_io_borrowed_buf))]")],
    },
    "wdt": {
        "dir": "file-formats/world-data/wow-wdt",
        "attach": [("src/lib.rs", "wdt/wdt.rs", "verif_kani_wdt", "")],
    },
    "wdl": {
        "dir": "file-formats/world-data/wow-wdl",
        "attach": [("src/lib.rs", "wdl/wdl.rs", "verif_kani_wdl", ""),
                   ("src/lib.rs", "env/vmap.rs", "verif_vmap", "pub(crate)")],
        # scratch copy only: the tile maps become the association-list model of HashMap (hashbrown is not executable in CBMC)
        "rewrite": [(f, r"^use std::collections::HashMap;$", "#[cfg(kani)] use crate::verif_vmap::VMap as HashMap;\n#[cfg(not(kani))] use std::collections::HashMap;")
                    for f in ("src/types.rs", "src/parser.rs", "src/conversion.rs")],
    },
}

GLOBAL_ASSUMPTIONS = [
    "Kani 0.68 / CBMC 6.11 semantics of Rust MIR (dev profile: overflow checks on); CaDiCaL verdicts trusted",
    "harness modules are attached to a scratch copy of /repo's working tree as cfg(kani) child modules; /repo itself is not modified",
    "every result is bounded by the harness's unwind bound and input shape; unwinding assertions are on, so a too-small bound is reported, not hidden",
]

OUTSIDE = {
    "C03": [
        "round trips through the real zlib / bzip2 / LZMA / PKWare / implode / Huffman codecs (external crates or table-driven loops beyond CBMC's reach): "
        "for them only the store-raw rule (any codec behaviour), dispatch consistency and acceptance of every emit-able size pair are decided",
        "the sparse codec on inputs of more than 7 bytes (cost grows with N^3; 8 bytes: no verdict in 20 min) - in particular the literal-run markers "
        "0x80/0x81/0x82, which need a run of 128..130 bytes: the 138-byte harness with per-loop bounds gave no verdict in 50 minutes and is not registered",
        "the bounded-array model of Vec<u8> in the derived copy of sparse.rs is trusted (same observable push / extend_from_slice / resize / len / deref semantics; "
        "checked against the real functions on three concrete vectors)",
        "multi-method selectors (sparse+zlib, sparse+bzip2 ...) beyond dispatch, ADPCM length / interleaving beyond decoder totality",
        "KF-C03-ratio (the fixed 1000:1 ratio test rejects the library's own output) is excluded by assumption and witnessed",
    ],
    "C04": [
        "names longer than 4 bytes (MPQ hash vs reference: 3 bytes; fold invariance: 4 bytes; HET hash: listed lengths up to 25)",
        "cipher buffers longer than 8 words / byte buffers longer than 17 bytes",
        "non-ASCII names for the Jenkins hashes (MPQ hash covers every valid UTF-8 string of <= 3 bytes)",
        "hash widths outside 8..=64 for the HET hash",
    ],
}

_H = []


def modpath(crate, modname):
    for (src, hfile, m, vis) in CRATES[crate]["attach"]:
        if m == modname:
            p = src[len("src/"):]
            if p.endswith(".rs"):
                p = p[:-3]
            parts = [x for x in p.split("/") if x not in ("lib", "mod", "main")]
            return "::".join(parts + [m])
    raise KeyError(modname)


def H(prop, crate, mod, tier, obl, names, functions, inputs, bounds, assumes=(), stubs=(), timeout=300,
      expect="holds", **kw):
    for n in names if isinstance(names, (list, tuple)) else [names]:
        d = dict(prop=prop, crate=crate, mod=mod, tier=tier, obl=obl, name=n, full=modpath(crate, mod) + "::" + n,
                 functions=list(functions), inputs=inputs, bounds=bounds, assumes=list(assumes), stubs=list(stubs),
                 timeout=timeout, expect=expect)
        d.update(kw)
        _H.append(d)


def harnesses():
    return list(_H)


# =============================================================================== C04
_C = "verif_kani_crypto"
H("C04", "mpq", _C, "quick", "C04.a crypt table == generator of the format", ["c04a_crypt_table"],
  ["crypto::keys::ENCRYPTION_TABLE (const fn generate_encryption_table)"],
  "index i: usize (symbolic, all 1280 entries in one query)", "unwind 258 (reference generator, concrete)")
H("C04", "mpq", _C, "quick", "C04.a case tables == toupper/tolower", ["c04a_case_tables"],
  ["crypto::keys::ASCII_TO_UPPER", "crypto::keys::ASCII_TO_LOWER"], "index i: u8 (symbolic, all 256)", "none")
H("C04", "mpq", _C, "quick", "C04.b hash_string == reference HashString, 4 hash types",
  ["c04b_hash_len0", "c04b_hash_len1", "c04b_hash_len2"],
  ["crypto::hash::hash_string"], "name: every valid UTF-8 string of exactly 0/1/2 bytes (symbolic), hash type in 0..4 (symbolic)",
  "name length <= 2 bytes; unwind 258 for the concrete reference table", assumes=["bytes form valid UTF-8 (a &str cannot carry anything else)"])
H("C04", "mpq", _C, "quick", "C04.b hash_string == reference HashString on concrete non-ASCII names (cheap guard for Unicode-aware folding)",
  ["c04b_hash_nonascii_samples"], ["crypto::hash::hash_string"], "five concrete non-ASCII names, hash type symbolic", "concrete names",
  timeout=600)
H("C04", "mpq", _C, "thorough", "C04.b hash_string == reference HashString, 3-byte names", ["c04b_hash_len3"],
  ["crypto::hash::hash_string"], "name: every valid UTF-8 string of exactly 3 bytes, hash type symbolic",
  "name length 3", assumes=["bytes form valid UTF-8"], timeout=1500)
H("C04", "mpq", _C, "quick", "C04.c hashes invariant under ASCII case and slash direction",
  ["c04c_fold_invariance_len1", "c04c_fold_invariance_len2"],
  ["crypto::hash::hash_string", "crypto::jenkins::jenkins_one_at_a_time", "crypto::jenkins::jenkins_hashlittle2"],
  "two ASCII names a, b of equal length N (symbolic), hash type symbolic, HET width in {8,32,48,64}",
  "N <= 2", assumes=["fold(a[i]) == fold(b[i]) for all i (fold = '/'->'\\\\', ASCII upper-case)", "bytes < 0x80"])
H("C04", "mpq", _C, "thorough", "C04.c fold invariance, 3- and 4-byte names", ["c04c_fold_invariance_len3", "c04c_fold_invariance_len4"],
  ["crypto::hash::hash_string", "crypto::jenkins::jenkins_one_at_a_time", "crypto::jenkins::jenkins_hashlittle2"],
  "as above, N in {3,4}", "N in {3,4}", assumes=["fold-equal ASCII names"], timeout=3600)
H("C04", "mpq", _C, "quick", "C04.d decrypt_block inverts encrypt_block, every key and buffer",
  ["c04d_cipher_inverse_w1", "c04d_cipher_inverse_w2", "c04d_cipher_inverse_w3", "c04d_cipher_inverse_w4",
   "c04d_cipher_inverse_rev_w2"],
  ["crypto::encryption::encrypt_block", "crypto::decryption::decrypt_block"],
  "key: u32 symbolic, buffer: [u32; N] symbolic", "N <= 4 words")
H("C04", "mpq", _C, "thorough", "C04.d cipher inverse, 6 and 8 words",
  ["c04d_cipher_inverse_w6", "c04d_cipher_inverse_w8"],
  ["crypto::encryption::encrypt_block", "crypto::decryption::decrypt_block"],
  "key symbolic, buffer [u32; 6] / [u32; 8] symbolic", "N in {6, 8}", timeout=1500)
H("C04", "mpq", _C, "quick", "C04.d encrypt_block == cipher of the format (non-zero key); decrypt_block undoes the reference cipher",
  ["c04d_cipher_vs_spec_w1"],
  ["crypto::encryption::encrypt_block", "crypto::decryption::decrypt_block"],
  "key symbolic != 0, buffer [u32; 1] symbolic", "N = 1 word",
  assumes=["key != 0 (known finding KF-C04-key0: key 0 is treated as 'not encrypted')"])
H("C04", "mpq", _C, "thorough", "C04.d encrypt_block == cipher of the format, 2 and 3 words", ["c04d_cipher_vs_spec_w2", "c04d_cipher_vs_spec_w3"],
  ["crypto::encryption::encrypt_block", "crypto::decryption::decrypt_block"],
  "key symbolic != 0, buffer [u32; 2|3]", "N in {2,3}", assumes=["key != 0"], timeout=1500)
H("C04", "mpq", _C, "quick", "C04.d witness: cipher with key 0", ["c04d_cipher_vs_spec_key0_witness"],
  ["crypto::encryption::encrypt_block"], "concrete: key 0, one word", "one concrete input",
  expect="witness:KF-C04-key0")
H("C04", "mpq", _C, "quick", "C04.d decrypt_dword == one-word decrypt_block", ["c04d_decrypt_dword"],
  ["crypto::decryption::decrypt_dword", "crypto::decryption::decrypt_block"], "key, value: u32 symbolic", "none")
_bw = ["builder::ArchiveBuilder::encrypt_data", "archive::decrypt_file_data", "tables::common::decrypt_table_data"]
H("C04", "mpq", _C, "quick", "C04.e byte wrappers: decrypt_file_data and decrypt_table_data invert encrypt_data",
  ["c04e_bytes_len%d" % n for n in (1, 2, 3, 4, 5, 6, 7)], _bw,
  "key: u32 symbolic, data: [u8; N] symbolic", "N in 1..=7 bytes (one harness per length, incl. lengths not divisible by 4)")
H("C04", "mpq", _C, "thorough", "C04.e byte wrappers, 8..17 bytes",
  ["c04e_bytes_len%d" % n for n in (8, 9, 11, 12, 13, 16, 17)], _bw,
  "key symbolic, data [u8; N] symbolic", "N in {8,9,11,12,13,16,17}", timeout=1500)
H("C04", "mpq", _C, "quick", "C04.f HET hash == lookup3 hashlittle2 of the folded name, masked to the hash width",
  ["c04f_het_empty_name"] + ["c04f_het_len%d" % n for n in (1, 2, 3, 4, 5, 7, 8, 11, 12, 13)],
  ["crypto::jenkins::jenkins_hashlittle2", "crypto::jenkins::hashlittle2"],
  "name: [u8; N] ASCII symbolic, hash width bits in 8..=64 symbolic",
  "N in {0,1,2,3,4,5,7,8,11,12,13} (crosses the 12-byte block boundary)", assumes=["bytes < 0x80", "8 <= bits <= 64"])
H("C04", "mpq", _C, "thorough", "C04.f HET hash, 24/25-byte names", ["c04f_het_len24", "c04f_het_len25"],
  ["crypto::jenkins::jenkins_hashlittle2", "crypto::jenkins::hashlittle2"],
  "name: [u8; 24|25] ASCII symbolic, bits symbolic", "N in {24,25}", assumes=["bytes < 0x80"], timeout=1500)
H("C04", "mpq", _C, "quick", "C04.f BET hash == one-at-a-time of the lower-folded name",
  ["c04f_bet_len1", "c04f_bet_len3", "c04f_bet_len5"], ["crypto::jenkins::jenkins_one_at_a_time"],
  "name: [u8; N] ASCII symbolic", "N in {1,3,5}", assumes=["bytes < 0x80"])
H("C04", "mpq", _C, "quick", "canary", ["c04_canary"], ["crypto::encryption::encrypt_block"], "vacuity twin", "-",
  expect="canary")

# =============================================================================== C18
_W = "verif_kani_wdt"
H("C18", "wdt", _W, "quick", "C18.a world_to_tile(tile_to_world(t)) == t for all 64x64 tiles", ["c18a_tile_world_roundtrip"],
  ["tile_to_world", "world_to_tile"], "tile x, y: u32 symbolic < 64 (all 4096 tiles in one query; IEEE-754 single in CBMC's float model)", "none",
  assumes=["x < 64, y < 64"])
H("C18", "wdt", _W, "quick", "C18.b WDT chunk records: write(read(b)) == b, read(write(c)) == c, size() == bytes written",
  ["c18b_mphd_bytes_roundtrip", "c18b_mphd_api_roundtrip", "c18b_mver_roundtrip", "c18b_modf_bytes_roundtrip",
   "c18b_modf_two_entries_size", "c18b_modf_bad_size_rejected"],
  ["chunks::mphd::MphdChunk::{read,write,size}", "chunks::MverChunk::{read,write,size}", "chunks::ModfChunk::{read,write,size}"],
  "record bytes fully symbolic (32 / 4 / 64 bytes) or fields symbolic", "one record (MODF: 1 and 2 entries)")
H("C18", "wdt", _W, "thorough", "C18.b MAID: size() == sections * 64 * 64 * 4 for section counts 0, 1, 2, 9", ["c18b_maid_size_formula"],
  ["chunks::maid::MaidChunk::{with_section_count,section_count,size}"], "section counts {0,1,2,9} concrete", "-", timeout=2400)
H("C18", "wdt", _W, "quick", "C18.d MWMO emission rule is stable under write->read->write (version detection vs should_have_chunk)",
  ["c18d_mwmo_rule_stable_under_reparse"],
  ["version::VersionConfig::should_have_chunk", "WdtReader::detect_version", "WdtFile::is_wmo_only"],
  "version (10 values), MPHD flags u32, presence of MWMO/MODF/MAID all symbolic", "chunk presence logic only (no bytes)")
# NOT registered (do not finish in 40 min / 20 GB on the unchanged tree; kept in harness/wdt/wdt.rs): c18b_maid_size_{1,2,8}_section(s),
# c18b_maid_roundtrip_1_section, c18b_main_roundtrip (64x64 grids of nested Vecs), c18c_mwmo_roundtrip (String::from_utf8 on symbolic bytes).
H("C18", "wdt", _W, "quick", "canary", ["c18_wdt_canary"], ["tile_to_world"], "vacuity twin", "-", expect="canary")
_L = "verif_kani_wdl"
# NOT registered: c18f_wdl_writer_offsets_* (harness/wdl/wdl.rs; WdlParser::write on a 3-tile map against its MAOF table, HashMap modelled by
# VMap): symbolic execution alone needs > 40 min - the Vec iterators of HeightMapTile::write are unrolled to the global bound 4100 that the
# 64x64 loops require (about one unrolling per second).  The MAOF offset table of the WDL writer stays outside the C18 claim.
H("C18", "wdl", _L, "quick", "C18.e WDL records: write(read(b)) == b with exactly the documented size",
  ["c18e_wdl_vec3d", "c18e_wdl_bbox", "c18e_wdl_model_placement", "c18e_wdl_m2_placement", "c18e_wdl_m2_visibility", "c18e_wdl_holes"],
  ["types::Vec3d::{read,write}", "types::BoundingBox::{read,write}", "types::ModelPlacement::{read,write}", "types::M2Placement::{read,write}",
   "types::M2VisibilityInfo::{read,write}", "types::HolesData::{read,write}", "types::Chunk::{new,read,write}"],
  "record bytes fully symbolic (12/24/64/40/28/32 bytes); chunk: magic + payload <= 6 symbolic bytes, symbolic length", "one record")
H("C18", "wdl", _L, "thorough", "C18.e WDL chunk framing: header declares exactly the payload", ["c18e_wdl_chunk_framing"],
  ["types::Chunk::{new,read,write}"], "magic and 6 payload bytes symbolic", "payload length 6", timeout=2400)
H("C18", "wdl", _L, "thorough", "C18.e MARE heightmap 545 values write->read, payload == TOTAL_COUNT*2 == 1090", ["c18e_wdl_heightmap_roundtrip"],
  ["types::HeightMapTile::{new,read,write}"], "one outer and one inner height symbolic at symbolic indices", "545 values (format constant)", timeout=2400)
H("C18", "wdl", _L, "quick", "canary", ["c18_wdl_canary"], ["types::Vec3d::read"], "vacuity twin", "-", expect="canary")

# =============================================================================== C03
_S = "verif_kani_security"
_K = "verif_kani_compress"
INST = "std::time::Instant::now -> a fixed instant (clock never advances; time limits never fire)"
H("C03", "mpq", _K, "quick", "C03.a store-raw rule of compress() for every codec behaviour",
  ["c03a_store_raw_n%d_l%d" % nl for nl in ((1, 0), (1, 1), (2, 0), (2, 1), (3, 1), (3, 2), (5, 3), (5, 4), (5, 5), (5, 6), (6, 4), (6, 5))],
  ["compression::compress::compress"],
  "input [u8; N] symbolic, method byte symbolic, codec = nondeterministic stub (fails, or returns L arbitrary bytes)",
  "(N, L) in the listed pairs covering L < N-1, L = N-1, L = N, L > N", stubs=[FMT, "compress_internal -> nondeterministic codec (abstraction)"],
  abstraction_stubs=["compress_internal"])
H("C03", "mpq", _K, "quick", "canary", ["c03a_canary"], ["compression::compress::compress"], "vacuity twin", "-", expect="canary",
  stubs=["compress_internal -> nondeterministic codec"], abstraction_stubs=["compress_internal"])
H("C03", "mpq", _S, "quick", "C03.c every size pair the compressor can emit is accepted by the default limits (d <= 2 MiB)",
  ["c03c_accept_%s_2mib" % m for m in ("zlib", "bzip2", "lzma", "sparse", "sparse_exact", "pkware", "huffman", "adpcm_zlib")],
  ["security::validate_decompression_operation", "security::validate_file_bounds", "security::detect_compression_bomb_patterns",
   "security::AdaptiveCompressionLimits::calculate_limit", "security::SessionTracker::check_session_limits_with_addition"],
  "compressed payload size c and true size d: u64 symbolic", "3 <= d <= 2^21, 1 <= c, c + 1 < d (store-raw rule)",
  assumes=["format-level ratio ceiling of the codec (deflate 1032:1, sparse 128:1, huffman 8:1; none for bzip2/LZMA/PKWare)",
           "d / c <= 1000 (known finding KF-C03-ratio excluded)"], stubs=[FMT, INST])
H("C03", "mpq", _S, "thorough", "C03.c acceptance up to max_decompressed_size (100 MiB), zlib", ["c03c_accept_zlib_100mib"],
  ["security::validate_decompression_operation"], "c, d symbolic", "d <= 100 MiB", assumes=["deflate ceiling 1032:1", "d / c <= 1000"], stubs=[FMT, INST])
H("C03", "mpq", _S, "quick", "C03.c witness: zlib output of 2 MiB zeros (2057 bytes)", ["c03c_accept_ratio_witness"],
  ["security::validate_decompression_operation"], "concrete (2057, 2^21, zlib)", "one input", stubs=[FMT, INST], expect="witness:KF-C03-ratio")
H("C03", "mpq", _S, "quick", "canary", ["c03_sec_canary"], ["security::validate_file_bounds"], "vacuity twin", "-", expect="canary")
# =============================================================================== C05 (mpq security kernels)
H("C05", "mpq", _S, "quick", "C05.mpq.2 security validators are total and their accept-postconditions hold",
  ["c05_sec_validate_header_total", "c05_sec_validate_header_postcondition", "c05_sec_validate_bounds_total",
   "c05_sec_validate_bounds_postcondition", "c05_sec_adaptive_limit_total", "c05_sec_bomb_patterns_total", "c05_sec_result_tolerance_total"],
  ["security::validate_header_security", "security::validate_file_bounds", "security::validate_table_entry", "security::validate_sector_data",
   "security::AdaptiveCompressionLimits::calculate_limit", "security::detect_compression_bomb_patterns", "security::validate_decompression_result"],
  "all integer arguments symbolic; SecurityLimits fully symbolic (totality) or default (postconditions)", "none (loop-free integer code)",
  assumes=["max_compression_ratio <= 10^6 for the adaptive-limit multiplications", "tolerance percent <= 100 and expected size <= 2^56"], stubs=[FMT])

# =============================================================================== C01
MEMFILE = "std::fs::File Read::read/read_buf, Seek::seek -> in-memory image + position (environment model)"
CODEC = "compression::compress / compression::decompress -> abstract codec pair: compress either returns the input or method byte + 3 arbitrary bytes, decompress inverts exactly that pairing and rejects everything else"
_BP = "verif_kani_builder_path"
_pathfns = ["builder::ArchiveBuilder::write_file", "builder::ArchiveBuilder::add_to_hash_table", "builder::ArchiveBuilder::calculate_file_key",
            "builder::ArchiveBuilder::encrypt_data", "archive::Archive::read_file", "archive::Archive::find_file", "tables::HashTable::find_file",
            "archive::decrypt_file_data", "crypto::hash_string"]
H("C01", "mpq", _BP, "quick", "C01.d writer->reader data path, single-unit file, per configuration (plain / abstract codec / encrypted + position-adjusted key + codec)",
  ["c01d_su_plain", "c01d_su_codec_shrinks", "c01d_su_enc_fix_codec", "c01d_empty_file", "c01d_absent_name_not_found"], _pathfns,
  "file content [u8; 5] symbolic (0 and 3 bytes in the edge cases), codec payload symbolic; configuration flags concrete per harness; lookup under a different case/slash spelling of the stored name",
  "one file of 5 bytes at archive offset 32, 4-slot hash table, sector size 512, V1 classic tables fabricated in memory",
  stubs=[FMT, MEMFILE, CODEC], abstraction_stubs=["compress", "decompress"], timeout=900)
H("C01", "mpq", _BP, "thorough", "C01.d single-unit file, remaining configurations (encrypted, fix-key, encrypted + codec)",
  ["c01d_su_enc", "c01d_su_enc_fix", "c01d_su_enc_codec"], _pathfns, "as above", "as above",
  stubs=[FMT, MEMFILE, CODEC], abstraction_stubs=["compress", "decompress"], timeout=2400)
H("C01", "mpq", _BP, "quick", "C01.d multi-sector file (513 bytes, two sectors) stored uncompressed",
  ["c01d_ms_plain"], _pathfns,
  "last 4 bytes of sector 0 and the byte of sector 1 symbolic (rest concrete 0x11), codec payload symbolic", "513-byte file, sector size 512",
  stubs=[FMT, MEMFILE, CODEC], abstraction_stubs=["compress", "decompress"], timeout=1200)
# c01d_ms_codec, c01d_ms_codec_crc, c01d_ms_enc_codec, c01d_ms_enc_fix_codec (a sector that shrinks under the abstract codec) are NOT registered:
# each runs into the 40-minute time-out (again measured in round 3, 5-10 GB each); compressed multi-sector files stay outside the C01 claim.
H("C01", "mpq", _BP, "thorough", "C01.d multi-sector file stored uncompressed: sector-CRC flag, encrypted, position-adjusted key",
  ["c01d_ms_plain_crcflag", "c01d_ms_enc", "c01d_ms_enc_fix"],
  _pathfns + ["archive::Archive::read_sectored_file"], "as above", "513-byte file, sector size 512",
  stubs=[FMT, MEMFILE, CODEC], abstraction_stubs=["compress", "decompress"], timeout=2400)
H("C01", "mpq", _BP, "thorough", "C01.d single-unit file with sector checksum (real Adler-32 over symbolic bytes)",
  ["c01d_su_plain_crc", "c01d_su_codec_crc", "c01d_su_enc_crc", "c01d_su_enc_fix_codec_crc"], _pathfns,
  "file content [u8; 5] symbolic, CRC on", "as above", stubs=[FMT, MEMFILE, CODEC], abstraction_stubs=["compress", "decompress"], timeout=2400)
H("C01", "mpq", _BP, "quick", "C01.d / C10.d edge sizes with sector checksums requested: an empty file (encrypted or not) and a one-byte file are flagged, written and read back; the intact archive verifies",
  ["c01d_empty_file_crc", "c01d_one_byte_file_crc"], _pathfns + ["adler2::adler32_slice"],
  "0-byte file: encryption and key-adjust flags symbolic; 1-byte file: content symbolic, compression requested (cannot shrink)", "files of 0 and 1 bytes",
  stubs=[FMT, MEMFILE, CODEC], abstraction_stubs=["compress", "decompress"], timeout=900)
# NOT registered: c01d_su_break_even / c01d_su_codec_expands (real compress() between builder and reader with only zlib stubbed): 15 min
# time-out; the break-even decision of compress() is decided under C03.a (c03a_store_raw_*), the reader's raw-or-compressed rule under C01.d.
H("C01", "mpq", _BP, "quick", "canary", ["c01d_canary"], _pathfns, "vacuity twin", "-", expect="canary", stubs=[FMT, MEMFILE])

# =============================================================================== C17
RS = "std::hash::RandomState::new -> fixed SipHash keys (1,2) (environment model; HashMap keys are concrete)"
_D = "verif_kani_writer"
H("C17", "cdbc", _D, "quick", "C17.a field codec: parse_field_value(write_value(v)) == v and both move FieldType::size() bytes",
  ["c17a_field_codec_%s" % t for t in ("int32", "uint32", "float32", "bool", "uint8", "int8", "uint16", "int16")],
  ["field_parser::parse_field_value", "writer::DbcWriter::write_value", "schema::FieldType::size"],
  "one harness per scalar field type, value payload symbolic", "one scalar field (String fields resolve through the string block: thorough)", stubs=[FMT, RS], timeout=900)
H("C17", "cdbc", _D, "quick", "C17.b header the writer emits is accepted by the reader's validation of the same schema; size law for the empty table",
  ["c17b_header_accepted_1_field", "c17b_header_accepted_2_fields", "c17b_header_accepted_3_fields"],
  ["writer::DbcWriter::write_records", "writer::DbcWriter::build_string_block", "header::DbcHeader::parse", "schema::Schema::validate", "schema::Schema::record_size"],
  "schema of 1/2/3 fields, each field type symbolic, each scalar or array of 1..3 (symbolic)", "<= 3 fields, array sizes <= 3, zero records",
  stubs=[FMT, RS], timeout=2400)
# c17c_strings_roundtrip_with_duplicate (three records, a repeated string) is NOT registered: even with HashMap replaced by the
# association-list model and UTF-8 validation stubbed it does not finish in 40 minutes (write_records clones the schema and
# resolves every string reference through heap-resident data); string de-duplication stays outside the C17 claim.
_DP = "verif_kani_parser"
H("C17", "cdbc", _DP, "quick", "C17.d key lookups return the record carrying the key: hashed map built by RecordSet::new, for every combination of keys incl. duplicates; absent keys are not found",
  ["c17d_key_lookup_hashed_n2", "c17d_key_lookup_hashed_n3"],
  ["parser::RecordSet::new", "parser::RecordSet::get_record_by_key"],
  "N records, all u32 keys symbolic (duplicates allowed), probe key symbolic", "N in {2,3} records of one UInt32 key field (4 records: CBMC runs out of memory in the propositional reduction)",
  stubs=[FMT, RS, "HashMap -> association-list model in the scratch copy (catalogue rewrite)"], timeout=900)
H("C17", "cdbc", _DP, "quick", "C17.d binary-searched key lookup from any state create_sorted_key_map can leave: returns a record carrying the key whenever one exists, nothing otherwise",
  ["c17d_key_lookup_bsearch_n2", "c17d_key_lookup_bsearch_n3", "c17d_key_lookup_bsearch_n4", "c17d_key_lookup_bsearch_n5"],
  ["parser::RecordSet::get_record_by_key_binary_search"],
  "N records, all u32 keys symbolic (duplicates allowed); sorted_key_indices = any permutation of (key, index) pairs ascending by key; probe key symbolic",
  "N in {2,3,4,5}", assumes=["postcondition of slice::sort_by_key (a key-ascending permutation) instead of executing std's sort"], stubs=[FMT, RS], timeout=900)
# c17d_sorted_then_both_n{2,3} (harness/cdbc/parser.rs: the REAL create_sorted_key_map, then both lookups) are NOT registered: std's
# slice::sort_by_key does not finish in CBMC even for 2 elements (n2: memory cap, n3: 30 min time-out); the hashed map that
# create_sorted_key_map rebuilds stays outside the C17 claim (seeded change C17-sorted-keymap-rebuild is missed for that reason).
H("C17", "cdbc", _D, "quick", "canary", ["c17_canary"], ["field_parser::parse_field_value"], "vacuity twin", "-", expect="canary", stubs=[FMT, RS])
H("C05", "cdbc", _D, "quick", "C05.dbc header parsers and string lookups are total (no panic/overflow), derived offsets do not overflow",
  ["c05_dbc_header_total", "c05_dbc_wdb2_header_total", "c05_dbc_wdb5_header_total", "c05_dbc_string_block_total"],
  ["header::DbcHeader::{parse,string_block_offset,total_size}", "versions::Wdb2Header::{parse,string_block_offset,total_size}",
   "versions::Wdb5Header::{parse,string_block_offset,total_size}", "stringblock::StringBlock::{parse,get_string}"],
  "header bytes fully symbolic behind the assigned magic (20/48/48 bytes, symbolic truncation for WDBC); string block of 5 symbolic bytes, offset u32 symbolic",
  "header-sized inputs; 5-byte string block", stubs=[FMT])

# =============================================================================== C06
HS = "crypto::hash_string -> symbolic function H[name][hash type] over the names a..d (abstraction: decided for every assignment of hash values, i.e. every collision pattern and home slot)"
_M = "verif_kani_modification"
_c06f = ["modification::MutableArchive::find_file_entry", "modification::MutableArchive::remove_file", "modification::MutableArchive::rename_file",
         "modification::MutableArchive::add_to_hash_table", "modification::MutableArchive::remove_from_listfile", "modification::MutableArchive::update_listfile"]
_c06in = ("arbitrary 4-slot hash table (each slot never-used / deleted / valid entry of one of 4 names, block indices symbolic) satisfying the "
          "representation invariant; hash values H[4 names][3 types] fully symbolic; operation arguments symbolic")
_c06as = ["representation invariant I: a name occupies at most one slot; every valid entry is reachable from its home slot without crossing a never-used slot",
          "distinct names have distinct (A,B) hash pairs (a 64-bit collision is inherent to the format)", "all entries have locale 0",
          "no (listfile)/(attributes) in the archive (inner archive fabricated without tables)"]
H("C06", "mpq", _M, "quick", "C06.a lookup agrees with the abstract map in every valid table state", ["c06a_lookup_agrees_with_model"], _c06f, _c06in,
  "4-slot table, 4 names, unwind 18", assumes=_c06as, stubs=[FMT, HS, RS], abstraction_stubs=["hash_string"], timeout=900,
  termination_of=["find_file_entry", "add_to_hash_table"])
H("C06", "mpq", _M, "quick", "C06.a one real remove / insert step acts on the table as on a plain map, failure leaves it unchanged, invariant preserved, probing terminates",
  ["c06a_remove_step", "c06a_insert_step"], _c06f, _c06in, "4-slot table, 4 names, one operation (inductive step), unwind 18",
  assumes=_c06as + ["insert: the table has at least one free slot (known finding KF-C06-full-table excluded)"], stubs=[FMT, HS, RS],
  abstraction_stubs=["hash_string"], timeout=900, termination_of=["find_file_entry", "add_to_hash_table"])
# the rename step needs 6-10 minutes of solver time: thorough tier (the quick command has to finish well inside 15 minutes on a cold build)
H("C06", "mpq", _M, "thorough", "C06.a one real rename step acts on the table as on a plain map, failure leaves it unchanged, invariant preserved, probing terminates",
  ["c06a_rename_step"], _c06f, _c06in, "4-slot table, 4 names, one operation (inductive step), unwind 18",
  assumes=_c06as + ["rename: the table has at least one free slot (known finding KF-C06-full-table excluded)"], stubs=[FMT, HS, RS],
  abstraction_stubs=["hash_string"], timeout=2400, termination_of=["find_file_entry", "add_to_hash_table"])
H("C06", "mpq", _M, "quick", "C06.a witness: insertion into a table without a free slot", ["c06a_insert_full_table_witness"], _c06f,
  "concrete full 4-slot table", "one input, unwind 10", stubs=[FMT, HS, RS], abstraction_stubs=["hash_string"],
  expect="witness:KF-C06-full-table", termination_of=["add_to_hash_table"])
H("C06", "mpq", _M, "quick", "canary", ["c06a_canary"], _c06f, "vacuity twin", "-", expect="canary", stubs=[FMT, HS, RS], abstraction_stubs=["hash_string"], timeout=900)

# =============================================================================== C02
_BL = "verif_kani_builder_layout"
H("C02", "mpq", _BL, "quick", "C02.a header bytes written == field offsets of the published format (v1..v4), and the real reader recovers the same values",
  ["c02a_header_layout_v1", "c02a_header_layout_v2", "c02a_header_layout_v3", "c02a_header_layout_v4"],
  ["builder::ArchiveBuilder::write_header", "header::MpqHeader::read_with_limits", "security::validate_header_security",
   "header::MpqHeader::{get_hash_table_pos,get_block_table_pos}"],
  "all HeaderWriteParams fields, sector shift and (v4) sizes/digests symbolic; version concrete per harness",
  "one header per version",
  assumes=["v3/v4: HET/BET position order excluded (known finding KF-C02-hetbet-order)"], stubs=[FMT])
H("C02", "mpq", _BL, "quick", "C02.a witness: v3 header BET/HET order", ["c02a_header_hetbet_order_witness"],
  ["builder::ArchiveBuilder::write_header", "header::MpqHeader::read_with_limits"], "as c02a_header_layout_v3 without the exclusion", "-",
  stubs=[FMT], expect="witness:KF-C02-hetbet-order")
H("C02", "mpq", _BL, "quick", "C02.b hash/block table bytes == published entry layout under the format's cipher and table keys; both directions through the real loaders",
  ["c02b_hash_table_encoding", "c02b_block_table_encoding", "c02b_reference_tables_load"],
  ["builder::ArchiveBuilder::write_hash_table", "builder::ArchiveBuilder::write_block_table", "builder::ArchiveBuilder::encrypt_data",
   "tables::HashTable::from_bytes", "tables::BlockTable::from_bytes", "crypto::hash_string", "crypto::decrypt_block"],
  "one table entry, all fields symbolic", "1 entry per table (4 cipher words under the concrete table key)",
  stubs=[FMT, "ArchiveBuilder::calculate_md5 -> zeros (digest values are not the subject)"])
H("C02", "mpq", _BL, "quick", "C02.c file key == key of the format; flag and method constants == published values (compile-time)",
  ["c02c_file_key_vs_spec"], ["builder::ArchiveBuilder::calculate_file_key", "crypto::hash_string", "tables::BlockEntry::FLAG_*", "compression::flags::*"],
  "name: 3 ASCII bytes symbolic, position u64, size u32, flags u32 symbolic", "names of 3 bytes",
  assumes=["name contains no path separator (known finding KF-C02-key-path excluded)"], stubs=[FMT])
H("C02", "mpq", _BL, "quick", "C02.c witness: key of a file in a directory", ["c02c_file_key_path_witness"],
  ["builder::ArchiveBuilder::calculate_file_key"], "concrete name d\\f", "-", stubs=[FMT], expect="witness:KF-C02-key-path")
H("C02", "mpq", _BL, "quick", "C02.c witness: trailing bytes of an encrypted block", ["c02c_trailing_bytes_witness"],
  ["builder::ArchiveBuilder::encrypt_data"], "concrete 5-byte block", "-", stubs=[FMT], expect="witness:KF-C02-trailing-bytes")
H("C02", "mpq", _BL, "quick", "canary", ["c02_canary"], ["builder::ArchiveBuilder::write_header"], "vacuity twin", "-", expect="canary", stubs=[FMT])

# =============================================================================== C10
_SG = "verif_kani_signature"
H("C10", "mpq", _SG, "quick", "C10.a weak-signature padding: what the library produces verifies, nothing else verifies, a different digest does not verify",
  ["c10a_weak_padding_produced_verifies", "c10a_weak_padding_exact", "c10a_weak_padding_other_digest_rejected"],
  ["crypto::signature::create_pkcs1_v15_padding_md5", "crypto::signature::verify_pkcs1_v15_md5"],
  "digest [u8; 16] symbolic; decrypted signature block [u8; 64] fully symbolic", "64-byte block (512-bit RSA), unwind 70", stubs=[FMT])
H("C10", "mpq", _SG, "thorough", "C10.a strong-signature padding is exact", ["c10a_strong_padding_exact"],
  ["crypto::signature::verify_mpq_strong_signature_padding"], "block [u8; 256] and digest [u8; 20] symbolic", "256-byte block", stubs=[FMT], timeout=1800)
H("C10", "mpq", _SG, "quick", "C10.b the weak-signature digest is fed exactly the signed range with the signature window zeroed",
  ["c10b_digest_window_inside", "c10b_digest_window_at_start", "c10b_digest_window_at_end", "c10b_digest_window_empty", "c10b_digest_inner_range_window_overlaps"],
  ["crypto::signature::calculate_mpq_hash_md5", "crypto::signature::SignatureInfo::new_weak"],
  "24 data bytes symbolic; signed range and signature window concrete per harness (window inside / at start / at end / empty / overlapping the range start)", "archive of 24 bytes (one digest block)",
  stubs=[FMT, "md5::compress::compress -> tap recording the 64-byte blocks (decides which bytes are covered, never digest values)"], timeout=1500)
H("C10", "mpq", _SG, "quick", "canary", ["c10_sig_canary"], ["crypto::signature::verify_pkcs1_v15_md5"], "vacuity twin", "-", expect="canary", stubs=[FMT])

# =============================================================================== C08
_P = "verif_kani_patch"
_R = "verif_kani_rle"
RLE = "compression::rle::decompress -> returns a prepared bsdiff stream (the RLE decoder is decided separately in C08.c)"
H("C08", "mpq", _P, "quick", "C08.b never unverified bytes: apply_patch fails when either digest check fails; returned bytes are the ones submitted to the after-check",
  ["c08b_gate_copy"], ["patch::apply::apply_patch", "patch::apply::apply_copy_patch"],
  "outcomes of both digest checks symbolic; COPY patch with 3 symbolic payload bytes, 2-byte base", "COPY patch 2 -> 3 bytes",
  stubs=[FMT, "PatchFile::verify_base / verify_patched -> nondeterministic Ok/Err, recording what verify_patched is shown (abstraction of MD5)"],
  abstraction_stubs=["verify_base", "verify_patched"])
H("C08", "mpq", _P, "quick", "C08.b same gate for a size-preserving patch whose declared digests are arbitrary, also equal to each other (a no-op patch still has to verify its base)",
  ["c08b_gate_copy_same_size"], ["patch::apply::apply_patch", "patch::apply::apply_copy_patch"],
  "outcomes of both digest checks, both declared 16-byte digests (independent or equal), 3 payload bytes and the 3-byte base symbolic", "COPY patch 3 -> 3 bytes",
  stubs=[FMT, "PatchFile::verify_base / verify_patched -> nondeterministic Ok/Err, recording what verify_patched is shown (abstraction of MD5)"],
  abstraction_stubs=["verify_base", "verify_patched"])
H("C08", "mpq", _P, "quick", "C08.a COPY patch: declared sizes are enforced", ["c08a_copy_size_checks"], ["patch::apply::apply_copy_patch"],
  "declared size_before / size_after u32 symbolic; base 2 bytes, payload 3 bytes", "-", stubs=[FMT])
H("C08", "mpq", _P, "thorough", "C08.a BSD0: a well-formed bsdiff stream turns old into new", ["c08a_bsd0_wellformed"], ["patch::apply::apply_bsd0_patch"],
  "old and new file [u8; 4] symbolic; stream built per the bsdiff rule (diff = new - old)", "one control triple, 4-byte files", stubs=[FMT, RLE],
  abstraction_stubs=["rle::decompress"], timeout=2400)
H("C05", "mpq", _P, "thorough", "C05.mpq.7 BSD0 applier is total on a hostile bsdiff header", ["c05_bsd0_header_total"], ["patch::apply::apply_bsd0_patch"],
  "control-block size, data-block size, new size (u64) and declared size_after symbolic", "bsdiff header only (32 bytes), new size <= 8",
  assumes=["32 + ctrl + data does not overflow u64 (known finding KF-C08-bsd0-overflow excluded)"], stubs=[FMT, RLE],
  abstraction_stubs=["rle::decompress"], timeout=2400)
H("C08", "mpq", _P, "thorough", "C08 witness: control-block size 2^64-32", ["c08_bsd0_overflow_witness"], ["patch::apply::apply_bsd0_patch"],
  "concrete", "-", stubs=[FMT, RLE], abstraction_stubs=["rle::decompress"], expect="witness:KF-C08-bsd0-overflow", timeout=2400)
H("C05", "mpq", _P, "quick", "C05.mpq.6 patch header parser is total; truncated headers are errors", ["c05_patch_header_total"],
  ["patch::header::PatchHeader::parse"], "68 bytes symbolic behind the three assigned block signatures, symbolic truncation", "68-byte header", stubs=[FMT])
H("C08", "mpq", _P, "quick", "canary", ["c08_canary"], ["patch::apply::apply_copy_patch"], "vacuity twin", "-", expect="canary", stubs=[FMT])
H("C08", "mpq", _R, "quick", "C08.c RLE decoder == reference decoder, output exactly the declared size",
  ["c08c_rle_n4_s6", "c08c_rle_n6_s8", "c08c_rle_header_n8_s4"], ["compression::algorithms::rle::decompress"],
  "compressed input [u8; N] fully symbolic", "(N, size) in {(4,6), (6,8), (8 incl. 4-byte header, 4)}", stubs=[FMT], timeout=900)
H("C08", "mpq", _R, "quick", "canary", ["c08c_rle_canary"], ["compression::algorithms::rle::decompress"], "vacuity twin", "-", expect="canary", stubs=[FMT])

# =============================================================================== C19
_F = "verif_kani_storm"
H("C19", "ffi", _F, "quick", "C19.c null handles are reported as errors and nothing is written through the caller's pointers",
  ["c19c_null_handle_read_seek_size", "c19c_null_handle_close_name_find"],
  ["SFileReadFile", "SFileSetFilePointer", "SFileGetFileSize", "SFileCloseFile", "SFileCloseArchive", "SFileGetFileName", "SFileFindClose"],
  "null handle; to_read, seek arguments symbolic; guard-valued output buffers", "one call each", stubs=[FMT])
H("C19", "ffi", _F, "thorough", "C19.b seek step from any valid open-file state: no panic, position within the file, return value == position",
  ["c19b_set_file_pointer_step"], ["SFileSetFilePointer"],
  "file of 4 symbolic bytes, cursor in 0..=4, low/high offsets (i32), presence of the high pointer and move method (u32) symbolic",
  "one call on one fabricated FILES entry", stubs=[FMT, RS], timeout=2400)
H("C19", "ffi", _F, "thorough", "C19.a read step: exactly min(to_read, remaining) bytes are copied, nothing beyond them is written, cursor advances",
  ["c19a_read_step_t4"], ["SFileReadFile"],
  "file of 3 symbolic bytes, cursor in 0..=3 symbolic, to_read 4 (longer than the file: every short-read case), 8-byte buffer with guard zone", "one call", stubs=[FMT, RS], timeout=2400)
H("C19", "ffi", _F, "thorough", "C19.a read step, to_read 2",
  ["c19a_read_step_t2"], ["SFileReadFile"],
  "file of 3 symbolic bytes, cursor in 0..=3 symbolic, to_read 2, 8-byte buffer with guard zone", "one call", stubs=[FMT, RS], timeout=2400)
H("C19", "ffi", _F, "thorough", "C19.c never-issued and closed handles are errors", ["c19c_stale_handle"], ["SFileReadFile", "SFileCloseFile"],
  "handle 9 never issued, handle 7 closed before use", "-", stubs=[FMT, RS], timeout=2400)
H("C19", "ffi", _F, "thorough", "C19.a info and size queries on an open file: the answer is the file's length / cursor, nothing is written beyond buffer_size (or at all on failure), "
  "size_needed is reported",
  ["c19a_file_info_step", "c19a_file_size_step"], ["SFileGetFileInfo", "get_file_info", "SFileGetFileSize"],
  "file of 3 symbolic bytes, cursor in 0..=3, info class u32, buffer_size in 0..=16, presence of the optional out-pointers symbolic; 24-byte buffer with guard zone",
  "one call on fabricated FILES entries", stubs=[FMT, RS], timeout=2400)
H("C19", "ffi", _F, "thorough", "C19.a SFileGetArchiveName succeeds exactly when path + NUL fit buffer_size and never writes beyond it",
  ["c19a_archive_name_fit"], ["SFileGetArchiveName"],
  "buffer_size in 0..=8 symbolic, path \"a.mp\" (4 bytes), 8-byte buffer with guard zone", "one call on a fabricated ARCHIVES entry (wow_mpq::Archive built from empty tables)",
  stubs=[FMT, RS], timeout=2400, mem_gb=48)
H("C19", "ffi", _F, "quick", "canary", ["c19_canary"], ["SFileGetFileSize"], "vacuity twin", "-", expect="canary", stubs=[FMT])

# =============================================================================== C05 (mpq parsers)
_HD = "verif_kani_header"
_AD = "verif_kani_adpcm"
_TH = "verif_kani_tables_hash"
H("C05", "mpq", _HD, "quick", "C05.mpq.1 MpqHeader::read is total on arbitrary (also truncated) bytes behind the magic, per version tag; accepted headers have computable sector size and table positions",
  ["c05_mpq_header_v1_total", "c05_mpq_header_v2_total", "c05_mpq_header_v3_total", "c05_mpq_header_v4_total"],
  ["header::MpqHeader::read_with_limits", "security::validate_header_security", "header::MpqHeader::{sector_size,get_hash_table_pos,get_block_table_pos,get_archive_size}"],
  "32/44/68/208 header bytes fully symbolic behind the assigned magic and version tag; symbolic truncation length", "one header", stubs=[FMT], timeout=900)
H("C05", "mpq", _HD, "thorough", "C05.mpq.1 header discovery terminates when a user-data header points at or beyond the end of the file (any such offset)",
  ["c05_mpq_find_header_userdata_beyond_eof"], ["header::find_header_with_limits"],
  "file of 528 bytes: user-data header at offset 0 with 12 symbolic bytes, header_offset >= file size (symbolic)", "2 scan steps, unwind 6",
  stubs=[FMT], timeout=2400, termination_of=["find_header_with_limits"])
H("C05", "mpq", _HD, "thorough", "C05.mpq.1 header discovery terminates and reports no header for a file that contains none (no magic / user-data header pointing at a non-header)",
  ["c05_mpq_find_header_no_magic", "c05_mpq_find_header_userdata_inside"], ["header::find_header_with_limits"],
  "file of 528 bytes: 16 symbolic bytes at each scanned offset (0, 512), zeros elsewhere", "2 scan steps, unwind 6",
  assumes=["no MPQ header magic where none is intended"], stubs=[FMT], timeout=2400, termination_of=["find_header_with_limits"])
H("C05", "mpq", _HD, "quick", "canary", ["c05_mpq_header_canary"], ["header::MpqHeader::read"], "vacuity twin", "-", expect="canary", stubs=[FMT])
H("C05", "mpq", _AD, "quick", "C05.mpq.8 ADPCM decoder is total on arbitrary input (no table index out of range), output bounded by the requested size",
  ["c05_adpcm_mono_total_n5", "c05_adpcm_mono_total_n12", "c05_adpcm_stereo_total_n12", "c05_adpcm_next_step_index_in_table"],
  ["compression::algorithms::adpcm::{decompress_mono,decompress_stereo,decompress_internal,get_next_step_index,decode_sample}"],
  "input [u8; 5] / [u8; 12] fully symbolic (header, initial sample(s) and up to 8 coded bytes)", "inputs of 5 and 12 bytes", stubs=[FMT], timeout=900)
H("C05", "mpq", _AD, "quick", "canary", ["c05_adpcm_canary"], ["compression::algorithms::adpcm::decompress_mono"], "vacuity twin", "-", expect="canary", stubs=[FMT])
H("C05", "mpq", _TH, "quick", "C05.mpq.4 classic table decoders are total; lookups terminate and only return valid matching entries",
  ["c05_hash_table_from_bytes_total", "c05_block_table_from_bytes_total", "c05_hash_table_find_total"],
  ["tables::HashTable::from_bytes", "tables::BlockTable::from_bytes", "tables::HashTable::find_file"],
  "table data of 0/15/16/32 symbolic bytes x declared entry counts {0,1,2,3,4,2^28,2^32-1}; 2-slot table with fully symbolic entries", "<= 2 entries",
  stubs=[FMT], timeout=900, termination_of=["find_file"])
H("C01", "mpq", _TH, "quick", "C01.b reader-side lookup is complete and exact: an entry reachable from the home slot by circular linear probing (also across the table end) is found, "
  "the first matching slot is returned, and a name matching no valid entry is not found - for every hash value of the name",
  ["c01b_hash_find_complete", "c01b_hash_find_absent"], ["tables::HashTable::find_file"],
  "4-slot table, all entry fields symbolic; the name's three hash values (home slot, name A, name B) fully symbolic; requested locale symbolic",
  "4 slots (every home slot, every distance 0..3, wrap-around included)",
  assumes=["stored locale 0 (neutral) for the completeness clause"],
  stubs=[FMT, "crypto::hash_string -> symbolic function of the hash type (abstraction: every hash value; the real hash is decided under C04)"],
  abstraction_stubs=["hash_string"], timeout=900, termination_of=["find_file"])
H("C05", "mpq", _TH, "quick", "canary", ["c05_tables_canary"], ["tables::HashTable::from_bytes"], "vacuity twin", "-", expect="canary", stubs=[FMT])

# ------------------------------------------------------------------------------- C06.b in-place add path
_c06bf = ["modification::MutableArchive::prepare_file_data", "archive::Archive::read_file", "archive::decrypt_file_data", "crypto::encrypt_block"]
H("C06", "mpq", _M, "quick", "C06.b in-place add: bytes and flags produced by prepare_file_data are read back bit-identically (plain / abstract codec / encrypted)",
  ["c06b_inplace_plain", "c06b_inplace_codec", "c06b_inplace_enc", "c06b_inplace_enc_codec"], _c06bf,
  "file content [u8; 5] symbolic, codec payload symbolic; options concrete per harness", "one 5-byte file placed at offset 512",
  stubs=[FMT, MEMFILE, CODEC, RS, "crypto::hash_string -> fixed table for the names a..d (the key value is arbitrary but equal on both sides)"],
  abstraction_stubs=["compress", "decompress", "hash_string"], timeout=900)
H("C06", "mpq", _M, "quick", "C06.b in-place add with the position-adjusted key (regression harness of fixed finding KF-C06-inplace-fixkey)", ["c06b_inplace_enc_fix_witness"], _c06bf,
  "file content symbolic, encrypt + fix_key", "-", stubs=[FMT, MEMFILE, CODEC, RS, HS], abstraction_stubs=["compress", "decompress", "hash_string"],
  expect="witness:KF-C06-inplace-fixkey", timeout=900)

# ------------------------------------------------------------------------------- C03.e codec dispatch
_DP = "verif_kani_dispatch"
H("C03", "mpq", _DP, "quick", "C03.e compress(selector) and decompress(selector) dispatch to the same codec; what compress emits is accepted by decompress under the default limits",
  ["c03e_dispatch_%s" % n for n in ("huffman", "zlib", "implode", "pkware", "bzip2", "lzma", "sparse", "adpcm_mono", "adpcm_stereo")],
  ["compression::compress::{compress,compress_internal}", "compression::decompress::{decompress,decompress_secure,decompress_with_monitor}",
   "compression::methods::CompressionMethod::from_flags", "security::validate_decompression_operation", "security::validate_decompression_result"],
  "one harness per published single-method selector, 4 data bytes symbolic", "4-byte input",
  stubs=[FMT, INST, "every codec in compression::algorithms (zlib, bzip2, lzma, sparse, pkware, implode, huffman, adpcm) -> tagging stub (abstraction: the codecs themselves are out of CBMC's reach)"],
  abstraction_stubs=["algorithms::*"], timeout=900)
H("C03", "mpq", _DP, "quick", "C03.e selector byte -> codec mapping", ["c03e_from_flags_total"], ["compression::methods::CompressionMethod::from_flags"],
  "selector u8 symbolic (all 256)", "-", stubs=[FMT])
H("C03", "mpq", _DP, "quick", "canary", ["c03e_canary"], ["compression::methods::CompressionMethod::from_flags"], "vacuity twin", "-", expect="canary", stubs=[FMT])

# ------------------------------------------------------------------------------- C03.b sparse codec (derived copy with BVec)
_SP = "verif_kani_sparse"
BVEC = "derived copy of compression/algorithms/sparse.rs, regenerated from the current sources on every run, with Vec<u8> -> bounded-array model BVec (capacity 40 for inputs up to 16 bytes, 176 for the 138-byte harness; same push/extend_from_slice/resize/len/deref semantics); the function bodies are the repository's text"
_spfn = ["compression::algorithms::sparse::compress", "compression::algorithms::sparse::decompress"]
H("C03", "mpq", _SP, "quick", "C03.b sparse codec: decompress(compress(x), len) == x for EVERY input of the length; header == length; stored form within the encoder's worst-case bound",
  ["c03b_sparse_roundtrip_n%d" % n for n in (1, 2, 3, 4, 5)], _spfn,
  "input [u8; N] fully symbolic", "N in 1..=5", stubs=[FMT, BVEC], timeout=900)
H("C03", "mpq", _SP, "thorough", "C03.b sparse codec round trip, 6 and 7 bytes",
  ["c03b_sparse_roundtrip_n%d" % n for n in (6, 7)], _spfn,
  "input [u8; N] fully symbolic", "N in {6, 7} (N = 8: 11.7 GB and no verdict after 20 min; N >= 10: none in 30 min)", stubs=[FMT, BVEC], timeout=2400)
# c03b_sparse_roundtrip_run_n9 (shape harness at 9 bytes) is NOT registered: 10.8 GB after 7.5 min; the full 1..=8 byte harnesses subsume it.
# c03b_sparse_roundtrip_run_127_131_n138 (138-byte inputs whose literal run crosses the 0x80/0x81/0x82 markers) is NOT registered:
# with per-loop unwinding bounds (unwindset, below) it runs out of the 30 GB cap in CBMC's array theory, with field-sensitive arrays
# (cbmc_args) it stays at 2.5 GB but gives no verdict within 50 minutes.  The registration is kept as a comment because it is the
# worked example of the unwindset mechanism; the literal-run boundary of the sparse codec stays outside the C03 claim.
_UNREGISTERED_N138 = dict(
  names=["c03b_sparse_roundtrip_run_127_131_n138"], timeout=3000, mem_gb=30,
  cbmc_args=["--max-field-sensitivity-array-size", "200"],
  unwindset=[(r"sparse_bv::compress$", r"^while pb_in_buffer < pb_in_buffer_end", 8),
             (r"sparse_bv::compress$", r"^loop \{", 141),
             (r"sparse_bv::compress$", r"^while number_of_non_zeros > 0x81", 3),
             (r"sparse_bv::compress$", r"^while number_of_zeros > 0x85", 2),
             (r"sparse_bv::compress$", r"^$", 5),
             (r"sparse_bv::decompress$", r"^while pos < data\.len", 14),
             (r"BVecN::<176>::extend_from_slice", r"", 131),
             (r"BVecN::<176>::resize", r"", 24),
             (r"roundtrip_run", r"^while i < N", 140)])
H("C03", "mpq", _SP, "thorough", "C03.b derivation check: the real (Vec) codec and the derived (BVec) copy agree on the repository's own test vectors",
  ["c03b_sparse_model_agrees_on_vectors"], _spfn, "concrete vectors", "3 vectors of 5..8 bytes", stubs=[FMT], timeout=1800)
H("C05", "mpq", _SP, "thorough", "C05.mpq.9 sparse decoder is total on arbitrary input and never returns more than the expected size",
  ["c05_sparse_decoder_total_m6"], ["compression::algorithms::sparse::decompress"], "input [u8; 6] with symbolic length, expected size <= 12 symbolic",
  "6-byte input", stubs=[FMT, BVEC], timeout=1800)
H("C03", "mpq", _SP, "quick", "canary", ["c03b_sparse_canary"], _spfn, "vacuity twin", "-", expect="canary", stubs=[FMT, BVEC])

# ------------------------------------------------------------------------------- C10.e V4 header digest coverage
H("C10", "mpq", "verif_kani_v4md5", "quick", "C10.e the version-4 header digest is computed over exactly the 192 header bytes at the archive's own offset (archive at offset 0 / behind a 512-byte stub)",
  ["c10e_v4_header_digest_input_offset0", "c10e_v4_header_digest_input_embedded"], ["archive::Archive::validate_v4_md5_checksums"],
  "six probe bytes symbolic (file start, first / middle / last hashed byte, first and last byte of the stored digest), stored digest symbolic; table sizes 0",
  "archive offset in {0, 512}; header branch only (no table digests)",
  stubs=[FMT, MEMFILE, "md5::compress::compress -> recording tap (which bytes are hashed; digest values are not computed)"], timeout=900)
# ------------------------------------------------------------------------------- C10.d sector checksum enforcement
H("C10", "mpq", _BP, "quick", "C10.d a single-byte change anywhere in a checksummed single-unit file's data or checksum is detected (or the content is unchanged); the intact file verifies",
  ["c10d_single_byte_fault_detected", "c10d_intact_file_verifies"], _pathfns + ["adler2::adler32_slice"],
  "file content [u8; 6] symbolic; fault offset within data+checksum (10 bytes) and XOR mask != 0 symbolic; ", "6-byte single-unit file",
  stubs=[FMT, MEMFILE], timeout=1200)

# ------------------------------------------------------------------------------- C08.d chain ordering step
# harness/mpq/patch_chain.rs holds four PatchChain step harnesses (add/remove ordering, content resolution).
# They are NOT registered: measured on this machine, the one-entry add step exceeds 14 GB and the two-entry
# remove step does not finish in 40 minutes (Vec<ChainEntry> insert/remove of ~0.5 KB structs, PathBuf
# comparisons, Archive drop glue).  Chain ordering and content resolution stay outside the claim (DESIGN 0.2).
_CH = "verif_kani_chain"
H("C08", "mpq", _P, "thorough", "C08.b the digest checks accept exactly when the digest of the data equals the declared digest (no bypass for any declared value)",
  ["c08b_verify_accepts_iff_digest_matches"], ["patch::header::PatchFile::{verify_base,verify_patched}"],
  "3 data bytes and both declared 16-byte digests symbolic", "3-byte data (one digest block)",
  stubs=[FMT, "md5::compress::compress -> a cheap mixing function (abstraction: the real MD5 rounds are SAT-hard; the verifier must agree with whatever digest function is plugged in)"],
  abstraction_stubs=["md5::compress"], timeout=2400)

# ------------------------------------------------------------------------------- C02.d reference writer -> real reader
H("C02", "mpq", _BP, "quick", "C02.d a stored (uncompressed, unencrypted) file laid out per the published format by a reference writer is read bit-identically, single-unit or not",
  ["c02d_reference_stored_file"],
  ["archive::Archive::read_file", "archive::Archive::find_file", "tables::HashTable::find_file"],
  "6 content bytes symbolic; single-unit flag symbolic", "6-byte file at archive offset 32",
  stubs=[FMT, MEMFILE], timeout=900)
H("C02", "mpq", _BP, "quick", "C02.d an encrypted file laid out per the published format (key from the plain name; FIX_KEY: adjusted by the block offset relative to the MPQ header and the file size) "
  "is read bit-identically, also when the archive starts behind a stub in its containing file",
  ["c02d_reference_encrypted", "c02d_reference_encrypted_fixkey", "c02d_reference_encrypted_fixkey_embedded"],
  ["archive::Archive::read_file", "archive::Archive::find_file", "archive::decrypt_file_data", "crypto::hash_string"],
  "8 content bytes symbolic (two cipher words under the reference cipher); FIX_KEY and archive offset (0 / 64) concrete per harness", "8-byte single-unit file at block offset 32",
  stubs=[FMT, MEMFILE], timeout=900)
H("C02", "mpq", _BP, "thorough", "C02.d multi-sector compressed file, writer only: the stored size equals the bytes written and the sector offset table (decrypted with the format's key-1) starts behind itself and ends at the stored size",
  ["c02d_ms_stored_size_codec", "c02d_ms_stored_size_enc_codec", "c02d_ms_stored_size_enc_fix_codec"],
  ["builder::ArchiveBuilder::write_file", "builder::ArchiveBuilder::calculate_file_key", "builder::ArchiveBuilder::encrypt_data"],
  "513-byte file (5 symbolic tail bytes), codec payload symbolic; sector 0 shrinks to 4 bytes under the abstract codec, sector 1 (1 byte) is stored raw", "2 sectors of 512",
  stubs=[FMT, CODEC], abstraction_stubs=["compress"], timeout=2400, mem_gb=40)
# NOT registered (do not finish on the unchanged tree): c02d_reference_one_sector_compressed (the reader's sectored path
# exceeds 20 GB; it only "worked" against a seeded change that made the reader skip that path) and
# c02d_builder_to_reference_ms_* (multi-sector writer with the abstract codec: 40 min time-out).  c02d_ms_stored_size_* need
# ~22 GB and ~8 min each when run alone (mem_gb=40 => run one at a time).  The sector layout of
# compressed multi-sector files is outside the C02 claim.

H("C10", "mpq", _SG, "thorough", "C10.b signature window crossing a 64 KiB digest-unit boundary: exactly the window is zeroed, the bytes behind it stay covered",
  ["c10b_digest_window_straddles_unit_boundary"], ["crypto::signature::calculate_mpq_hash_md5"],
  "65664 signed bytes: 192 symbolic bytes around offset 65536 (rest concrete), window [65500, 65572)", "one boundary crossing",
  stubs=[FMT, "md5::compress::compress -> tap recording the three 64-byte blocks around the boundary"], timeout=2400)
# ------------------------------------------------------------------------------- C10.c attributes
_AT = "verif_kani_attributes"
H("C10", "mpq", _AT, "quick", "C10.c (attributes) write->parse keeps every per-file CRC32 / timestamp / MD5 / patch bit; size == header + arrays",
  ["c10c_attributes_roundtrip_crc", "c10c_attributes_roundtrip_crc_md5", "c10c_attributes_roundtrip_all", "c10c_attributes_roundtrip_time_patch"],
  ["special_files::attributes::Attributes::{to_bytes,parse}"], "2 files, all attribute values symbolic; flag combination concrete per harness (0x1, 0x5, 0xF, 0xA)",
  "2 files", stubs=[FMT], timeout=900)
H("C10", "mpq", _AT, "quick", "canary", ["c10c_canary"], ["special_files::attributes::Attributes::to_bytes"], "vacuity twin", "-", expect="canary", stubs=[FMT])
H("C05", "mpq", _AT, "quick", "C05.mpq.5 (attributes) parser is total on hostile content", ["c05_attributes_parse_total"],
  ["special_files::attributes::Attributes::parse"], "24 bytes symbolic behind the version word, block counts 0, 1, 2", "24-byte file, <= 2 blocks", stubs=[FMT], timeout=900)

# c02d_builder_to_reference_ms_* (builder -> reference reader of the multi-sector layout) are NOT registered:
# 20 min time-out / memory cap on this machine (512-byte sector copies + a data-dependent raw/compressed
# decision per sector); the sector layout of compressed multi-sector files stays outside the C02 claim.
H("C10", "mpq", _BP, "quick", "C10.d a file the builder flags as carrying a sector checksum carries it, also when it is empty (Adler-32 of zero bytes = 1) - otherwise the intact archive fails verification",
  ["c10d_empty_file_checksum_written"], ["builder::ArchiveBuilder::write_file"], "0-byte file, encryption and key-adjust flags symbolic", "one empty file",
  stubs=[FMT, MEMFILE, CODEC], abstraction_stubs=["compress", "decompress"], timeout=900)
H("C10", "mpq", _BP, "thorough", "C10.d acceptance implies the checksum matches: a data byte altered and the stored checksum replaced by arbitrary bytes - whenever the read succeeds the stored checksum is the Adler-32 of what is returned",
  ["c10d_accept_implies_checksum_matches"], _pathfns + ["adler2::adler32_slice"],
  "2-byte file content, fault offset/mask and 4 replacement checksum bytes symbolic", "2-byte single-unit file; reference Adler-32 in closed form",
  stubs=[FMT, MEMFILE], timeout=2400)


# =============================================================================== per-property fragments
# harness/cat_*.py files are executed in this namespace (they call H(...), extend CRATES / OUTSIDE)
import glob as _glob, os as _os
for _f in sorted(_glob.glob(_os.path.join(_os.path.dirname(_os.path.abspath(__file__)), "cat_*.py"))):
    with open(_f) as _fh:
        exec(compile(_fh.read(), _f, "exec"))

if globals().get("_C05_BLP_PENDING"):
    _c05_blp_register()
