# Catalogue of proof harnesses: which property/obligation each serves, where it is attached,
# which real functions it encodes, its symbolic inputs, bounds, assumptions and stubs.
# bin/check reads this; the per-harness text ends up verbatim in the evidence files.

FMT = "std::fmt::format -> String::new() (message text is never the subject)"

CRATES = {
    "mpq": {
        "dir": "file-formats/archives/wow-mpq",
        "attach": [
            # (source file the module is appended to, harness file, module name, visibility)
            ("src/crypto/mod.rs", "mpq/crypto.rs", "verif_kani_crypto", ""),
            ("src/tables/mod.rs", "mpq/tables_common.rs", "verif_kani_common", "pub(crate)"),
        ],
    },
    "wdt": {
        "dir": "file-formats/world-data/wow-wdt",
        "attach": [("src/lib.rs", "wdt/wdt.rs", "verif_kani_wdt", "")],
    },
    "wdl": {
        "dir": "file-formats/world-data/wow-wdl",
        "attach": [("src/lib.rs", "wdl/wdl.rs", "verif_kani_wdl", "")],
    },
}

GLOBAL_ASSUMPTIONS = [
    "Kani 0.68 / CBMC 6.11 semantics of Rust MIR (dev profile: overflow checks on); CaDiCaL verdicts trusted",
    "harness modules are attached to a scratch copy of /repo's working tree as cfg(kani) child modules; /repo itself is not modified",
    "every result is bounded by the harness's unwind bound and input shape; unwinding assertions are on, so a too-small bound is reported, not hidden",
]

OUTSIDE = {
    "C04": [
        "names longer than 4 bytes (MPQ hash vs reference: 3 bytes; fold invariance: 4 bytes; HET hash: listed lengths up to 25)",
        "cipher buffers longer than 8 words / byte buffers longer than 17 bytes",
        "non-ASCII names for the Jenkins hashes (MPQ hash covers every valid UTF-8 string of <= 3 bytes)",
        "hash widths outside 8..=64 for the HET hash",
    ],
}

_H = []


def modpath(crate, modname):
    for (src, hfile, m, vis) in CRATES[crate]["attach"]:
        if m == modname:
            p = src[len("src/"):]
            if p.endswith(".rs"):
                p = p[:-3]
            parts = [x for x in p.split("/") if x not in ("lib", "mod", "main")]
            return "::".join(parts + [m])
    raise KeyError(modname)


def H(prop, crate, mod, tier, obl, names, functions, inputs, bounds, assumes=(), stubs=(), timeout=300,
      expect="holds", **kw):
    for n in names if isinstance(names, (list, tuple)) else [names]:
        d = dict(prop=prop, crate=crate, mod=mod, tier=tier, obl=obl, name=n, full=modpath(crate, mod) + "::" + n,
                 functions=list(functions), inputs=inputs, bounds=bounds, assumes=list(assumes), stubs=list(stubs),
                 timeout=timeout, expect=expect)
        d.update(kw)
        _H.append(d)


def harnesses():
    return list(_H)


# =============================================================================== C04
_C = "verif_kani_crypto"
H("C04", "mpq", _C, "quick", "C04.a crypt table == generator of the format", ["c04a_crypt_table"],
  ["crypto::keys::ENCRYPTION_TABLE (const fn generate_encryption_table)"],
  "index i: usize (symbolic, all 1280 entries in one query)", "unwind 258 (reference generator, concrete)")
H("C04", "mpq", _C, "quick", "C04.a case tables == toupper/tolower", ["c04a_case_tables"],
  ["crypto::keys::ASCII_TO_UPPER", "crypto::keys::ASCII_TO_LOWER"], "index i: u8 (symbolic, all 256)", "none")
H("C04", "mpq", _C, "quick", "C04.b hash_string == reference HashString, 4 hash types",
  ["c04b_hash_len0", "c04b_hash_len1", "c04b_hash_len2"],
  ["crypto::hash::hash_string"], "name: every valid UTF-8 string of exactly 0/1/2 bytes (symbolic), hash type in 0..4 (symbolic)",
  "name length <= 2 bytes; unwind 258 for the concrete reference table", assumes=["bytes form valid UTF-8 (a &str cannot carry anything else)"])
H("C04", "mpq", _C, "thorough", "C04.b hash_string == reference HashString, 3-byte names", ["c04b_hash_len3"],
  ["crypto::hash::hash_string"], "name: every valid UTF-8 string of exactly 3 bytes, hash type symbolic",
  "name length 3", assumes=["bytes form valid UTF-8"], timeout=1500)
H("C04", "mpq", _C, "quick", "C04.c hashes invariant under ASCII case and slash direction",
  ["c04c_fold_invariance_len1", "c04c_fold_invariance_len2"],
  ["crypto::hash::hash_string", "crypto::jenkins::jenkins_one_at_a_time", "crypto::jenkins::jenkins_hashlittle2"],
  "two ASCII names a, b of equal length N (symbolic), hash type symbolic, HET width in {8,32,48,64}",
  "N <= 2", assumes=["fold(a[i]) == fold(b[i]) for all i (fold = '/'->'\\\\', ASCII upper-case)", "bytes < 0x80"])
H("C04", "mpq", _C, "thorough", "C04.c fold invariance, 3- and 4-byte names", ["c04c_fold_invariance_len3", "c04c_fold_invariance_len4"],
  ["crypto::hash::hash_string", "crypto::jenkins::jenkins_one_at_a_time", "crypto::jenkins::jenkins_hashlittle2"],
  "as above, N in {3,4}", "N in {3,4}", assumes=["fold-equal ASCII names"], timeout=1500)
H("C04", "mpq", _C, "quick", "C04.d decrypt_block inverts encrypt_block, every key and buffer",
  ["c04d_cipher_inverse_w1", "c04d_cipher_inverse_w2", "c04d_cipher_inverse_w3", "c04d_cipher_inverse_w4",
   "c04d_cipher_inverse_rev_w2"],
  ["crypto::encryption::encrypt_block", "crypto::decryption::decrypt_block"],
  "key: u32 symbolic, buffer: [u32; N] symbolic", "N <= 4 words")
H("C04", "mpq", _C, "thorough", "C04.d cipher inverse, 6 and 8 words",
  ["c04d_cipher_inverse_w6", "c04d_cipher_inverse_w8"],
  ["crypto::encryption::encrypt_block", "crypto::decryption::decrypt_block"],
  "key symbolic, buffer [u32; 6] / [u32; 8] symbolic", "N in {6, 8}", timeout=1500)
H("C04", "mpq", _C, "quick", "C04.d encrypt_block == cipher of the format (non-zero key); decrypt_block undoes the reference cipher",
  ["c04d_cipher_vs_spec_w1"],
  ["crypto::encryption::encrypt_block", "crypto::decryption::decrypt_block"],
  "key symbolic != 0, buffer [u32; 1] symbolic", "N = 1 word",
  assumes=["key != 0 (known finding KF-C04-key0: key 0 is treated as 'not encrypted')"])
H("C04", "mpq", _C, "thorough", "C04.d encrypt_block == cipher of the format, 2 and 3 words", ["c04d_cipher_vs_spec_w2", "c04d_cipher_vs_spec_w3"],
  ["crypto::encryption::encrypt_block", "crypto::decryption::decrypt_block"],
  "key symbolic != 0, buffer [u32; 2|3]", "N in {2,3}", assumes=["key != 0"], timeout=1500)
H("C04", "mpq", _C, "quick", "C04.d witness: cipher with key 0", ["c04d_cipher_vs_spec_key0_witness"],
  ["crypto::encryption::encrypt_block"], "concrete: key 0, one word", "one concrete input",
  expect="witness:KF-C04-key0")
H("C04", "mpq", _C, "quick", "C04.d decrypt_dword == one-word decrypt_block", ["c04d_decrypt_dword"],
  ["crypto::decryption::decrypt_dword", "crypto::decryption::decrypt_block"], "key, value: u32 symbolic", "none")
_bw = ["builder::ArchiveBuilder::encrypt_data", "archive::decrypt_file_data", "tables::common::decrypt_table_data"]
H("C04", "mpq", _C, "quick", "C04.e byte wrappers: decrypt_file_data and decrypt_table_data invert encrypt_data",
  ["c04e_bytes_len%d" % n for n in (1, 2, 3, 4, 5, 6, 7)], _bw,
  "key: u32 symbolic, data: [u8; N] symbolic", "N in 1..=7 bytes (one harness per length, incl. lengths not divisible by 4)")
H("C04", "mpq", _C, "thorough", "C04.e byte wrappers, 8..17 bytes",
  ["c04e_bytes_len%d" % n for n in (8, 9, 11, 12, 13, 16, 17)], _bw,
  "key symbolic, data [u8; N] symbolic", "N in {8,9,11,12,13,16,17}", timeout=1500)
H("C04", "mpq", _C, "quick", "C04.f HET hash == lookup3 hashlittle2 of the folded name, masked to the hash width",
  ["c04f_het_empty_name"] + ["c04f_het_len%d" % n for n in (1, 2, 3, 4, 5, 7, 8, 11, 12, 13)],
  ["crypto::jenkins::jenkins_hashlittle2", "crypto::jenkins::hashlittle2"],
  "name: [u8; N] ASCII symbolic, hash width bits in 8..=64 symbolic",
  "N in {0,1,2,3,4,5,7,8,11,12,13} (crosses the 12-byte block boundary)", assumes=["bytes < 0x80", "8 <= bits <= 64"])
H("C04", "mpq", _C, "thorough", "C04.f HET hash, 24/25-byte names", ["c04f_het_len24", "c04f_het_len25"],
  ["crypto::jenkins::jenkins_hashlittle2", "crypto::jenkins::hashlittle2"],
  "name: [u8; 24|25] ASCII symbolic, bits symbolic", "N in {24,25}", assumes=["bytes < 0x80"], timeout=1500)
H("C04", "mpq", _C, "quick", "C04.f BET hash == one-at-a-time of the lower-folded name",
  ["c04f_bet_len1", "c04f_bet_len3", "c04f_bet_len5"], ["crypto::jenkins::jenkins_one_at_a_time"],
  "name: [u8; N] ASCII symbolic", "N in {1,3,5}", assumes=["bytes < 0x80"])
H("C04", "mpq", _C, "quick", "canary", ["c04_canary"], ["crypto::encryption::encrypt_block"], "vacuity twin", "-",
  expect="canary")

# =============================================================================== C18
_W = "verif_kani_wdt"
H("C18", "wdt", _W, "quick", "C18.a world_to_tile(tile_to_world(t)) == t for all 64x64 tiles", ["c18a_tile_world_roundtrip"],
  ["tile_to_world", "world_to_tile"], "tile x, y: u32 symbolic < 64 (all 4096 tiles in one query; IEEE-754 single in CBMC's float model)", "none",
  assumes=["x < 64, y < 64"])
H("C18", "wdt", _W, "quick", "C18.b WDT chunk records: write(read(b)) == b, read(write(c)) == c, size() == bytes written",
  ["c18b_mphd_bytes_roundtrip", "c18b_mphd_api_roundtrip", "c18b_mver_roundtrip", "c18b_modf_bytes_roundtrip",
   "c18b_modf_two_entries_size", "c18b_modf_bad_size_rejected"],
  ["chunks::mphd::MphdChunk::{read,write,size}", "chunks::MverChunk::{read,write,size}", "chunks::ModfChunk::{read,write,size}"],
  "record bytes fully symbolic (32 / 4 / 64 bytes) or fields symbolic", "one record (MODF: 1 and 2 entries)")
H("C18", "wdt", _W, "thorough", "C18.b MAID: size() == bytes written for 1, 2, 8 sections",
  ["c18b_maid_size_1_section", "c18b_maid_size_2_sections", "c18b_maid_size_8_sections"],
  ["chunks::maid::MaidChunk::{with_section_count,new,set,write,size}"],
  "section count concrete in {1,2,8}; one file id at a symbolic (x,y)", "64x64 grid per section (format constant); counting sink", timeout=2400)
H("C18", "wdt", _W, "thorough", "C18.b MAID/MAIN write->read keeps an entry at an arbitrary grid position, nothing appears elsewhere",
  ["c18b_maid_roundtrip_1_section", "c18b_main_roundtrip"],
  ["chunks::maid::MaidChunk::{write,read,get,set}", "chunks::MainChunk::{write,read,get,get_mut,size}"],
  "one entry with symbolic content at symbolic (x,y), second symbolic probe position", "full 64x64 grid, 1 section", timeout=2400)
H("C18", "wdt", _W, "thorough", "C18.c MWMO names write->read, size() == bytes written", ["c18c_mwmo_roundtrip"],
  ["chunks::MwmoChunk::{write,read,size,add_filename}"], "two names of 3 and 2 symbolic ASCII bytes (non-NUL)", "2 names <= 3 bytes", timeout=2400)
H("C18", "wdt", _W, "quick", "C18.d MWMO emission rule is stable under write->read->write (version detection vs should_have_chunk)",
  ["c18d_mwmo_rule_stable_under_reparse"],
  ["version::VersionConfig::should_have_chunk", "WdtReader::detect_version", "WdtFile::is_wmo_only"],
  "version (10 values), MPHD flags u32, presence of MWMO/MODF/MAID all symbolic", "chunk presence logic only (no bytes)")
H("C18", "wdt", _W, "quick", "canary", ["c18_wdt_canary"], ["tile_to_world"], "vacuity twin", "-", expect="canary")
_L = "verif_kani_wdl"
H("C18", "wdl", _L, "quick", "C18.e WDL records: write(read(b)) == b with exactly the documented size",
  ["c18e_wdl_vec3d", "c18e_wdl_bbox", "c18e_wdl_model_placement", "c18e_wdl_m2_placement", "c18e_wdl_m2_visibility", "c18e_wdl_holes"],
  ["types::Vec3d::{read,write}", "types::BoundingBox::{read,write}", "types::ModelPlacement::{read,write}", "types::M2Placement::{read,write}",
   "types::M2VisibilityInfo::{read,write}", "types::HolesData::{read,write}", "types::Chunk::{new,read,write}"],
  "record bytes fully symbolic (12/24/64/40/28/32 bytes); chunk: magic + payload <= 6 symbolic bytes, symbolic length", "one record")
H("C18", "wdl", _L, "thorough", "C18.e WDL chunk framing: header declares exactly the payload", ["c18e_wdl_chunk_framing"],
  ["types::Chunk::{new,read,write}"], "magic and 6 payload bytes symbolic", "payload length 6", timeout=2400)
H("C18", "wdl", _L, "thorough", "C18.e MARE heightmap 545 values write->read, payload == TOTAL_COUNT*2 == 1090", ["c18e_wdl_heightmap_roundtrip"],
  ["types::HeightMapTile::{new,read,write}"], "one outer and one inner height symbolic at symbolic indices", "545 values (format constant)", timeout=2400)
H("C18", "wdl", _L, "quick", "canary", ["c18_wdl_canary"], ["types::Vec3d::read"], "vacuity twin", "-", expect="canary")
