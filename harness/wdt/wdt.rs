// C18 (WDT half) and C05.wdt: attached as a child module of wow-wdt/src/lib.rs
#![allow(unused_imports, dead_code)]
#[path = "../env/io.rs"]
mod vio;
use vio::{CountSink, Sink, Src};

use super::chunks::maid::{MaidChunk, MaidSection};
use super::chunks::{Chunk, MainChunk, MainEntry, ModfChunk, ModfEntry, MphdChunk, MphdFlags, MverChunk, MwmoChunk};
use super::version::{VersionConfig, WowVersion};
use super::{tile_to_world, world_to_tile, WdtFile, WdtReader, WdtWriter};

// ------------------------------------------------------------------ C18.a tile <-> world
#[kani::proof]
#[kani::stub(std::fmt::format, vio::fmt_stub)]
fn c18a_tile_world_roundtrip() {
    let x: u32 = kani::any();
    let y: u32 = kani::any();
    kani::assume(x < 64 && y < 64);
    let (wx, wy) = tile_to_world(x, y);
    let (tx, ty) = world_to_tile(wx, wy);
    kani::cover!(x == 63 && y == 0);
    assert!(tx == x && ty == y, "world_to_tile(tile_to_world(t)) != t");
}

// ------------------------------------------------------------------ C18.b chunk records
/// parse(bytes) then write reproduces the bytes; size() == bytes written
#[kani::proof]
#[kani::stub(std::fmt::format, vio::fmt_stub)]
#[kani::unwind(34)]
fn c18b_mphd_bytes_roundtrip() {
    let b: [u8; 32] = kani::any();
    let mut src = Src::<32>::new(b, 32);
    let r = MphdChunk::read(&mut src, 32);
    if r.is_err() {
        std::mem::forget(r);
        return;
    }
    {
        let c = r.unwrap();
        kani::cover!(c.has_maid(), "MAID flavour reachable");
        kani::cover!(!c.has_maid(), "legacy flavour reachable");
        assert!(src.pos == 32, "MPHD reader did not consume 32 bytes");
        let mut out = Sink::<40>::new();
        assert!(c.write(&mut out).is_ok());
        assert!(out.pos == 32 && c.size() == 32, "MPHD size() != bytes written");
        let i: usize = kani::any();
        kani::assume(i < 32);
        assert!(out.buf[i] == b[i], "MPHD write(read(b)) != b");
        // second parse equals the first
        let mut src2 = Src::<40>::new(out.buf, 32);
        let c2 = MphdChunk::read(&mut src2, 32);
        assert!(c2.is_ok(), "MPHD read(write(c)) fails");
        let c2 = c2.unwrap();
        assert!(c2 == c, "MPHD read(write(c)) != c");
        std::mem::forget((c, c2));
    }
}

#[kani::proof]
#[kani::stub(std::fmt::format, vio::fmt_stub)]
#[kani::unwind(34)]
fn c18b_mphd_api_roundtrip() {
    let mut c = MphdChunk::new();
    c.flags = MphdFlags::from_bits_truncate(kani::any());
    if kani::any() {
        c.set_file_data_ids(super::chunks::mphd::FileDataIds {
            lgt: kani::any(), occ: kani::any(), fogs: kani::any(), mpv: kani::any(),
            tex: kani::any(), wdl: kani::any(), pd4: kani::any(),
        });
    } else {
        c.flags.remove(MphdFlags::WDT_HAS_MAID);
        c.something = kani::any();
        c.unused = kani::any();
    }
    let mut out = Sink::<40>::new();
    assert!(c.write(&mut out).is_ok());
    assert!(out.pos == c.size(), "MPHD size() != bytes written");
    let mut src = Src::<40>::new(out.buf, out.pos);
    let r = MphdChunk::read(&mut src, out.pos);
    assert!(r.is_ok(), "MPHD written by the library is rejected by its reader");
    let d = r.unwrap();
    kani::cover!(d.has_maid());
    assert!(d.flags == c.flags, "MPHD flags changed");
    if c.has_maid() {
        assert!(d.lgt_file_data_id == c.lgt_file_data_id && d.occ_file_data_id == c.occ_file_data_id
            && d.fogs_file_data_id == c.fogs_file_data_id && d.mpv_file_data_id == c.mpv_file_data_id
            && d.tex_file_data_id == c.tex_file_data_id && d.wdl_file_data_id == c.wdl_file_data_id
            && d.pd4_file_data_id == c.pd4_file_data_id, "MPHD file ids changed");
    } else {
        assert!(d.something == c.something && d.unused == c.unused, "MPHD legacy fields changed");
    }
    std::mem::forget((c, d));
}

#[kani::proof]
#[kani::stub(std::fmt::format, vio::fmt_stub)]
#[kani::unwind(8)]
fn c18b_mver_roundtrip() {
    let b: [u8; 4] = kani::any();
    let size: usize = kani::any();
    let mut src = Src::<4>::new(b, 4);
    let r = MverChunk::read(&mut src, size);
    if r.is_err() {
        std::mem::forget(r);
        return;
    }
    {
        let c = r.unwrap();
        kani::cover!(true, "a version is accepted");
        let mut out = Sink::<8>::new();
        assert!(c.write(&mut out).is_ok());
        assert!(out.pos == 4 && c.size() == 4);
        assert!(out.buf[0] == b[0] && out.buf[1] == b[1] && out.buf[2] == b[2] && out.buf[3] == b[3]);
    }
}

fn feq(a: &[f32; 3], b: &[f32; 3]) -> bool {
    a[0].to_bits() == b[0].to_bits() && a[1].to_bits() == b[1].to_bits() && a[2].to_bits() == b[2].to_bits()
}

#[kani::proof]
#[kani::stub(std::fmt::format, vio::fmt_stub)]
#[kani::unwind(6)]
fn c18b_modf_bytes_roundtrip() {
    let b: [u8; 64] = kani::any();
    let mut src = Src::<64>::new(b, 64);
    let r = ModfChunk::read(&mut src, 64);
    assert!(r.is_ok(), "a 64-byte MODF is rejected");
    let c = r.unwrap();
    assert!(c.entries.len() == 1 && src.pos == 64);
    kani::cover!(c.entries[0].scale == 1024);
    let mut out = Sink::<72>::new();
    assert!(c.write(&mut out).is_ok());
    assert!(out.pos == 64 && c.size() == 64, "MODF size() != bytes written");
    let i: usize = kani::any();
    kani::assume(i < 64);
    assert!(out.buf[i] == b[i], "MODF write(read(b)) != b");
    std::mem::forget(c);
}

#[kani::proof]
#[kani::stub(std::fmt::format, vio::fmt_stub)]
#[kani::unwind(6)]
fn c18b_modf_two_entries_size() {
    let mut c = ModfChunk::new();
    let mut e = ModfEntry::new();
    e.id = kani::any();
    e.flags = kani::any();
    c.add_entry(e);
    let mut e2 = ModfEntry::new();
    e2.unique_id = kani::any();
    e2.scale = kani::any();
    c.add_entry(e2);
    let mut out = CountSink { n: 0 };
    assert!(c.write(&mut out).is_ok());
    kani::cover!(out.n == 128);
    assert!(out.n == c.size(), "MODF size() != bytes written (2 entries)");
    std::mem::forget(c);
}

#[kani::proof]
#[kani::stub(std::fmt::format, vio::fmt_stub)]
#[kani::unwind(6)]
fn c18b_modf_bad_size_rejected() {
    let size: usize = kani::any();
    kani::assume(size < 64 && size > 0);
    let b: [u8; 64] = kani::any();
    let mut src = Src::<64>::new(b, 64);
    let r = ModfChunk::read(&mut src, size);
    kani::cover!(r.is_err());
    assert!(r.is_err(), "MODF with a size that is not a multiple of 64 accepted");
    std::mem::forget(r);
}

// ------------------------------------------------------------------ C18.b MAID: size() vs bytes written
fn maid_size(k: usize) {
    let mut c = MaidChunk::with_section_count(k);
    let x: usize = kani::any();
    let y: usize = kani::any();
    kani::assume(x < 64 && y < 64);
    let _ = c.set(MaidSection::RootAdt, x, y, kani::any());
    let mut out = CountSink { n: 0 };
    assert!(c.write(&mut out).is_ok());
    kani::cover!(out.n == k * 16384);
    assert!(out.n == c.size(), "MAID size() != bytes written");
    assert!(c.section_count() == k);
    std::mem::forget(c);
}
#[kani::proof]
#[kani::stub(std::fmt::format, vio::fmt_stub)]
#[kani::unwind(66)]
fn c18b_maid_size_1_section() { maid_size(1) }
#[kani::proof]
#[kani::stub(std::fmt::format, vio::fmt_stub)]
#[kani::unwind(66)]
fn c18b_maid_size_2_sections() { maid_size(2) }
#[kani::proof]
#[kani::stub(std::fmt::format, vio::fmt_stub)]
#[kani::unwind(66)]
fn c18b_maid_size_8_sections() {
    let c = MaidChunk::new();
    let mut out = CountSink { n: 0 };
    assert!(c.write(&mut out).is_ok());
    kani::cover!(out.n == 8 * 16384);
    assert!(out.n == c.size(), "MAID size() != bytes written");
    std::mem::forget(c);
}


/// size() of the file-id table equals sections x 64 x 64 x 4 bytes (the published layout) for any section count
#[kani::proof]
#[kani::stub(std::fmt::format, vio::fmt_stub)]
#[kani::unwind(66)]
fn c18b_maid_size_formula() {
    const KS: [usize; 4] = [0, 1, 2, 9];
    let mut i = 0;
    while i < 4 {
        let c = MaidChunk::with_section_count(KS[i]);
        kani::cover!(i == 3);
        assert!(c.section_count() == KS[i]);
        assert!(c.size() == KS[i] * 64 * 64 * 4, "MAID size() differs from sections * 64 * 64 * 4 bytes");
        std::mem::forget(c);
        i += 1;
    }
}

/// MAID write -> read keeps a file id at an arbitrary position of section 0 (1 section)
#[kani::proof]
#[kani::stub(std::fmt::format, vio::fmt_stub)]
#[kani::unwind(66)]
fn c18b_maid_roundtrip_1_section() {
    let mut c = MaidChunk::with_section_count(1);
    let x: usize = kani::any();
    let y: usize = kani::any();
    kani::assume(x < 64 && y < 64);
    let id: u32 = kani::any();
    assert!(c.set(MaidSection::RootAdt, x, y, id).is_ok());
    let mut out = Sink::<16384>::new();
    assert!(c.write(&mut out).is_ok());
    assert!(out.pos == 16384);
    let mut src = Src::<16384>::new(out.buf, 16384);
    let r = MaidChunk::read(&mut src, 16384);
    assert!(r.is_ok());
    let d = r.unwrap();
    kani::cover!(d.get(MaidSection::RootAdt, 63, 0) == Some(7));
    assert!(d.section_count() == 1);
    assert!(d.get(MaidSection::RootAdt, x, y) == Some(id), "MAID entry moved or changed in write->read");
    let x2: usize = kani::any();
    let y2: usize = kani::any();
    kani::assume(x2 < 64 && y2 < 64 && (x2 != x || y2 != y));
    assert!(d.get(MaidSection::RootAdt, x2, y2) == Some(0), "MAID entry appeared elsewhere");
    std::mem::forget((c, d));
}

// ------------------------------------------------------------------ C18.c MWMO names
#[kani::proof]
#[kani::stub(std::fmt::format, vio::fmt_stub)]
#[kani::unwind(8)]
fn c18c_mwmo_roundtrip() {
    let a: [u8; 3] = kani::any();
    let b: [u8; 2] = kani::any();
    kani::assume(a[0] < 0x80 && a[1] < 0x80 && a[2] < 0x80 && b[0] < 0x80 && b[1] < 0x80);
    kani::assume(a[0] != 0 && a[1] != 0 && a[2] != 0 && b[0] != 0 && b[1] != 0);
    let mut c = MwmoChunk::new();
    c.add_filename(unsafe { String::from_utf8_unchecked(a.to_vec()) });
    c.add_filename(unsafe { String::from_utf8_unchecked(b.to_vec()) });
    let mut out = Sink::<16>::new();
    assert!(c.write(&mut out).is_ok());
    kani::cover!(out.pos == 7);
    assert!(out.pos == c.size(), "MWMO size() != bytes written");
    let mut src = Src::<16>::new(out.buf, out.pos);
    let r = MwmoChunk::read(&mut src, out.pos);
    assert!(r.is_ok());
    let d = r.unwrap();
    assert!(d.filenames.len() == 2, "MWMO name count changed");
    assert!(d.filenames[0].as_bytes() == &a[..] && d.filenames[1].as_bytes() == &b[..], "MWMO names changed");
    std::mem::forget((c, d));
}

// ------------------------------------------------------------------ C18.b MAIN
/// MAIN write -> read keeps an entry at an arbitrary grid position (row/column order)
#[kani::proof]
#[kani::stub(std::fmt::format, vio::fmt_stub)]
#[kani::unwind(66)]
fn c18b_main_roundtrip() {
    let mut c = MainChunk::new();
    let x: usize = kani::any();
    let y: usize = kani::any();
    kani::assume(x < 64 && y < 64);
    let e = MainEntry { flags: kani::any(), area_id: kani::any() };
    *c.get_mut(x, y).unwrap() = e;
    let mut out = Sink::<32768>::new();
    assert!(c.write(&mut out).is_ok());
    assert!(out.pos == c.size() && out.pos == 32768, "MAIN size() != bytes written");
    let mut src = Src::<32768>::new(out.buf, 32768);
    let r = MainChunk::read(&mut src, 32768);
    assert!(r.is_ok());
    let d = r.unwrap();
    kani::cover!(x == 63 && y == 1);
    assert!(*d.get(x, y).unwrap() == e, "MAIN entry moved or changed in write->read");
    let x2: usize = kani::any();
    let y2: usize = kani::any();
    kani::assume(x2 < 64 && y2 < 64 && (x2 != x || y2 != y));
    assert!(*d.get(x2, y2).unwrap() == MainEntry::new(), "MAIN entry appeared elsewhere");
    std::mem::forget((c, d));
}

// ------------------------------------------------------------------ C18.d MWMO version rule, write -> read -> write
fn version_any() -> WowVersion {
    let v: u8 = kani::any();
    kani::assume(v < 10);
    match v {
        0 => WowVersion::Classic, 1 => WowVersion::TBC, 2 => WowVersion::WotLK, 3 => WowVersion::Cataclysm,
        4 => WowVersion::MoP, 5 => WowVersion::WoD, 6 => WowVersion::Legion, 7 => WowVersion::BfA,
        8 => WowVersion::Shadowlands, _ => WowVersion::Dragonflight,
    }
}

/// which optional chunks the writer emits for a file, as the real writer decides it
fn emits_mwmo(cfg: &VersionConfig, has_mwmo: bool, wmo_only: bool) -> bool {
    has_mwmo && cfg.should_have_chunk("MWMO", wmo_only)
}

/// second write is chunk-for-chunk identical: the version the reader detects from what the writer emitted
/// makes the writer emit the same optional chunks again
#[kani::proof]
#[kani::stub(std::fmt::format, vio::fmt_stub)]
#[kani::unwind(8)]
fn c18d_mwmo_rule_stable_under_reparse() {
    let version = version_any();
    let flags: u32 = kani::any();
    let has_mwmo: bool = kani::any();
    let has_modf: bool = kani::any();
    let has_maid: bool = kani::any();
    // a MAID chunk only exists in versions that define it (the writer is not asked to police that)
    kani::assume(!has_maid || version.has_maid_chunk());
    let mut w = WdtFile { mver: MverChunk::new(), mphd: MphdChunk::new(), main: MainChunk { entries: Vec::new() },
        maid: None, mwmo: None, modf: None, version_config: VersionConfig::new(version) };
    w.mphd.flags = MphdFlags::from_bits_truncate(flags);
    let wmo_only = w.is_wmo_only();
    let wrote_mwmo = emits_mwmo(&w.version_config, has_mwmo, wmo_only);
    // what the reader sees
    let mut r = WdtFile { mver: MverChunk::new(), mphd: MphdChunk::new(), main: MainChunk { entries: Vec::new() },
        maid: if has_maid { Some(MaidChunk::with_section_count(0)) } else { None },
        mwmo: if wrote_mwmo { Some(MwmoChunk::new()) } else { None },
        modf: if has_modf { Some(ModfChunk::new()) } else { None },
        version_config: VersionConfig::new(version) };
    r.mphd.flags = w.mphd.flags;
    let reader = WdtReader::new(Src::<1>::new([0], 0), version);
    let detected = reader.detect_version(&r);
    r.version_config = VersionConfig::new(detected);
    let wrote_mwmo_again = emits_mwmo(&r.version_config, r.mwmo.is_some(), r.is_wmo_only());
    kani::cover!(wrote_mwmo && detected == WowVersion::WotLK);
    kani::cover!(!wrote_mwmo && has_mwmo);
    assert!(wrote_mwmo == wrote_mwmo_again, "MWMO chunk emitted by the first write is dropped (or added) by the second write");
    std::mem::forget((w, r, reader));
}

// ------------------------------------------------------------------ C05.wdt chunk readers are total
#[kani::proof]
#[kani::stub(std::fmt::format, vio::fmt_stub)]
#[kani::unwind(10)]
fn c05_wdt_mphd_total() {
    let b: [u8; 8] = kani::any();
    let len: usize = kani::any();
    kani::assume(len <= 8);
    let size: usize = kani::any();
    let mut src = Src::<8>::new(b, len);
    let r = MphdChunk::read(&mut src, size);
    kani::cover!(r.is_err());
    std::mem::forget(r);
}

#[kani::proof]
#[kani::stub(std::fmt::format, vio::fmt_stub)]
#[kani::unwind(4)]
fn c18_wdt_canary() {
    let x: u32 = kani::any();
    kani::assume(x < 64);
    let (wx, _wy) = tile_to_world(0, x);
    assert!(wx > 20000.0, "canary: must be reported as failing");
}
