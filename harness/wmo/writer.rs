// C15 (WMO write -> parse), writer side.  Child module of wow-wmo/src/writer.rs: sees the private
// `WmoWriter::write_*` chunk writers.  Oracles: the chunk law of the format (8-byte header declares
// exactly the payload that follows, records have the documented size), the crate's *other* reader of
// the same chunk (binrw entry types of chunks.rs used by `parse_wmo`), and a reference chunk walker.
#![allow(unused_imports, dead_code)]
#[path = "../env/io.rs"]
mod vio;
use vio::{CountSink, Sink, Src};
#[path = "common.rs"]
mod common;
use common::*;

use super::*;
use crate::chunks::{MobaEntry, MobnEntry, MocvEntry, ModdEntry, ModsEntry, MogiEntry, MoltEntry, MomtEntry, MoprEntry, MoptEntry, MovtEntry};
use crate::types::BoundingBox;
use crate::wmo_group_types::{WmoGroupFlags, WmoGroupHeader, WmoLiquidVertex, WmoPlane};
use crate::wmo_types::{WmoHeader, WmoLightProperties, WmoLightType, WmoMaterialFlags};
use binrw::BinRead;

// ================================================================== C15.a chunk framing per writer function
// ---- MOMT
#[kani::proof]
#[kani::stub(std::fmt::format, vio::fmt_stub)]
#[kani::unwind(30)]
fn c15a_momt_framing_1() {
    let v = ver_any();
    kani::assume(v >= WmoVersion::Mop); // known finding momt-size: below MoP 40 bytes per material are declared, 64 written
    let m = [any_material()];
    let mut out = Sink::<80>::new();
    let r = WmoWriter::new().write_materials(&mut out, &m, v);
    assert!(r.is_ok());
    kani::cover!(out.pos == 72);
    framed(&out, b"MOMT", 1, 64);
    std::mem::forget((r, m));
}
#[kani::proof]
#[kani::stub(std::fmt::format, vio::fmt_stub)]
#[kani::unwind(30)]
fn c15a_momt_framing_2() {
    let m = [any_material(), any_material()];
    let mut out = Sink::<140>::new();
    let r = WmoWriter::new().write_materials(&mut out, &m, WmoVersion::Mop);
    assert!(r.is_ok());
    kani::cover!(out.pos == 136);
    framed(&out, b"MOMT", 2, 64);
    // the second record starts one record size after the first
    assert!(u32_at(&out, 8 + 64 + 4) == m[1].shader && u32_at(&out, 8 + 4) == m[0].shader, "second material is not at offset 64");
    std::mem::forget((r, m));
}
/// witness of known finding momt-size (concrete input: Classic, one default material)
#[kani::proof]
#[kani::stub(std::fmt::format, vio::fmt_stub)]
#[kani::unwind(30)]
fn c15a_momt_framing_witness() {
    let m = [WmoMaterial { flags: WmoMaterialFlags::empty(), shader: 0, blend_mode: 0, texture1: 0, emissive_color: Color::default(),
        sidn_color: Color::default(), framebuffer_blend: Color::default(), texture2: 0, diffuse_color: Color::default(), ground_type: 0 }];
    let mut out = Sink::<80>::new();
    let r = WmoWriter::new().write_materials(&mut out, &m, WmoVersion::Classic);
    assert!(r.is_ok());
    assert!(size_at(&out, 0) + 8 == out.pos, "[momt-size] MOMT: declared chunk size != bytes written (version below MoP)");
    std::mem::forget((r, m));
}
/// MOMT record layout against the format's SMOMaterial (the layout chunks::MomtEntry declares): field offsets, zero tail.
/// (`MomtEntry::read` itself - binrw, 64 bytes with a `Vec<u8>` tail - gave no verdict after 17 CPU-minutes.)
#[kani::proof]
#[kani::stub(std::fmt::format, vio::fmt_stub)]
#[kani::unwind(30)]
fn c15a_momt_record_layout() {
    let m = [any_material()];
    let mut out = Sink::<80>::new();
    let r = WmoWriter::new().write_materials(&mut out, &m, WmoVersion::Mop);
    assert!(r.is_ok());
    kani::cover!(out.pos == 72);
    let (e, k) = (8, &m[0]);
    assert!(u32_at(&out, e) == k.flags.bits() && u32_at(&out, e + 4) == k.shader && u32_at(&out, e + 8) == k.blend_mode && u32_at(&out, e + 0x0C) == k.texture1,
        "MOMT flags/shader/blend/texture_1 are not at 0x00/0x04/0x08/0x0C");
    assert!(out.buf[e + 0x10] == k.emissive_color.r && out.buf[e + 0x13] == k.emissive_color.a && out.buf[e + 0x14] == k.sidn_color.r && out.buf[e + 0x17] == k.sidn_color.a,
        "MOMT colour fields are not at 0x10/0x14");
    assert!(u32_at(&out, e + 0x18) == k.texture2 && out.buf[e + 0x1C] == k.diffuse_color.r && out.buf[e + 0x1F] == k.diffuse_color.a && u32_at(&out, e + 0x20) == k.ground_type,
        "MOMT texture_2/diffuse colour/ground type are not at 0x18/0x1C/0x20");
    let i: usize = kani::any();
    kani::assume(i >= 0x24 && i < 64);
    assert!(out.buf[e + i] == 0, "MOMT tail (texture_3, color_2, flags_2, runtime data) is not zero");
    std::mem::forget((r, m));
}

// ---- MOGI
fn mogi_framing(n: usize) {
    let mut g = Vec::new();
    let mut i = 0;
    while i < n { g.push(any_group_info(String::new())); i += 1; }
    let mut out = Sink::<80>::new();
    let r = WmoWriter::new().write_group_info(&mut out, &g, ver_classic_to_mop());
    assert!(r.is_ok());
    kani::cover!(out.pos == 8 + 32 * n);
    framed(&out, b"MOGI", n, 32);
    let mut src = Src::<80>::new(out.buf, out.pos);
    src.pos = 8 + 32 * (n - 1);
    let e = MogiEntry::read(&mut src);
    assert!(e.is_ok());
    let e = e.unwrap();
    let k = &g[n - 1];
    assert!(e.flags == k.flags.bits(), "MOGI flags moved");
    assert!(v3eq(&k.bounding_box.min, e.bounding_box_min[0], e.bounding_box_min[1], e.bounding_box_min[2])
        && v3eq(&k.bounding_box.max, e.bounding_box_max[0], e.bounding_box_max[1], e.bounding_box_max[2]), "MOGI bounding box moved");
    std::mem::forget((r, g, e));
}
#[kani::proof]
#[kani::stub(std::fmt::format, vio::fmt_stub)]
#[kani::unwind(12)]
fn c15a_mogi_framing_1() { mogi_framing(1) }
#[kani::proof]
#[kani::stub(std::fmt::format, vio::fmt_stub)]
#[kani::unwind(12)]
fn c15a_mogi_framing_2() { mogi_framing(2) }

// ---- MOPR
#[kani::proof]
#[kani::stub(std::fmt::format, vio::fmt_stub)]
#[kani::unwind(12)]
fn c15a_mopr_framing() {
    let refs = [WmoPortalReference { portal_index: kani::any(), group_index: kani::any(), side: kani::any() },
        WmoPortalReference { portal_index: kani::any(), group_index: kani::any(), side: kani::any() }];
    let mut out = Sink::<32>::new();
    let r = WmoWriter::new().write_portal_references(&mut out, &refs);
    assert!(r.is_ok());
    kani::cover!(out.pos == 24);
    framed(&out, b"MOPR", 2, 8);
    let mut src = Src::<32>::new(out.buf, out.pos);
    src.pos = 16;
    let e = MoprEntry::read(&mut src).unwrap();
    assert!(e.portal_index == refs[1].portal_index && e.group_index == refs[1].group_index && e.side as u16 == refs[1].side, "MOPR fields moved");
    std::mem::forget((r, refs, e));
}

// ---- MOPV + MOPT
#[kani::proof]
#[kani::stub(std::fmt::format, vio::fmt_stub)]
#[kani::unwind(12)]
fn c15a_portals_framing() {
    // the writer multiplies normal by first vertex (plane distance): one factor of every product is kept concrete
    let p = [WmoPortal { vertices: vec![any_vec3(), any_vec3()], normal: Vec3 { x: 0.0, y: 0.0, z: 1.0 } }];
    let mut out = Sink::<64>::new();
    let r = WmoWriter::new().write_portals(&mut out, &p);
    assert!(r.is_ok());
    kani::cover!(out.pos == 60);
    assert!(tiles(&out, 0, &[b"MOPV", b"MOPT"]), "MOPV/MOPT chunks do not tile the bytes written");
    assert!(size_at(&out, 0) == 2 * 12, "MOPV payload != vertices x 12");
    assert!(size_at(&out, 32) == 20, "MOPT payload != portals x 20");
    let mut src = Src::<64>::new(out.buf, out.pos);
    src.pos = 8;
    let v = crate::chunks::MopvEntry::read(&mut src).unwrap();
    let v2 = crate::chunks::MopvEntry::read(&mut src).unwrap();
    src.pos = 40;
    let e = MoptEntry::read(&mut src).unwrap();
    assert!(e.start_vertex == 0 && e.n_vertices == 2, "MOPT vertex range is not [0, 2)");
    assert!(v3eq(&p[0].normal, e.normal.x, e.normal.y, e.normal.z), "MOPT normal moved");
    // plane distance = normal . first vertex = z of the first vertex for this normal (+0.0 terms keep the bits except for -0.0/NaN)
    assert!(e.distance.to_bits() == (0.0 * p[0].vertices[0].x + 0.0 * p[0].vertices[0].y + 1.0 * p[0].vertices[0].z).to_bits(), "MOPT plane distance is not normal . vertex");
    assert!(v3eq(&p[0].vertices[0], v.x, v.y, v.z) && v3eq(&p[0].vertices[1], v2.x, v2.y, v2.z), "MOPV vertices moved");
    std::mem::forget((r, p, e, v, v2));
}
/// vertex ranges of several portals (contents concrete: only the index arithmetic is the subject)
#[kani::proof]
#[kani::stub(std::fmt::format, vio::fmt_stub)]
#[kani::unwind(12)]
fn c15a_portal_vertex_ranges() {
    let a = Vec3 { x: 1.0, y: 2.0, z: 3.0 };
    let b = Vec3 { x: 4.0, y: 5.0, z: 6.0 };
    let p = [WmoPortal { vertices: vec![a], normal: a }, WmoPortal { vertices: vec![b, a], normal: b }, WmoPortal { vertices: Vec::new(), normal: a },
        WmoPortal { vertices: vec![b], normal: a }];
    let mut out = Sink::<160>::new();
    let r = WmoWriter::new().write_portals(&mut out, &p);
    assert!(r.is_ok());
    kani::cover!(out.pos == 8 + 48 + 8 + 80);
    assert!(tiles(&out, 0, &[b"MOPV", b"MOPT"]) && size_at(&out, 0) == 4 * 12 && size_at(&out, 56) == 4 * 20, "MOPV/MOPT payloads != vertices x 12 / portals x 20");
    let t = 56 + 8;
    assert!(u16_at(&out, t) == 0 && u16_at(&out, t + 2) == 1 && u16_at(&out, t + 20) == 1 && u16_at(&out, t + 22) == 2 && u16_at(&out, t + 40) == 3
        && u16_at(&out, t + 42) == 0 && u16_at(&out, t + 60) == 3 && u16_at(&out, t + 62) == 1, "MOPT vertex ranges are not the running sums of the vertex counts");
    // portal 3's range [3, 4) addresses its vertex b
    assert!(u32_at(&out, 8 + 3 * 12) == b.x.to_bits(), "MOPT start vertex does not address the portal's first vertex in MOPV");
    std::mem::forget((r, p));
}

// ---- MOVV + MOVB (offset table + 0xFFFF-terminated lists, as this crate's writer and WmoParser define them)
#[kani::proof]
#[kani::stub(std::fmt::format, vio::fmt_stub)]
#[kani::unwind(12)]
fn c15a_visible_lists_framing() {
    let lists = [vec![kani::any::<u16>(), kani::any::<u16>()], Vec::new(), vec![kani::any::<u16>()]];
    let mut out = Sink::<64>::new();
    let r = WmoWriter::new().write_visible_block_lists(&mut out, &lists);
    assert!(r.is_ok());
    kani::cover!(out.pos == 8 + 12 + 8 + 12);
    assert!(tiles(&out, 0, &[b"MOVV", b"MOVB"]), "MOVV/MOVB chunks do not tile the bytes written");
    assert!(size_at(&out, 0) == 3 * 4, "MOVV payload != lists x 4");
    let data = 20 + 8;
    // every offset addresses the first element of its list inside MOVB
    let o0 = u32_at(&out, 8) as usize;
    let o1 = u32_at(&out, 12) as usize;
    let o2 = u32_at(&out, 16) as usize;
    assert!(o0 == 0 && u16_at(&out, data + o0) == lists[0][0] && u16_at(&out, data + o0 + 2) == lists[0][1] && u16_at(&out, data + o0 + 4) == 0xFFFF,
        "MOVV offset 0 does not address list 0");
    assert!(o1 == 6 && u16_at(&out, data + o1) == 0xFFFF, "MOVV offset 1 does not address the (empty) list 1");
    assert!(o2 == 8 && u16_at(&out, data + o2) == lists[2][0] && u16_at(&out, data + o2 + 2) == 0xFFFF, "MOVV offset 2 does not address list 2");
    std::mem::forget((r, lists));
}

// ---- MOLT
#[kani::proof]
#[kani::stub(std::fmt::format, vio::fmt_stub)]
#[kani::unwind(12)]
fn c15a_molt_framing_and_entry() {
    let l = [any_light(), any_light()];
    let mut out = Sink::<112>::new();
    let r = WmoWriter::new().write_lights(&mut out, &l, ver_classic_to_mop());
    assert!(r.is_ok());
    kani::cover!(out.pos == 104);
    framed(&out, b"MOLT", 2, 48);
    let mut src = Src::<112>::new(out.buf, out.pos);
    src.pos = 8 + 48;
    let e = MoltEntry::read(&mut src);
    assert!(e.is_ok());
    let e = e.unwrap();
    let k = &l[1];
    assert!(e.light_type == k.light_type as u8 && (e.use_attenuation != 0) == k.use_attenuation, "MOLT type/attenuation flag moved");
    assert!(e.color[0] == k.color.b && e.color[1] == k.color.g && e.color[2] == k.color.r && e.color[3] == k.color.a, "MOLT colour is not BGRA");
    assert!(v3eq(&k.position, e.position[0], e.position[1], e.position[2]) && e.intensity.to_bits() == k.intensity.to_bits(), "MOLT position/intensity moved");
    let i: usize = kani::any();
    kani::assume(i < 4);
    assert!(e.rotation[i].to_bits() == k.rotation[i].to_bits(), "MOLT rotation moved");
    assert!(e.attenuation_start.to_bits() == k.attenuation_start.to_bits() && e.attenuation_end.to_bits() == k.attenuation_end.to_bits(), "MOLT attenuation range moved");
    std::mem::forget((r, l, e));
}

// ---- MODS
#[kani::proof]
#[kani::stub(std::fmt::format, vio::fmt_stub)]
#[kani::unwind(24)]
fn c15a_mods_framing_and_entry() {
    let a = ascii::<3>();
    let s = [WmoDoodadSet { name: string_of(&a), start_doodad: kani::any(), n_doodads: kani::any() }];
    let mut out = Sink::<48>::new();
    let r = WmoWriter::new().write_doodad_sets(&mut out, &s);
    assert!(r.is_ok());
    kani::cover!(out.pos == 40);
    framed(&out, b"MODS", 1, 32);
    let mut src = Src::<48>::new(out.buf, out.pos);
    src.pos = 8;
    let e = ModsEntry::read(&mut src).unwrap();
    assert!(e.name[0] == a[0] && e.name[1] == a[1] && e.name[2] == a[2] && e.name[3] == 0, "MODS name moved / not NUL terminated");
    assert!(e.start_index == s[0].start_doodad && e.count == s[0].n_doodads, "MODS range moved");
    std::mem::forget((r, s, e));
}

// ---- MODN + MODD (doodad names are synthesised with format!: abstracted to a fixed 2-byte name)
#[kani::proof]
#[kani::stub(std::fmt::format, common::fmt_stub_dd)]
#[kani::unwind(12)]
fn c15a_doodad_defs_framing() {
    let d = [any_doodad()];
    let mut out = Sink::<64>::new();
    let r = WmoWriter::new().write_doodad_definitions(&mut out, &d, ver_classic_to_mop());
    assert!(r.is_ok());
    kani::cover!(out.pos == 8 + 3 + 8 + 40);
    assert!(tiles(&out, 0, &[b"MODN", b"MODD"]), "MODN/MODD chunks do not tile the bytes written");
    assert!(size_at(&out, 0) == 3, "MODN payload != names + terminators");
    assert!(size_at(&out, 11) == 40, "MODD payload != doodads x 40");
    // SMODoodadDef of the format: nameIndex:24 + flags:8 @0, position @4, orientation @16, scale @32, colour BGRA @36
    let e = 19;
    assert!(u32_at(&out, e) & 0x00FF_FFFF == 0 && out.buf[8] != 0 && out.buf[10] == 0, "MODD name offset of doodad 0 does not address its NUL-terminated name in MODN");
    let k = &d[0];
    assert!(u32_at(&out, e + 4) == k.position.x.to_bits() && u32_at(&out, e + 8) == k.position.y.to_bits() && u32_at(&out, e + 12) == k.position.z.to_bits(), "MODD position moved");
    assert!(u32_at(&out, e + 16) == k.orientation[0].to_bits() && u32_at(&out, e + 20) == k.orientation[1].to_bits() && u32_at(&out, e + 24) == k.orientation[2].to_bits()
        && u32_at(&out, e + 28) == k.orientation[3].to_bits(), "MODD orientation moved");
    assert!(u32_at(&out, e + 32) == k.scale.to_bits(), "MODD scale moved");
    assert!(out.buf[e + 36] == k.color.b && out.buf[e + 37] == k.color.g && out.buf[e + 38] == k.color.r && out.buf[e + 39] == k.color.a, "MODD colour is not BGRA");
    std::mem::forget((r, d));
}
/// C15.c: every name offset written into MODD addresses the start of a name inside MODN (3 doodads, contents concrete)
#[kani::proof]
#[kani::stub(std::fmt::format, common::fmt_stub_dd)]
#[kani::unwind(40)]
fn c15c_doodad_name_table() {
    let z = Vec3 { x: 0.0, y: 0.0, z: 0.0 };
    let mk = |o: u32| WmoDoodadDef { name_offset: o, position: z, orientation: [0.0, 0.0, 0.0, 1.0], scale: 1.0, color: Color::default(), set_index: 0 };
    let d = [mk(0), mk(0), mk(0)];
    let mut out = Paged::<3>::new();
    let r = WmoWriter::new().write_doodad_definitions(&mut out, &d, WmoVersion::Classic);
    assert!(r.is_ok());
    kani::cover!(out.len == 8 + 9 + 8 + 120);
    assert!(tiles(&out, 0, &[b"MODN", b"MODD"]) && size_at(&out, 0) == 9 && size_at(&out, 17) == 120, "MODN/MODD payloads != names / doodads x 40");
    let (o0, o1, o2) = (u32_at(&out, 25) & 0x00FF_FFFF, u32_at(&out, 65) & 0x00FF_FFFF, u32_at(&out, 105) & 0x00FF_FFFF);
    assert!(o0 == 0 && o1 == 3 && o2 == 6, "MODD name offsets are not the running sums of the name lengths");
    // names "dd\0" at 0, 3, 6 of the MODN payload: every offset addresses the first byte after a NUL (or the payload start)
    assert!(out.at(8) != 0 && out.at(8 + 2) == 0 && out.at(8 + 3) != 0 && out.at(8 + 5) == 0 && out.at(8 + 6) != 0 && out.at(8 + 8) == 0,
        "MODD name offsets do not address the starts of the names in MODN");
    std::mem::forget((r, d));
}

// ---- MOTX / MOGN / MOSB string chunks
#[kani::proof]
#[kani::stub(std::fmt::format, vio::fmt_stub)]
#[kani::unwind(12)]
fn c15c_motx_mogn_mosb_framing() {
    let a = ascii::<3>();
    let b = ascii::<2>();
    let tex = [string_of(&a), string_of(&b)];
    let mut out = Sink::<24>::new();
    let r = WmoWriter::new().write_textures(&mut out, &tex);
    assert!(r.is_ok());
    kani::cover!(out.pos == 15);
    framed(&out, b"MOTX", 1, 7);
    // names are where the running offsets 0 and len(a)+1 say, NUL terminated
    assert!(out.buf[8] == a[0] && out.buf[10] == a[2] && out.buf[11] == 0 && out.buf[12] == b[0] && out.buf[13] == b[1] && out.buf[14] == 0,
        "MOTX names are not at offsets 0 and 4");
    let g = [any_group_info(string_of(&a)), any_group_info(string_of(&b))];
    let mut out2 = Sink::<24>::new();
    let r2 = WmoWriter::new().write_group_names(&mut out2, &g);
    assert!(r2.is_ok());
    framed(&out2, b"MOGN", 1, 7);
    assert!(out2.buf[8] == a[0] && out2.buf[11] == 0 && out2.buf[12] == b[0] && out2.buf[14] == 0, "MOGN names are not at offsets 0 and 4");
    let sky = string_of(&a);
    let mut out3 = Sink::<24>::new();
    let r3 = WmoWriter::new().write_skybox(&mut out3, Some(sky.as_str()));
    assert!(r3.is_ok());
    framed(&out3, b"MOSB", 1, 4);
    assert!(out3.buf[8] == a[0] && out3.buf[11] == 0);
    std::mem::forget((r, r2, r3, tex, g, sky));
}

// ================================================================== group chunks
#[kani::proof]
#[kani::stub(std::fmt::format, vio::fmt_stub)]
#[kani::unwind(12)]
fn c15a_group_vectors_framing() {
    let w = WmoWriter::new();
    let v = [any_vec3(), any_vec3()];
    let mut o = Sink::<40>::new();
    let r = w.write_vertices(&mut o, &v);
    assert!(r.is_ok());
    framed(&o, b"MOVT", 2, 12);
    let mut src = Src::<40>::new(o.buf, o.pos);
    src.pos = 20;
    let e = MovtEntry::read(&mut src).unwrap();
    assert!(v3eq(&v[1], e.x, e.y, e.z), "MOVT vertex moved");
    let mut o2 = Sink::<40>::new();
    let r2 = w.write_normals(&mut o2, &v);
    assert!(r2.is_ok());
    framed(&o2, b"MONR", 2, 12);
    assert!(u32_at(&o2, 8 + 12 + 8) == v[1].z.to_bits(), "MONR normal moved");
    let t = [TexCoord { u: kani::any(), v: kani::any() }, TexCoord { u: kani::any(), v: kani::any() }];
    let mut o3 = Sink::<40>::new();
    let r3 = w.write_texture_coords(&mut o3, &t);
    assert!(r3.is_ok());
    framed(&o3, b"MOTV", 2, 8);
    assert!(u32_at(&o3, 16) == t[1].u.to_bits() && u32_at(&o3, 20) == t[1].v.to_bits(), "MOTV coordinate moved");
    kani::cover!(o.pos == 32 && o3.pos == 24);
    std::mem::forget((r, r2, r3, e));
}
#[kani::proof]
#[kani::stub(std::fmt::format, vio::fmt_stub)]
#[kani::unwind(12)]
fn c15a_group_scalars_framing() {
    let w = WmoWriter::new();
    let idx: [u16; 3] = kani::any();
    let mut o = Sink::<24>::new();
    let r = w.write_indices(&mut o, &idx);
    assert!(r.is_ok());
    framed(&o, b"MOVI", 3, 2);
    assert!(u16_at(&o, 12) == idx[2], "MOVI index moved");
    let mut o2 = Sink::<24>::new();
    let r2 = w.write_doodad_refs(&mut o2, &idx);
    assert!(r2.is_ok());
    framed(&o2, b"MODR", 3, 2);
    assert!(u16_at(&o2, 10) == idx[1], "MODR reference moved");
    let c = [any_color(), any_color()];
    let mut o3 = Sink::<24>::new();
    let r3 = w.write_vertex_colors(&mut o3, &c);
    assert!(r3.is_ok());
    framed(&o3, b"MOCV", 2, 4);
    let mut src = Src::<24>::new(o3.buf, o3.pos);
    src.pos = 12;
    let e = MocvEntry::read(&mut src).unwrap();
    assert!(e.b == c[1].b && e.g == c[1].g && e.r == c[1].r && e.a == c[1].a, "MOCV colour is not BGRA");
    kani::cover!(o.pos == 14 && o3.pos == 16);
    std::mem::forget((r, r2, r3, e));
}
#[kani::proof]
#[kani::stub(std::fmt::format, vio::fmt_stub)]
#[kani::unwind(14)]
fn c15a_moba_framing_and_entry() {
    let b = [any_batch(), any_batch()];
    let mut out = Sink::<64>::new();
    let r = WmoWriter::new().write_batches(&mut out, &b);
    assert!(r.is_ok());
    kani::cover!(out.pos == 56);
    framed(&out, b"MOBA", 2, 24);
    let mut src = Src::<64>::new(out.buf, out.pos);
    src.pos = 8 + 24;
    let e = MobaEntry::read(&mut src).unwrap();
    let k = &b[1];
    assert!(e.start_index == k.start_index && e.count == k.count && e.min_index == k.start_vertex && e.max_index == k.end_vertex, "MOBA index/vertex range moved");
    assert!(e.material_id == k.material_id as u8 && (e.flags != 0) == k.use_large_material_id, "MOBA material id / flag moved");
    assert!(e.bounding_box_max[2] as u16 == k.material_id, "MOBA large material id is not in the last bounding-box slot");
    std::mem::forget((r, b, e));
}
#[kani::proof]
#[kani::stub(std::fmt::format, vio::fmt_stub)]
#[kani::unwind(12)]
fn c15a_mobn_framing() {
    let n = [any_bsp_node(), any_bsp_node()];
    let mut out = Sink::<48>::new();
    let r = WmoWriter::new().write_bsp_nodes(&mut out, &n);
    assert!(r.is_ok());
    kani::cover!(out.pos == 40);
    framed(&out, b"MOBN", 2, 16);
    std::mem::forget((r, n));
}

// ================================================================== C15.b root framing, C15.d group back-patch
/// C15.b: MOHD counts are the list lengths (not the stale header fields), all chunks framed and tiling the file
#[kani::proof]
#[kani::stub(std::fmt::format, common::fmt_stub_dd)]
#[kani::stub(std::hash::RandomState::new, common::rs_stub)]
#[kani::unwind(40)]
fn c15b_root_counts_and_tiling() {
    let v = WmoVersion::Mop;
    let mut root = populated_root(v);
    root.doodad_sets.push(WmoDoodadSet { name: String::new(), start_doodad: 0, n_doodads: 1 });
    root.doodad_sets.push(WmoDoodadSet { name: String::new(), start_doodad: 1, n_doodads: 0 });
    let mut out = Paged::<9>::new();
    let r = WmoWriter::new().write_root(&mut out, &root, v);
    assert!(r.is_ok());
    kani::cover!(out.len > 400);
    assert!(tiles(&out, 0, &[b"MVER", b"MOHD", b"MOMT", b"MOSB", b"MOPR", b"MOLT", b"MODS"]),
        "chunks of the written root do not tile the file in the expected order");
    assert!(size_at(&out, 0) == 4 && u32_at(&out, 8) == 17, "MVER is not 17");
    let h = 12 + 8;
    assert!(u32_at(&out, h) == 2, "MOHD nMaterials != materials.len()");
    assert!(u32_at(&out, h + 4) == 0, "MOHD nGroups != groups.len()");
    assert!(u32_at(&out, h + 8) == 0, "MOHD nPortals != portals.len()");
    assert!(u32_at(&out, h + 12) == 3, "MOHD nLights != lights.len()");
    assert!(u32_at(&out, h + 16) == 0 && u32_at(&out, h + 20) == 0, "MOHD nDoodadNames/nDoodadDefs != doodad_defs.len()");
    assert!(u32_at(&out, h + 24) == 2, "MOHD nDoodadSets != doodad_sets.len()");
    // the header counts agree with the record counts the chunk sizes imply
    assert!(size_at(&out, find(&out, 0, b"MOMT")) == 2 * 64 && size_at(&out, find(&out, 0, b"MOPR")) == 2 * 8 && size_at(&out, find(&out, 0, b"MOLT")) == 3 * 48
        && size_at(&out, find(&out, 0, b"MODS")) == 2 * 32,
        "a chunk's size is not count x record size for the count in MOHD");
    assert!(u32_at(&out, h + 0x20) & 0x20 != 0, "HAS_SKYBOX not set although a MOSB chunk is written");
    std::mem::forget((r, root));
}
/// small root for the quick tier: two portal references and one light; MOHD counts and tiling, every version up to MoP
#[kani::proof]
#[kani::stub(std::fmt::format, vio::fmt_stub)]
#[kani::stub(std::hash::RandomState::new, common::rs_stub)]
#[kani::unwind(40)]
fn c15b_root_small_counts_and_tiling() {
    let v = ver_classic_to_mop();
    let mut root = empty_root(v);
    root.portal_references.push(WmoPortalReference { portal_index: 0, group_index: 0, side: 1 });
    root.portal_references.push(WmoPortalReference { portal_index: 1, group_index: 0, side: 0 });
    root.lights.push(c_light());
    let mut out = Paged::<3>::new();
    let r = WmoWriter::new().write_root(&mut out, &root, v);
    assert!(r.is_ok());
    kani::cover!(out.len == 12 + 68 + 24 + 56);
    assert!(tiles(&out, 0, &[b"MVER", b"MOHD", b"MOPR", b"MOLT"]), "chunks of the written root do not tile the file in the expected order");
    let h = 20;
    assert!(u32_at(&out, h) == 0 && u32_at(&out, h + 4) == 0 && u32_at(&out, h + 8) == 0 && u32_at(&out, h + 12) == 1 && u32_at(&out, h + 16) == 0
        && u32_at(&out, h + 20) == 0 && u32_at(&out, h + 24) == 0, "MOHD counts != list lengths");
    assert!(size_at(&out, 80) == 2 * 8 && size_at(&out, 104) == 48, "a chunk's size is not count x record size");
    std::mem::forget((r, root));
}
/// same root below WotLK: no MOSB, HAS_SKYBOX clear; MOMT left out (known finding momt-size breaks the tiling below MoP)
#[kani::proof]
#[kani::stub(std::fmt::format, common::fmt_stub_dd)]
#[kani::stub(std::hash::RandomState::new, common::rs_stub)]
#[kani::unwind(40)]
fn c15b_root_tiling_classic() {
    let v = WmoVersion::Classic;
    let mut root = populated_root(v);
    root.materials = Vec::new(); // known finding momt-size
    let mut out = Paged::<6>::new();
    let r = WmoWriter::new().write_root(&mut out, &root, v);
    assert!(r.is_ok());
    kani::cover!(out.len > 200);
    assert!(tiles(&out, 0, &[b"MVER", b"MOHD", b"MOPR", b"MOLT"]), "chunks of the written root do not tile the file in the expected order (pre-WotLK)");
    assert!(u32_at(&out, 20) == 0 && u32_at(&out, 20 + 0x20) & 0x20 == 0, "MOHD material count / HAS_SKYBOX wrong for a pre-WotLK root without materials");
    std::mem::forget((r, root));
}

/// root with every list empty: MVER + MOHD only, counts all zero, both chunks framed; all versions
#[kani::proof]
#[kani::stub(std::fmt::format, vio::fmt_stub)]
#[kani::stub(std::hash::RandomState::new, common::rs_stub)]
#[kani::unwind(12)]
fn c15b_root_empty_all_versions() {
    let v = ver_any();
    let root = empty_root(v);
    let mut out = Sink::<96>::new();
    let r = WmoWriter::new().write_root(&mut out, &root, v);
    assert!(r.is_ok());
    kani::cover!(u32_at(&out, 8) == 17);
    kani::cover!(u32_at(&out, 8) == 23);
    assert!(tiles(&out, 0, &[b"MVER", b"MOHD"]), "MVER/MOHD do not tile an empty root");
    assert!(u32_at(&out, 8) == v.to_raw());
    let i: usize = kani::any();
    kani::assume(i < 7);
    assert!(u32_at(&out, 20 + 4 * i) == 0, "MOHD count of an empty list is not 0");
    // skybox flag is only ever set together with a MOSB chunk
    assert!(u32_at(&out, 20 + 0x20) & 0x20 == 0, "HAS_SKYBOX set in MOHD although no MOSB chunk is written");
    std::mem::forget((r, root));
}

fn group_1(liquid: Option<WmoLiquid>) -> WmoGroup {
    WmoGroup {
        header: WmoGroupHeader { flags: WmoGroupFlags::from_bits_truncate(kani::any()), bounding_box: any_bbox(), name_offset: kani::any(), group_index: kani::any() },
        materials: Vec::new(), vertices: vec![any_vec3()], normals: vec![any_vec3()], tex_coords: vec![TexCoord { u: kani::any(), v: kani::any() }],
        batches: vec![any_batch()], indices: vec![kani::any(), kani::any(), kani::any()], vertex_colors: Some(vec![any_color()]),
        bsp_nodes: Some(vec![any_bsp_node()]), liquid, doodad_refs: Some(vec![kani::any()]),
    }
}

/// C15.d: MOGP size is back-patched to the bytes that follow, sub-chunks tile the MOGP payload after the group header
#[kani::proof]
#[kani::stub(std::fmt::format, vio::fmt_stub)]
#[kani::unwind(14)]
fn c15d_group_backpatch() {
    let v = ver_classic_to_mop();
    let g = group_1(None);
    let mut out = Sink::<256>::new();
    let r = WmoWriter::new().write_group(&mut out, &g, v);
    assert!(r.is_ok());
    kani::cover!(out.pos > 150);
    assert!(id_at(&out, 0, b"MVER") && size_at(&out, 0) == 4 && u32_at(&out, 8) == 17);
    assert!(id_at(&out, 12, b"MOGP"), "MOGP does not follow MVER");
    assert!(size_at(&out, 12) + 20 == out.pos, "MOGP size != bytes that follow it");
    // known finding mogp-header: the group header written is 36 bytes (the format's, and WmoGroupHeader::SIZE, is 68);
    // the sub-chunks are looked for where this writer puts them
    let sub = find(&out, 20 + 36, b"MOVT");
    assert!(sub == 20 + 36 && tiles(&out, sub, &[b"MOVT", b"MOVI", b"MONR", b"MOTV", b"MOCV", b"MOBA", b"MOBN", b"MODR"]),
        "sub-chunks do not tile the MOGP payload");
    std::mem::forget((r, g));
}
/// empty group: MOGP declares just its header
#[kani::proof]
#[kani::stub(std::fmt::format, vio::fmt_stub)]
#[kani::unwind(14)]
fn c15d_group_backpatch_empty() {
    let mut g = group_1(None);
    g.vertices = Vec::new(); g.normals = Vec::new(); g.tex_coords = Vec::new(); g.batches = Vec::new(); g.indices = Vec::new();
    g.vertex_colors = Some(Vec::new()); g.bsp_nodes = None; g.doodad_refs = None;
    let mut out = Sink::<96>::new();
    let r = WmoWriter::new().write_group(&mut out, &g, ver_any());
    assert!(r.is_ok());
    kani::cover!(out.pos == 56);
    assert!(size_at(&out, 12) + 20 == out.pos, "MOGP size != bytes that follow it (empty group)");
    std::mem::forget((r, g));
}

/// witness of known finding mogp-header: group header written != WmoGroupHeader::SIZE, so the crate's MogpHeader reader
/// swallows the first sub-chunk
#[kani::proof]
#[kani::stub(std::fmt::format, vio::fmt_stub)]
#[kani::unwind(14)]
fn c15d_group_header_size_witness() {
    let g = WmoGroup {
        header: WmoGroupHeader { flags: WmoGroupFlags::empty(), bounding_box: BoundingBox { min: Vec3::default(), max: Vec3::default() }, name_offset: 0, group_index: 0 },
        materials: Vec::new(), vertices: vec![Vec3 { x: 1.0, y: 2.0, z: 3.0 }], normals: Vec::new(), tex_coords: Vec::new(), batches: Vec::new(),
        indices: Vec::new(), vertex_colors: None, bsp_nodes: None, liquid: None, doodad_refs: None,
    };
    let mut out = Sink::<96>::new();
    let r = WmoWriter::new().write_group(&mut out, &g, WmoVersion::Classic);
    assert!(r.is_ok());
    let sub = find(&out, 20 + 36, b"MOVT");
    assert!(sub == 20 + WmoGroupHeader::SIZE, "[mogp-header] MOGP: group header written is not the 68 bytes of the format (WmoGroupHeader::SIZE); first sub-chunk misplaced");
    std::mem::forget((r, g));
}

/// witness of known finding mliq-size: MLIQ declares a 32-byte header but writes 40 bytes of header
#[kani::proof]
#[kani::stub(std::fmt::format, vio::fmt_stub)]
#[kani::unwind(14)]
fn c15a_mliq_framing_witness() {
    let l = WmoLiquid { liquid_type: 1, flags: 0, width: 1, height: 1,
        vertices: vec![WmoLiquidVertex { position: Vec3 { x: 0.0, y: 0.0, z: 0.0 }, height: 1.0 }], tile_flags: None };
    let mut out = Sink::<64>::new();
    let r = WmoWriter::new().write_liquid(&mut out, &l, WmoVersion::Classic);
    assert!(r.is_ok());
    assert!(size_at(&out, 0) + 8 == out.pos, "[mliq-size] MLIQ: declared chunk size != bytes written");
    std::mem::forget((r, l));
}

/// witness of known finding mobn-layout: a BSP node written by write_bsp_nodes read by the crate's MobnEntry
#[kani::proof]
#[kani::stub(std::fmt::format, vio::fmt_stub)]
#[kani::unwind(14)]
fn c15a_mobn_vs_entry_witness() {
    let n = [WmoBspNode { plane: WmoPlane { normal: Vec3 { x: 0.0, y: 0.0, z: 1.0 }, distance: 5.0 }, children: [7, 9], first_face: 3, num_faces: 2 }];
    let mut out = Sink::<32>::new();
    let r = WmoWriter::new().write_bsp_nodes(&mut out, &n);
    assert!(r.is_ok());
    let mut src = Src::<32>::new(out.buf, out.pos);
    src.pos = 8;
    let e = MobnEntry::read(&mut src).unwrap();
    assert!(e.neg_child == 7 && e.pos_child == 9 && e.n_faces == 2 && e.face_start == 3 && e.plane_distance == 5.0 && e.flags == 2,
        "[mobn-layout] MOBN: node written by write_bsp_nodes is not read back by MobnEntry (children/faces/distance at other offsets)");
    std::mem::forget((r, n, e));
}

/// witness of known finding mogi-nameoff: the name offset written into MOGI is always 0
#[kani::proof]
#[kani::stub(std::fmt::format, vio::fmt_stub)]
#[kani::unwind(14)]
fn c15c_mogi_name_offset_witness() {
    let z = BoundingBox { min: Vec3::default(), max: Vec3::default() };
    let g = [WmoGroupInfo { flags: WmoGroupFlags::empty(), bounding_box: z, name: String::from("ab") },
        WmoGroupInfo { flags: WmoGroupFlags::empty(), bounding_box: z, name: String::from("cd") }];
    let mut names = Sink::<24>::new();
    let mut info = Sink::<80>::new();
    let w = WmoWriter::new();
    assert!(w.write_group_names(&mut names, &g).is_ok() && w.write_group_info(&mut info, &g, WmoVersion::Classic).is_ok());
    // second group's MOGI name offset must address "cd" inside MOGN (offset 3)
    let off = u32_at(&info, 8 + 32 + 28) as usize;
    assert!(names.buf[8 + off] == b'c', "[mogi-nameoff] MOGI: name offset of the second group does not address its name in MOGN");
    std::mem::forget(g);
}

/// witness of known finding group-parser-stub: the only parser that returns the type write_group takes is a stub
#[kani::proof]
#[kani::stub(std::fmt::format, vio::fmt_stub)]
#[kani::unwind(14)]
fn c15d_group_legacy_parser_witness() {
    let g = WmoGroup {
        header: WmoGroupHeader { flags: WmoGroupFlags::empty(), bounding_box: BoundingBox { min: Vec3::default(), max: Vec3::default() }, name_offset: 0, group_index: 0 },
        materials: Vec::new(), vertices: vec![Vec3 { x: 1.0, y: 2.0, z: 3.0 }], normals: Vec::new(), tex_coords: Vec::new(), batches: Vec::new(),
        indices: Vec::new(), vertex_colors: None, bsp_nodes: None, liquid: None, doodad_refs: None,
    };
    let mut out = Sink::<96>::new();
    let r = WmoWriter::new().write_group(&mut out, &g, WmoVersion::Classic);
    assert!(r.is_ok());
    let mut src = Src::<96>::new(out.buf, out.pos);
    let p = crate::group_parser::WmoGroupParser::new().parse_group(&mut src, 0);
    let ok = p.is_ok();
    std::mem::forget((r, g, p));
    assert!(ok, "[group-parser-stub] group written by write_group is rejected by WmoGroupParser::parse_group");
}

/// HAS_SKYBOX in MOHD <=> a MOSB chunk is written, for every version
#[kani::proof]
#[kani::stub(std::fmt::format, vio::fmt_stub)]
#[kani::stub(std::hash::RandomState::new, common::rs_stub)]
#[kani::unwind(12)]
fn c15b_skybox_flag_iff_chunk() {
    let v = ver_any();
    let mut root = empty_root(v);
    if kani::any() { root.skybox = Some(String::from("s")); }
    let mut out = Sink::<96>::new();
    let r = WmoWriter::new().write_root(&mut out, &root, v);
    assert!(r.is_ok());
    let has_chunk = out.pos > 80;
    kani::cover!(has_chunk);
    kani::cover!(!has_chunk && root.skybox.is_some());
    if has_chunk { assert!(out.pos == 90 && id_at(&out, 80, b"MOSB") && size_at(&out, 80) == 2, "chunk after MOHD is not a framed MOSB"); }
    assert!((u32_at(&out, 20 + 0x20) & 0x20 != 0) == has_chunk, "HAS_SKYBOX in MOHD does not agree with the presence of MOSB");
    assert!(has_chunk == (root.skybox.is_some() && v >= WmoVersion::Wotlk), "MOSB written for a version without skyboxes, or dropped for one with");
    std::mem::forget((r, root));
}

/// witness of known finding mohd-size: MOHD is written with 60 bytes; the format and the crate's root_parser::Mohd have 64
#[kani::proof]
#[kani::stub(std::fmt::format, vio::fmt_stub)]
#[kani::stub(std::hash::RandomState::new, common::rs_stub)]
#[kani::unwind(12)]
fn c15b_mohd_size_witness() {
    let mut root = empty_root(WmoVersion::Classic);
    root.header = WmoHeader { n_materials: 0, n_groups: 0, n_portals: 0, n_lights: 0, n_doodad_names: 0, n_doodad_defs: 0, n_doodad_sets: 0,
        flags: WmoFlags::OUTDOOR, ambient_color: Color { r: 1, g: 2, b: 3, a: 4 } };
    root.bounding_box = BoundingBox { min: Vec3::default(), max: Vec3 { x: 1.0, y: 1.0, z: 1.0 } };
    let mut out = Sink::<72>::new();
    let r = WmoWriter::new().write_header(&mut out, &root, WmoVersion::Classic);
    assert!(r.is_ok());
    let sz = size_at(&out, 0);
    std::mem::forget((r, root));
    assert!(sz == 64, "[mohd-size] MOHD: 60 bytes written, the format and root_parser::Mohd have 64 (flags/num_lod at 0x3C missing, flags written where wmo_id is)");
}

#[kani::proof]
#[kani::stub(std::fmt::format, vio::fmt_stub)]
#[kani::unwind(12)]
fn c15_writer_canary() {
    let idx: [u16; 2] = kani::any();
    let mut o = Sink::<24>::new();
    let r = WmoWriter::new().write_indices(&mut o, &idx);
    std::mem::forget(r);
    assert!(u16_at(&o, 8) != 0x1234, "canary: must be reported as failing");
}
