// C15 (version conversion preserves all content representable in both versions).  Child module of
// wow-wmo/src/converter.rs.
#![allow(unused_imports, dead_code)]
#[path = "../env/io.rs"]
mod vio;
use vio::{CountSink, Sink, Src};
#[path = "common.rs"]
mod common;
use common::*;

use super::*;
use crate::types::{BoundingBox, Color, Vec3};
use crate::wmo_group_types::{TexCoord, WmoGroupHeader, WmoLiquidVertex};
use crate::wmo_types::{WmoGroupInfo, WmoPortalReference};

/// convert_root for every (from, to) pair: succeeds, sets the version, keeps every list and every field except
/// the bits that do not exist in the target version (material shadow-batch bits below MoP, skybox below WotLK)
#[kani::proof]
#[kani::stub(tracing::callsite::DefaultCallsite::interest, common::tr_interest)]
#[kani::stub(tracing::__macro_support::__is_enabled, common::tr_is_enabled)]
#[kani::stub(tracing::Event::dispatch, common::tr_dispatch)]
#[kani::stub(std::fmt::format, vio::fmt_stub)]
#[kani::stub(std::hash::RandomState::new, common::rs_stub)]
#[kani::unwind(8)]
fn c15e_convert_root_preserves_content() {
    let from = ver_any();
    let to = ver_any();
    let mut root = empty_root(from);
    root.materials.push(any_material());
    root.portal_references.push(WmoPortalReference { portal_index: kani::any(), group_index: kani::any(), side: kani::any() });
    root.lights.push(any_light());
    root.doodad_defs.push(any_doodad());
    // well-formed input: a skybox only exists from WotLK on, and HAS_SKYBOX is set exactly when there is one
    let has_sky: bool = kani::any::<bool>() && from >= WmoVersion::Wotlk;
    if has_sky {
        root.skybox = Some(String::from("s"));
        root.header.flags |= WmoFlags::HAS_SKYBOX;
    } else {
        root.header.flags &= !WmoFlags::HAS_SKYBOX;
    }
    let m0 = root.materials[0].clone();
    let h0 = root.header.clone();
    let l0 = root.lights[0].clone();
    let d0 = root.doodad_defs[0].clone();
    let bb0 = root.bounding_box;
    let r = WmoConverter::new().convert_root(&mut root, to);
    assert!(r.is_ok(), "conversion between two supported versions fails");
    kani::cover!(from == WmoVersion::Mop && to == WmoVersion::Classic);
    kani::cover!(from == WmoVersion::Cataclysm && to == WmoVersion::Tbc && has_sky);
    assert!(root.version == to, "convert_root does not set the target version");
    assert!(root.materials.len() == 1 && root.portal_references.len() == 1 && root.lights.len() == 1 && root.doodad_defs.len() == 1
        && root.groups.len() == 0 && root.textures.len() == 0, "conversion changed the length of a list");
    let m = &root.materials[0];
    let sb = WmoMaterialFlags::SHADOW_BATCH_1 | WmoMaterialFlags::SHADOW_BATCH_2;
    assert!((m.flags ^ m0.flags) & !sb == WmoMaterialFlags::empty(), "conversion changed a material flag that exists in every version");
    if to >= from || to >= WmoVersion::Mop {
        assert!(m.flags == m0.flags, "upgrade (or conversion at/above MoP) changed material flags");
    }
    assert!(m.shader == m0.shader && m.blend_mode == m0.blend_mode && m.texture1 == m0.texture1 && m.texture2 == m0.texture2 && m.ground_type == m0.ground_type
        && m.diffuse_color == m0.diffuse_color && m.emissive_color == m0.emissive_color && m.sidn_color == m0.sidn_color, "conversion changed material content");
    assert!((root.header.flags ^ h0.flags) & !WmoFlags::HAS_SKYBOX == WmoFlags::empty(), "conversion changed a header flag other than HAS_SKYBOX");
    assert!(root.header.ambient_color == h0.ambient_color, "conversion changed the ambient colour");
    if to >= WmoVersion::Wotlk {
        assert!(root.skybox.is_some() == has_sky, "conversion to a version with skybox support dropped (or invented) the skybox");
    } else {
        assert!(root.skybox.is_none() && !root.header.flags.contains(WmoFlags::HAS_SKYBOX), "skybox survives conversion to a version without skybox support");
    }
    assert!(root.lights[0].intensity.to_bits() == l0.intensity.to_bits() && root.lights[0].light_type == l0.light_type && root.lights[0].color == l0.color,
        "conversion changed a light");
    assert!(root.doodad_defs[0].name_offset == d0.name_offset && root.doodad_defs[0].scale.to_bits() == d0.scale.to_bits(), "conversion changed a doodad");
    assert!(root.bounding_box.min.x.to_bits() == bb0.min.x.to_bits() && root.bounding_box.max.z.to_bits() == bb0.max.z.to_bits(), "conversion changed the bounding box");
    std::mem::forget((r, root, m0, h0, l0, d0));
}

/// convert_group for every (current, target) pair: geometry untouched, only version-specific flag bits may be cleared,
/// liquid grid untouched
#[kani::proof]
#[kani::stub(tracing::callsite::DefaultCallsite::interest, common::tr_interest)]
#[kani::stub(tracing::__macro_support::__is_enabled, common::tr_is_enabled)]
#[kani::stub(tracing::Event::dispatch, common::tr_dispatch)]
#[kani::stub(std::fmt::format, vio::fmt_stub)]
#[kani::unwind(8)]
fn c15e_convert_group_preserves_content() {
    let cur = ver_any();
    let to = ver_any();
    let f0 = WmoGroupFlags::from_bits_truncate(kani::any());
    let lf0: u32 = kani::any();
    let mut g = WmoGroup {
        header: WmoGroupHeader { flags: f0, bounding_box: any_bbox(), name_offset: kani::any(), group_index: kani::any() },
        materials: Vec::new(), vertices: vec![any_vec3()], normals: vec![any_vec3()], tex_coords: vec![TexCoord { u: kani::any(), v: kani::any() }],
        batches: vec![any_batch()], indices: vec![kani::any(), kani::any(), kani::any()], vertex_colors: Some(vec![any_color()]),
        bsp_nodes: Some(vec![any_bsp_node()]),
        liquid: Some(WmoLiquid { liquid_type: kani::any(), flags: lf0, width: 1, height: 1,
            vertices: vec![WmoLiquidVertex { position: any_vec3(), height: kani::any() }], tile_flags: None }),
        doodad_refs: Some(vec![kani::any()]),
    };
    let v0 = g.vertices[0];
    let i0 = g.indices[1];
    let b0 = g.batches[0].clone();
    let lh0 = g.liquid.as_ref().unwrap().vertices[0].height;
    let r = WmoConverter::new().convert_group(&mut g, to, cur);
    assert!(r.is_ok(), "group conversion between two supported versions fails");
    kani::cover!(cur == WmoVersion::Legion && to == WmoVersion::Classic);
    kani::cover!(cur == WmoVersion::Classic && to == WmoVersion::Wod);
    let newer = WmoGroupFlags::HAS_MORE_MOTION_TYPES | WmoGroupFlags::USE_SCENE_GRAPH | WmoGroupFlags::EXTERIOR_BSP | WmoGroupFlags::MOUNT_ALLOWED;
    assert!((g.header.flags ^ f0) & !newer == WmoGroupFlags::empty(), "conversion changed a group flag that exists in every version");
    if to >= WmoVersion::Legion { assert!(g.header.flags == f0, "conversion to Legion or later changed group flags"); }
    // the three motion / scene-graph / exterior-BSP flags exist from Cataclysm on (wmo_group_types.rs docs):
    // converting to Cataclysm or later keeps them
    let cata = WmoGroupFlags::HAS_MORE_MOTION_TYPES | WmoGroupFlags::USE_SCENE_GRAPH | WmoGroupFlags::EXTERIOR_BSP;
    if to >= WmoVersion::Cataclysm {
        assert!((g.header.flags ^ f0) & cata == WmoGroupFlags::empty(), "conversion to Cataclysm or later dropped a group flag that exists in the target version");
    }
    assert!(g.vertices.len() == 1 && g.normals.len() == 1 && g.tex_coords.len() == 1 && g.batches.len() == 1 && g.indices.len() == 3
        && g.vertex_colors.as_ref().unwrap().len() == 1 && g.bsp_nodes.as_ref().unwrap().len() == 1 && g.doodad_refs.as_ref().unwrap().len() == 1,
        "group conversion changed the length of a list");
    assert!(v3eq(&g.vertices[0], v0.x, v0.y, v0.z) && g.indices[1] == i0 && g.batches[0].start_index == b0.start_index && g.batches[0].material_id == b0.material_id,
        "group conversion changed geometry");
    let l = g.liquid.as_ref().unwrap();
    assert!(l.width == 1 && l.height == 1 && l.vertices.len() == 1 && l.vertices[0].height.to_bits() == lh0.to_bits(), "group conversion changed the liquid grid");
    assert!((l.flags ^ lf0) & !0x2 == 0, "group conversion changed liquid flags other than the format bit");
    std::mem::forget((r, g, b0));
}

#[kani::proof]
#[kani::stub(tracing::callsite::DefaultCallsite::interest, common::tr_interest)]
#[kani::stub(tracing::__macro_support::__is_enabled, common::tr_is_enabled)]
#[kani::stub(tracing::Event::dispatch, common::tr_dispatch)]
#[kani::stub(std::fmt::format, vio::fmt_stub)]
#[kani::stub(std::hash::RandomState::new, common::rs_stub)]
#[kani::unwind(8)]
fn c15_converter_canary() {
    let mut root = empty_root(WmoVersion::Mop);
    root.materials.push(any_material());
    let f0 = root.materials[0].flags;
    let r = WmoConverter::new().convert_root(&mut root, WmoVersion::Classic);
    let same = root.materials[0].flags == f0;
    std::mem::forget((r, root));
    assert!(same, "canary: must be reported as failing");
}
