// shared by the C15 harness modules: generators (concrete shape, symbolic content) and reference readers of the
// chunk container written from the published format.  Included with `#[path = "common.rs"] mod common;`.
#![allow(unused_imports, dead_code)]
use super::vio::{Sink, Src};
use crate::types::{BoundingBox, Color, Vec3};
use crate::version::WmoVersion;
use crate::wmo_group_types::{TexCoord, WmoBatch, WmoBspNode, WmoGroup, WmoGroupFlags, WmoGroupHeader, WmoLiquid, WmoLiquidVertex, WmoPlane};
use crate::wmo_types::{WmoDoodadDef, WmoDoodadSet, WmoFlags, WmoGroupInfo, WmoHeader, WmoLight, WmoLightProperties, WmoLightType, WmoMaterial,
    WmoMaterialFlags, WmoPortal, WmoPortalReference, WmoRoot};

pub fn rs_stub() -> std::hash::RandomState {
    unsafe { std::mem::transmute::<[u64; 2], std::hash::RandomState>([1, 2]) }
}
// tracing: no subscriber is installed in a harness, so every event is disabled (tracing-core's MAX_LEVEL starts at OFF and the
// macros test it first).  These stubs only cut the never-executed dispatch machinery out of the static call graph
// (Kani 0.68's compiler panics on an intrinsic inside it).
pub fn tr_interest(_c: &'static tracing::callsite::DefaultCallsite) -> tracing::subscriber::Interest { tracing::subscriber::Interest::never() }
pub fn tr_is_enabled(_m: &tracing::Metadata<'static>, _i: tracing::subscriber::Interest) -> bool { false }
pub fn tr_dispatch<'a>(_m: &'static tracing::Metadata<'static>, _f: &'a tracing::field::ValueSet<'a>) where 'a: 'a {}

// ---- chunk table.  hashbrown's SIMD probing costs > 10 minutes per insert/lookup under CBMC (measured: one insert + two
// lookups on HashMap<ChunkId, Chunk> did not finish in 12 minutes).  For the checks, the chunk-table type of parser.rs
// (`HashMap<ChunkId, Chunk>`, private to that file) is replaced in the scratch copy by this association list with the same
// new/insert/get/len contract (see "rewrite" in cat_C15.py); the bodies of the parse_* functions are untouched.
pub struct VMap<K, V> {
    // inline storage: values read back through `get` stay visible to CBMC's constant propagation (heap cells are not)
    pub items: [Option<(K, V)>; 24],
    pub n: usize,
}
impl<K: PartialEq, V> VMap<K, V> {
    pub fn new() -> Self {
        VMap { items: [None, None, None, None, None, None, None, None, None, None, None, None, None, None, None, None, None, None, None, None, None, None,
            None, None], n: 0 }
    }
    pub fn len(&self) -> usize { self.n }
    pub fn insert(&mut self, k: K, v: V) -> Option<V> {
        let mut i = 0;
        while i < self.n {
            if let Some((kk, vv)) = &mut self.items[i] {
                if *kk == k {
                    return Some(std::mem::replace(vv, v));
                }
            }
            i += 1;
        }
        self.items[self.n] = Some((k, v));
        self.n += 1;
        None
    }
    pub fn get(&self, k: &K) -> Option<&V> {
        let mut i = 0;
        while i < self.n {
            if let Some((kk, vv)) = &self.items[i] {
                if *kk == *k {
                    return Some(vv);
                }
            }
            i += 1;
        }
        None
    }
}

/// `format!` abstraction for the doodad-name table: some non-empty name of 2 bytes
pub fn fmt_stub_dd(_a: std::fmt::Arguments<'_>) -> String { String::from("dd") }

// ------------------------------------------------------------------ generators (concrete shape, symbolic content)
pub fn any_color() -> Color { Color { r: kani::any(), g: kani::any(), b: kani::any(), a: kani::any() } }
pub fn any_vec3() -> Vec3 { Vec3 { x: kani::any(), y: kani::any(), z: kani::any() } }
pub fn any_bbox() -> BoundingBox { BoundingBox { min: any_vec3(), max: any_vec3() } }
pub fn v3eq(a: &Vec3, x: f32, y: f32, z: f32) -> bool {
    a.x.to_bits() == x.to_bits() && a.y.to_bits() == y.to_bits() && a.z.to_bits() == z.to_bits()
}
pub fn ver_classic_to_mop() -> WmoVersion {
    let v: u8 = kani::any();
    kani::assume(v < 5);
    match v { 0 => WmoVersion::Classic, 1 => WmoVersion::Tbc, 2 => WmoVersion::Wotlk, 3 => WmoVersion::Cataclysm, _ => WmoVersion::Mop }
}
pub fn ver_any() -> WmoVersion {
    let v: u8 = kani::any();
    kani::assume(v < 11);
    match v {
        0 => WmoVersion::Classic, 1 => WmoVersion::Tbc, 2 => WmoVersion::Wotlk, 3 => WmoVersion::Cataclysm, 4 => WmoVersion::Mop,
        5 => WmoVersion::Wod, 6 => WmoVersion::Legion, 7 => WmoVersion::Bfa, 8 => WmoVersion::Shadowlands, 9 => WmoVersion::Dragonflight,
        _ => WmoVersion::WarWithin,
    }
}
pub fn any_material() -> WmoMaterial {
    WmoMaterial {
        flags: WmoMaterialFlags::from_bits_truncate(kani::any()), shader: kani::any(), blend_mode: kani::any(), texture1: kani::any(),
        emissive_color: any_color(), sidn_color: any_color(), framebuffer_blend: Color::default(), texture2: kani::any(),
        diffuse_color: any_color(), ground_type: kani::any(),
    }
}
pub fn any_group_info(name: String) -> WmoGroupInfo {
    WmoGroupInfo { flags: WmoGroupFlags::from_bits_truncate(kani::any()), bounding_box: any_bbox(), name }
}
pub fn any_light() -> WmoLight {
    let t: u8 = kani::any();
    kani::assume(t < 4);
    let light_type = match t { 0 => WmoLightType::Omni, 1 => WmoLightType::Spot, 2 => WmoLightType::Directional, _ => WmoLightType::Ambient };
    WmoLight {
        light_type, position: any_vec3(), color: any_color(), intensity: kani::any(),
        rotation: [kani::any(), kani::any(), kani::any(), kani::any()], attenuation_start: kani::any(), attenuation_end: kani::any(),
        use_attenuation: kani::any(), properties: WmoLightProperties::Omni,
    }
}
pub fn any_doodad() -> WmoDoodadDef {
    WmoDoodadDef { name_offset: kani::any(), position: any_vec3(), orientation: [kani::any(), kani::any(), kani::any(), kani::any()],
        scale: kani::any(), color: any_color(), set_index: 0 }
}
pub fn ascii<const K: usize>() -> [u8; K] {
    let a: [u8; K] = kani::any();
    let mut i = 0;
    while i < K { kani::assume(a[i] != 0 && a[i] < 0x80); i += 1; }
    a
}
pub fn string_of<const K: usize>(a: &[u8; K]) -> String {
    let mut v = Vec::with_capacity(K);
    let mut i = 0;
    while i < K { v.push(a[i]); i += 1; }
    unsafe { String::from_utf8_unchecked(v) }
}
pub fn any_batch() -> WmoBatch {
    WmoBatch { flags: kani::any(), material_id: kani::any(), start_index: kani::any(), count: kani::any(), start_vertex: kani::any(),
        end_vertex: kani::any(), use_large_material_id: kani::any() }
}
pub fn any_bsp_node() -> WmoBspNode {
    WmoBspNode { plane: WmoPlane { normal: any_vec3(), distance: kani::any() }, children: [kani::any(), kani::any()],
        first_face: kani::any(), num_faces: kani::any() }
}

// ------------------------------------------------------------------ paged buffer for whole files
/// Read + Write + Seek buffer stored as 64-byte pages and copied byte by byte: CBMC keeps arrays of <= 64 cells field by field, so
/// concrete bytes written here stay constants for the symbolic execution (a flat `[u8; 700]` filled through memcpy does not -
/// the chunk walk over it then becomes symbolic and does not finish).
pub struct Paged<const P: usize> {
    pub pages: [[u8; 64]; P],
    pub pos: usize,
    pub len: usize,
}
impl<const P: usize> Paged<P> {
    pub fn new() -> Self { Paged { pages: [[0u8; 64]; P], pos: 0, len: 0 } }
}
impl<const P: usize> std::io::Write for Paged<P> {
    fn write(&mut self, b: &[u8]) -> std::io::Result<usize> {
        if b.len() > P * 64 - self.pos { return Err(std::io::Error::from(std::io::ErrorKind::WriteZero)); }
        let mut k = 0;
        while k < b.len() {
            let i = self.pos + k;
            self.pages[i / 64][i % 64] = b[k];
            k += 1;
        }
        self.pos += b.len();
        if self.pos > self.len { self.len = self.pos; }
        Ok(b.len())
    }
    fn write_all(&mut self, b: &[u8]) -> std::io::Result<()> { self.write(b).map(|_| ()) }
    fn flush(&mut self) -> std::io::Result<()> { Ok(()) }
}
impl<const P: usize> std::io::Read for Paged<P> {
    fn read(&mut self, out: &mut [u8]) -> std::io::Result<usize> {
        let avail = if self.pos < self.len { self.len - self.pos } else { 0 };
        let n = if out.len() < avail { out.len() } else { avail };
        let mut k = 0;
        while k < n {
            let i = self.pos + k;
            out[k] = self.pages[i / 64][i % 64];
            k += 1;
        }
        self.pos += n;
        Ok(n)
    }
    fn read_exact(&mut self, out: &mut [u8]) -> std::io::Result<()> {
        let avail = if self.pos < self.len { self.len - self.pos } else { 0 };
        if out.len() > avail {
            self.pos = self.len;
            return Err(std::io::Error::from(std::io::ErrorKind::UnexpectedEof));
        }
        self.read(out).map(|_| ())
    }
}
impl<const P: usize> std::io::Seek for Paged<P> {
    fn seek(&mut self, s: std::io::SeekFrom) -> std::io::Result<u64> {
        let np: i128 = match s {
            std::io::SeekFrom::Start(o) => o as i128,
            std::io::SeekFrom::Current(d) => self.pos as i128 + d as i128,
            std::io::SeekFrom::End(d) => self.len as i128 + d as i128,
        };
        if np < 0 { return Err(std::io::Error::from(std::io::ErrorKind::InvalidInput)); }
        self.pos = if np > usize::MAX as i128 { usize::MAX } else { np as usize };
        Ok(np as u64)
    }
}

// ------------------------------------------------------------------ reference readers of the container format
pub trait Bytes {
    fn at(&self, i: usize) -> u8;
    /// number of bytes written
    fn end(&self) -> usize;
}
impl<const N: usize> Bytes for Sink<N> {
    fn at(&self, i: usize) -> u8 { self.buf[i] }
    fn end(&self) -> usize { self.pos }
}
impl<const P: usize> Bytes for Paged<P> {
    fn at(&self, i: usize) -> u8 { self.pages[i / 64][i % 64] }
    fn end(&self) -> usize { self.len }
}
pub fn id_at<B: Bytes>(s: &B, p: usize, id: &[u8; 4]) -> bool {
    // chunk ids are stored byte-reversed ("MVER" is 'R','E','V','M' on disk)
    s.at(p) == id[3] && s.at(p + 1) == id[2] && s.at(p + 2) == id[1] && s.at(p + 3) == id[0]
}
pub fn u32_at<B: Bytes>(s: &B, p: usize) -> u32 { u32::from_le_bytes([s.at(p), s.at(p + 1), s.at(p + 2), s.at(p + 3)]) }
pub fn u16_at<B: Bytes>(s: &B, p: usize) -> u16 { u16::from_le_bytes([s.at(p), s.at(p + 1)]) }
pub fn size_at<B: Bytes>(s: &B, p: usize) -> usize { u32_at(s, p + 4) as usize }

/// one chunk, alone in the sink: id, declared size == payload written, payload == n records of the documented size
pub fn framed<B: Bytes>(out: &B, id: &[u8; 4], records: usize, record_size: usize) {
    assert!(out.end() >= 8 && id_at(out, 0, id), "chunk id is not the one of the list being written");
    assert!(size_at(out, 0) + 8 == out.end(), "declared chunk size != bytes written");
    assert!(out.end() == 8 + records * record_size, "chunk payload != count x documented record size");
}
/// reference chunk walker: the chunks named in `ids` tile [from, end) exactly, in this order
pub fn tiles<B: Bytes>(out: &B, from: usize, ids: &[&[u8; 4]]) -> bool {
    let mut p = from;
    let mut k = 0;
    while k < ids.len() {
        if p + 8 > out.end() || !id_at(out, p, ids[k]) { return false; }
        let sz = size_at(out, p);
        if sz > out.end() - p - 8 { return false; }
        p += 8 + sz;
        k += 1;
    }
    p == out.end()
}
/// start of the chunk `id` in a tiled sequence beginning at `from` (usize::MAX if absent)
pub fn find<B: Bytes>(out: &B, from: usize, id: &[u8; 4]) -> usize {
    let mut p = from;
    while p + 8 <= out.end() {
        if id_at(out, p, id) { return p; }
        p += 8 + size_at(out, p);
    }
    usize::MAX
}

pub fn empty_root(version: WmoVersion) -> WmoRoot {
    WmoRoot {
        version, materials: Vec::new(), groups: Vec::new(), portals: Vec::new(), portal_references: Vec::new(), visible_block_lists: Vec::new(),
        lights: Vec::new(), doodad_defs: Vec::new(), doodad_sets: Vec::new(), bounding_box: any_bbox(), textures: Vec::new(),
        texture_offset_index_map: std::collections::HashMap::new(),
        header: WmoHeader { n_materials: kani::any(), n_groups: kani::any(), n_portals: kani::any(), n_lights: kani::any(), n_doodad_names: kani::any(),
            n_doodad_defs: kani::any(), n_doodad_sets: kani::any(), flags: WmoFlags::from_bits_truncate(kani::any()), ambient_color: any_color() },
        skybox: None, convex_volume_planes: None,
    }
}

// ------------------------------------------------------------------ concrete fixtures
pub fn c_material() -> WmoMaterial {
    WmoMaterial { flags: WmoMaterialFlags::UNLIT, shader: 1, blend_mode: 2, texture1: 0, emissive_color: Color::default(), sidn_color: Color::default(),
        framebuffer_blend: Color::default(), texture2: 4, diffuse_color: Color { r: 1, g: 2, b: 3, a: 4 }, ground_type: 5 }
}
pub fn c_light() -> WmoLight {
    WmoLight { light_type: WmoLightType::Spot, position: Vec3 { x: 1.0, y: 2.0, z: 3.0 }, color: Color { r: 1, g: 2, b: 3, a: 4 }, intensity: 0.5,
        rotation: [0.0, 0.0, 0.0, 1.0], attenuation_start: 1.0, attenuation_end: 2.0, use_attenuation: true, properties: WmoLightProperties::Omni }
}
/// a root with every fixed-record list populated (list lengths 1..3, all different where the header has a count) and a skybox.
/// Contents are concrete.  Lists whose chunk size depends on data stored inside list elements (names, portal vertices, visible
/// lists, the synthesised doodad names) are left empty: element data lives on the heap, CBMC does not propagate constants through it, and the file layout
/// would become symbolic.  Those chunks are covered one by one with stack-allocated inputs.
pub fn populated_root(v: WmoVersion) -> WmoRoot {
    let mut root = empty_root(v);
    root.materials.push(c_material());
    root.materials.push(c_material());
    root.portal_references.push(WmoPortalReference { portal_index: 0, group_index: 0, side: 1 });
    root.portal_references.push(WmoPortalReference { portal_index: 0, group_index: 0, side: 0 });
    root.lights.push(c_light());
    root.lights.push(c_light());
    root.lights.push(c_light());
    root.skybox = Some(String::from("sky"));
    root
}
