// C15 (WMO write -> parse), parser side.  Child module of wow-wmo/src/parser.rs: sees the private
// `WmoParser::parse_*` chunk parsers.  Each harness writes one list with the real chunk writer, hands the bytes to the real
// private parser through a chunk table with concrete keys, positions and sizes (checked against the written bytes by the
// reference readers) and compares what comes back with what was written.
//
// Buffers are kept at <= 64 bytes wherever the chunk fits: CBMC treats arrays up to 64 cells field by field; beyond that
// every byte written is an array update in the formula (measured: the same round trip through a 160-byte root file needs
// > 8 GB and minutes, through a 64-byte buffer seconds).
#![allow(unused_imports, dead_code)]
#[path = "../env/io.rs"]
mod vio;
use vio::{CountSink, Sink, Src};
#[path = "common.rs"]
pub(crate) mod common;
use common::*;

use super::*;
use crate::writer::WmoWriter;

fn lossy_stub(v: &[u8]) -> std::borrow::Cow<'_, str> {
    // inputs are ASCII in these harnesses: from_utf8_lossy is the identity on them
    std::borrow::Cow::Borrowed(unsafe { std::str::from_utf8_unchecked(v) })
}

/// chunk-table entry as `read_chunks` would produce it.  Position and size are given as literals (control values must not be
/// read back from a buffer that holds symbolic bytes) and checked against the written bytes with the reference readers.
fn chunk_at<B: Bytes>(out: &B, id: &[u8; 4], at: usize, size: u32) -> (ChunkId, Chunk) {
    assert!(id_at(out, at, id), "expected chunk is not at the position the chunk law puts it");
    assert!(size_at(out, at) == size as usize, "declared chunk size differs from the expected payload");
    let cid = ChunkId(*id);
    (cid, Chunk { header: ChunkHeader { id: cid, size }, data_position: (at + 8) as u64 })
}
fn map1<B: Bytes>(out: &B, id: &[u8; 4], at: usize, size: u32) -> ChunkTable {
    let mut m = ChunkTable::new();
    let (k, c) = chunk_at(out, id, at, size);
    m.insert(k, c);
    m
}
fn map2<B: Bytes>(out: &B, a: &[u8; 4], a_at: usize, a_size: u32, b: &[u8; 4], b_size: u32) -> ChunkTable {
    let mut m = map1(out, a, a_at, a_size);
    let (k, c) = chunk_at(out, b, a_at + 8 + a_size as usize, b_size);
    m.insert(k, c);
    assert!(a_at + 8 + a_size as usize + 8 + b_size as usize == out.end(), "the two chunks do not tile the bytes written");
    m
}
fn coleq(a: &Color, b: &Color) -> bool { a.r == b.r && a.g == b.g && a.b == b.b && a.a == b.a }
fn veq(a: &Vec3, b: &Vec3) -> bool { v3eq(a, b.x, b.y, b.z) }

// ------------------------------------------------------------------ MOMT
#[kani::proof]
#[kani::stub(tracing::callsite::DefaultCallsite::interest, common::tr_interest)]
#[kani::stub(tracing::__macro_support::__is_enabled, common::tr_is_enabled)]
#[kani::stub(tracing::Event::dispatch, common::tr_dispatch)]
#[kani::stub(std::fmt::format, vio::fmt_stub)]
#[kani::unwind(30)]
fn c15p_materials_roundtrip() {
    let v = ver_classic_to_mop();
    let m = [any_material()];
    let mut out = Sink::<80>::new();
    let r = WmoWriter::new().write_materials(&mut out, &m, v);
    assert!(r.is_ok() && out.pos == 72);
    // (known finding momt-size: below MoP the chunk declares 40 bytes; parse_materials does not look at the declared size)
    let map = map1(&out, b"MOMT", 0, if v >= WmoVersion::Mop { 64 } else { 40 });
    let mut src = Src::<80>::new(out.buf, out.pos);
    let p = WmoParser::new().parse_materials(&map, &mut src, 1);
    assert!(p.is_ok(), "materials written by write_materials are rejected by parse_materials");
    let p = p.unwrap();
    kani::cover!(p.len() == 1 && p[0].shader == 5);
    assert!(p.len() == 1, "material count changed in write -> parse");
    assert!(src.pos == out.pos, "parse_materials does not consume exactly the bytes written for one material");
    let (a, b) = (&m[0], &p[0]);
    assert!(a.flags == b.flags && a.shader == b.shader && a.blend_mode == b.blend_mode && a.texture1 == b.texture1 && a.texture2 == b.texture2
        && a.ground_type == b.ground_type, "material scalar fields changed in write -> parse");
    assert!(coleq(&a.emissive_color, &b.emissive_color) && coleq(&a.sidn_color, &b.sidn_color) && coleq(&a.diffuse_color, &b.diffuse_color),
        "material colours changed in write -> parse");
    std::mem::forget((r, m, map, p));
}

// ------------------------------------------------------------------ MOHD (through write_root: MVER + MOHD)
#[kani::proof]
#[kani::stub(tracing::callsite::DefaultCallsite::interest, common::tr_interest)]
#[kani::stub(tracing::__macro_support::__is_enabled, common::tr_is_enabled)]
#[kani::stub(tracing::Event::dispatch, common::tr_dispatch)]
#[kani::stub(std::fmt::format, vio::fmt_stub)]
#[kani::stub(std::hash::RandomState::new, common::rs_stub)]
#[kani::unwind(12)]
fn c15p_header_roundtrip() {
    let v = ver_classic_to_mop();
    let root = empty_root(v);
    let mut out = Sink::<96>::new();
    let r = WmoWriter::new().write_root(&mut out, &root, v);
    assert!(r.is_ok());
    let map = map1(&out, b"MOHD", 12, 60);
    let mut src = Src::<96>::new(out.buf, out.pos);
    let p = WmoParser::new().parse_header(&map, &mut src, WmoVersion::Classic);
    assert!(p.is_ok(), "MOHD written by write_root is rejected by parse_header");
    let h = p.unwrap();
    kani::cover!(h.flags.contains(WmoFlags::OUTDOOR));
    assert!(h.n_materials == 0 && h.n_groups == 0 && h.n_portals == 0 && h.n_lights == 0 && h.n_doodad_names == 0 && h.n_doodad_defs == 0
        && h.n_doodad_sets == 0, "header counts read back differ from the list lengths");
    assert!(coleq(&h.ambient_color, &root.header.ambient_color), "ambient colour changed in write -> parse");
    // no skybox in this root: the flag is cleared by the writer, everything else is kept
    assert!(h.flags == root.header.flags & !WmoFlags::HAS_SKYBOX, "header flags changed in write -> parse");
    std::mem::forget((r, root, map, h));
}

// ------------------------------------------------------------------ MOLT
#[kani::proof]
#[kani::stub(tracing::callsite::DefaultCallsite::interest, common::tr_interest)]
#[kani::stub(tracing::__macro_support::__is_enabled, common::tr_is_enabled)]
#[kani::stub(tracing::Event::dispatch, common::tr_dispatch)]
#[kani::stub(std::fmt::format, vio::fmt_stub)]
#[kani::unwind(12)]
fn c15p_lights_roundtrip() {
    let l = [any_light()];
    let mut out = Sink::<64>::new();
    let r = WmoWriter::new().write_lights(&mut out, &l, ver_classic_to_mop());
    assert!(r.is_ok() && out.pos == 56);
    let map = map1(&out, b"MOLT", 0, 48);
    let mut src = Src::<64>::new(out.buf, out.pos);
    let p = WmoParser::new().parse_lights(&map, &mut src, WmoVersion::Classic, 1);
    assert!(p.is_ok(), "lights written by write_lights are rejected by parse_lights");
    let p = p.unwrap();
    kani::cover!(p.len() == 1 && p[0].use_attenuation);
    assert!(p.len() == 1 && src.pos == out.pos, "light count changed / record size differs in write -> parse");
    let (a, b) = (&l[0], &p[0]);
    assert!(a.light_type == b.light_type && a.use_attenuation == b.use_attenuation && coleq(&a.color, &b.color), "light type/flag/colour changed");
    assert!(veq(&a.position, &b.position) && a.intensity.to_bits() == b.intensity.to_bits() && a.attenuation_start.to_bits() == b.attenuation_start.to_bits()
        && a.attenuation_end.to_bits() == b.attenuation_end.to_bits(), "light position/intensity/attenuation changed");
    assert!(a.rotation[0].to_bits() == b.rotation[0].to_bits() && a.rotation[1].to_bits() == b.rotation[1].to_bits()
        && a.rotation[2].to_bits() == b.rotation[2].to_bits() && a.rotation[3].to_bits() == b.rotation[3].to_bits(), "light rotation changed");
    std::mem::forget((r, l, map, p));
}

// ------------------------------------------------------------------ MOPR
#[kani::proof]
#[kani::stub(tracing::callsite::DefaultCallsite::interest, common::tr_interest)]
#[kani::stub(tracing::__macro_support::__is_enabled, common::tr_is_enabled)]
#[kani::stub(tracing::Event::dispatch, common::tr_dispatch)]
#[kani::stub(std::fmt::format, vio::fmt_stub)]
#[kani::unwind(12)]
fn c15p_portal_refs_roundtrip() {
    let refs = [WmoPortalReference { portal_index: kani::any(), group_index: kani::any(), side: kani::any() },
        WmoPortalReference { portal_index: kani::any(), group_index: kani::any(), side: kani::any() }];
    let mut out = Sink::<32>::new();
    let r = WmoWriter::new().write_portal_references(&mut out, &refs);
    assert!(r.is_ok() && out.pos == 24);
    let map = map1(&out, b"MOPR", 0, 16);
    let mut src = Src::<32>::new(out.buf, out.pos);
    let p = WmoParser::new().parse_portal_references(&map, &mut src);
    assert!(p.is_ok());
    let p = p.unwrap();
    kani::cover!(p.len() == 2 && p[1].side == 1);
    assert!(p.len() == 2, "portal reference count changed in write -> parse");
    let (a, b) = (&refs[0], &p[0]);
    assert!(a.portal_index == b.portal_index && a.group_index == b.group_index && a.side == b.side, "portal reference 0 changed in write -> parse");
    let (a, b) = (&refs[1], &p[1]);
    assert!(a.portal_index == b.portal_index && a.group_index == b.group_index && a.side == b.side, "portal reference 1 changed in write -> parse");
    std::mem::forget((r, refs, map, p));
}

// ------------------------------------------------------------------ MOPV + MOPT
#[kani::proof]
#[kani::stub(tracing::callsite::DefaultCallsite::interest, common::tr_interest)]
#[kani::stub(tracing::__macro_support::__is_enabled, common::tr_is_enabled)]
#[kani::stub(tracing::Event::dispatch, common::tr_dispatch)]
#[kani::stub(std::fmt::format, vio::fmt_stub)]
#[kani::unwind(12)]
fn c15p_portals_roundtrip() {
    // the writer multiplies normal by first vertex (plane distance): one factor of every product is kept concrete
    let ps = [WmoPortal { vertices: vec![any_vec3(), any_vec3()], normal: Vec3 { x: 0.0, y: 0.0, z: 1.0 } }];
    let mut out = Sink::<64>::new();
    let r = WmoWriter::new().write_portals(&mut out, &ps);
    assert!(r.is_ok() && out.pos == 60);
    let map = map2(&out, b"MOPV", 0, 24, b"MOPT", 20);
    let mut src = Src::<64>::new(out.buf, out.pos);
    let p = WmoParser::new().parse_portals(&map, &mut src, 1);
    assert!(p.is_ok());
    let p = p.unwrap();
    kani::cover!(p.len() == 1);
    assert!(p.len() == 1 && p[0].vertices.len() == 2, "portal / portal vertex counts changed in write -> parse");
    assert!(veq(&p[0].vertices[0], &ps[0].vertices[0]) && veq(&p[0].vertices[1], &ps[0].vertices[1]), "portal vertices changed in write -> parse");
    assert!(veq(&p[0].normal, &ps[0].normal), "portal normal changed");
    std::mem::forget((r, ps, map, p));
}
/// two portals: the second portal's vertex range starts after the first one's (vertex attribution), symbolic normal
#[kani::proof]
#[kani::stub(tracing::callsite::DefaultCallsite::interest, common::tr_interest)]
#[kani::stub(tracing::__macro_support::__is_enabled, common::tr_is_enabled)]
#[kani::stub(tracing::Event::dispatch, common::tr_dispatch)]
#[kani::stub(std::fmt::format, vio::fmt_stub)]
#[kani::unwind(40)]
fn c15p_portals_roundtrip_2() {
    let n0 = any_vec3();
    // Kani flags float operations that produce NaN from non-NaN operands (inf * 0 in the writer's plane-distance product): finite normal
    kani::assume(n0.x.is_finite() && n0.y.is_finite() && n0.z.is_finite());
    let ps = [WmoPortal { vertices: vec![Vec3 { x: 1.0, y: 0.0, z: 0.0 }], normal: n0 },
        WmoPortal { vertices: vec![any_vec3(), any_vec3()], normal: Vec3 { x: 0.0, y: 0.0, z: 1.0 } }];
    let mut out = Paged::<2>::new();
    let r = WmoWriter::new().write_portals(&mut out, &ps);
    assert!(r.is_ok() && out.len == 92);
    let map = map2(&out, b"MOPV", 0, 36, b"MOPT", 40);
    let src = &mut out;
    let p = WmoParser::new().parse_portals(&map, src, 2);
    assert!(p.is_ok());
    let p = p.unwrap();
    kani::cover!(p.len() == 2);
    assert!(p.len() == 2 && p[0].vertices.len() == 1 && p[1].vertices.len() == 2, "portal / portal vertex counts changed in write -> parse");
    assert!(veq(&p[1].vertices[0], &ps[1].vertices[0]) && veq(&p[1].vertices[1], &ps[1].vertices[1]) && p[0].vertices[0].x == 1.0,
        "portal vertices changed (or were attributed to another portal)");
    assert!(veq(&p[0].normal, &ps[0].normal) && veq(&p[1].normal, &ps[1].normal), "portal normal changed");
    std::mem::forget((r, ps, map, p));
}

// ------------------------------------------------------------------ MOVV + MOVB
#[kani::proof]
#[kani::stub(tracing::callsite::DefaultCallsite::interest, common::tr_interest)]
#[kani::stub(tracing::__macro_support::__is_enabled, common::tr_is_enabled)]
#[kani::stub(tracing::Event::dispatch, common::tr_dispatch)]
#[kani::stub(std::fmt::format, vio::fmt_stub)]
#[kani::unwind(12)]
fn c15p_visible_lists_roundtrip() {
    let (a, b, c): (u16, u16, u16) = (kani::any(), kani::any(), kani::any());
    // 0xFFFF is the in-band list terminator of this encoding: not a representable element
    kani::assume(a != 0xFFFF && b != 0xFFFF && c != 0xFFFF);
    let lists = [vec![a, b], Vec::new(), vec![c]];
    let mut out = Sink::<48>::new();
    let r = WmoWriter::new().write_visible_block_lists(&mut out, &lists);
    assert!(r.is_ok() && out.pos == 40);
    let map = map2(&out, b"MOVV", 0, 12, b"MOVB", 12);
    let mut src = Src::<48>::new(out.buf, out.pos);
    let p = WmoParser::new().parse_visible_block_lists(&map, &mut src);
    assert!(p.is_ok());
    let p = p.unwrap();
    kani::cover!(p.len() == 3);
    assert!(p.len() == 3 && p[0].len() == 2 && p[1].len() == 0 && p[2].len() == 1, "visible block list shapes changed in write -> parse");
    assert!(p[0][0] == a && p[0][1] == b && p[2][0] == c, "visible block list elements changed in write -> parse");
    std::mem::forget((r, lists, map, p));
}

// ------------------------------------------------------------------ MODD (+ MODN)
#[kani::proof]
#[kani::stub(tracing::callsite::DefaultCallsite::interest, common::tr_interest)]
#[kani::stub(tracing::__macro_support::__is_enabled, common::tr_is_enabled)]
#[kani::stub(tracing::Event::dispatch, common::tr_dispatch)]
#[kani::stub(std::fmt::format, common::fmt_stub_dd)]
#[kani::unwind(12)]
fn c15p_doodad_defs_roundtrip() {
    let d = [any_doodad()];
    // known finding doodad-nameoff: the name offset is replaced by the offset of a synthesised name (0 for the first doodad)
    kani::assume(d[0].name_offset == 0);
    let mut out = Sink::<64>::new();
    let r = WmoWriter::new().write_doodad_definitions(&mut out, &d, ver_classic_to_mop());
    assert!(r.is_ok() && out.pos == 59);
    let map = map2(&out, b"MODN", 0, 3, b"MODD", 40);
    let mut src = Src::<64>::new(out.buf, out.pos);
    let p = WmoParser::new().parse_doodad_defs(&map, &mut src, WmoVersion::Classic, 1);
    assert!(p.is_ok());
    let p = p.unwrap();
    kani::cover!(p.len() == 1);
    assert!(p.len() == 1, "doodad count changed in write -> parse");
    let (a, b) = (&d[0], &p[0]);
    assert!(a.name_offset == b.name_offset, "doodad name offset changed in write -> parse");
    assert!(veq(&a.position, &b.position) && a.scale.to_bits() == b.scale.to_bits() && coleq(&a.color, &b.color), "doodad position/scale/colour changed");
    assert!(a.orientation[0].to_bits() == b.orientation[0].to_bits() && a.orientation[1].to_bits() == b.orientation[1].to_bits()
        && a.orientation[2].to_bits() == b.orientation[2].to_bits() && a.orientation[3].to_bits() == b.orientation[3].to_bits(), "doodad orientation changed");
    std::mem::forget((r, d, map, p));
}
/// witness of known finding doodad-nameoff
#[kani::proof]
#[kani::stub(tracing::callsite::DefaultCallsite::interest, common::tr_interest)]
#[kani::stub(tracing::__macro_support::__is_enabled, common::tr_is_enabled)]
#[kani::stub(tracing::Event::dispatch, common::tr_dispatch)]
#[kani::stub(std::fmt::format, common::fmt_stub_dd)]
#[kani::unwind(12)]
fn c15p_doodad_name_offset_witness() {
    let d = [WmoDoodadDef { name_offset: 5, position: Vec3::default(), orientation: [0.0, 0.0, 0.0, 1.0], scale: 1.0, color: Color::default(), set_index: 0 }];
    let mut out = Sink::<64>::new();
    let r = WmoWriter::new().write_doodad_definitions(&mut out, &d, WmoVersion::Classic);
    assert!(r.is_ok());
    let map = map2(&out, b"MODN", 0, 3, b"MODD", 40);
    let mut src = Src::<64>::new(out.buf, out.pos);
    let p = WmoParser::new().parse_doodad_defs(&map, &mut src, WmoVersion::Classic, 1).unwrap();
    assert!(p.len() == 1 && p[0].name_offset == 5, "[doodad-nameoff] MODD: doodad name offset changed in write -> parse");
    std::mem::forget((r, d, map, p));
}

// ------------------------------------------------------------------ MODS
#[kani::proof]
#[kani::stub(tracing::callsite::DefaultCallsite::interest, common::tr_interest)]
#[kani::stub(tracing::__macro_support::__is_enabled, common::tr_is_enabled)]
#[kani::stub(tracing::Event::dispatch, common::tr_dispatch)]
#[kani::stub(std::fmt::format, vio::fmt_stub)]
#[kani::stub(std::string::String::from_utf8_lossy, lossy_stub)]
#[kani::unwind(24)]
fn c15p_doodad_sets_roundtrip() {
    // the name is concrete: the parser cuts it at the first NUL of the 20-byte field (symbolic length otherwise)
    let s = [WmoDoodadSet { name: String::from("Set"), start_doodad: kani::any(), n_doodads: kani::any() }];
    let mut out = Sink::<48>::new();
    let r = WmoWriter::new().write_doodad_sets(&mut out, &s);
    assert!(r.is_ok() && out.pos == 40);
    let map = map1(&out, b"MODS", 0, 32);
    let mut src = Src::<48>::new(out.buf, out.pos);
    let p = WmoParser::new().parse_doodad_sets(&map, &mut src, Vec::new(), 1);
    assert!(p.is_ok());
    let p = p.unwrap();
    kani::cover!(p.len() == 1);
    assert!(p.len() == 1 && src.pos == out.pos, "doodad set count changed / record size differs in write -> parse");
    assert!(p[0].start_doodad == s[0].start_doodad && p[0].n_doodads == s[0].n_doodads, "doodad set range changed");
    let n = p[0].name.as_bytes();
    assert!(n.len() == 3 && n[0] == b'S' && n[1] == b'e' && n[2] == b't', "doodad set name changed in write -> parse");
    std::mem::forget((r, s, map, p));
}

// ------------------------------------------------------------------ MOGN + MOGI
#[kani::proof]
#[kani::stub(tracing::callsite::DefaultCallsite::interest, common::tr_interest)]
#[kani::stub(tracing::__macro_support::__is_enabled, common::tr_is_enabled)]
#[kani::stub(tracing::Event::dispatch, common::tr_dispatch)]
#[kani::stub(std::fmt::format, vio::fmt_stub)]
#[kani::unwind(12)]
fn c15p_group_info_roundtrip_1() {
    // the name is concrete: the parser scans MOGN for the NUL (symbolic length otherwise)
    let g = [any_group_info(String::from("grp"))];
    let w = WmoWriter::new();
    let mut out = Sink::<64>::new();
    let r = w.write_group_names(&mut out, &g);
    let r2 = w.write_group_info(&mut out, &g, ver_classic_to_mop());
    assert!(r.is_ok() && r2.is_ok() && out.pos == 52);
    let map = map2(&out, b"MOGN", 0, 4, b"MOGI", 32);
    let mut src = Src::<64>::new(out.buf, out.pos);
    let p = WmoParser::new().parse_group_info(&map, &mut src, WmoVersion::Classic, 1);
    assert!(p.is_ok());
    let p = p.unwrap();
    kani::cover!(p.len() == 1);
    assert!(p.len() == 1, "group count changed in write -> parse");
    let (a, b) = (&g[0], &p[0]);
    assert!(a.flags == b.flags && veq(&a.bounding_box.min, &b.bounding_box.min) && veq(&a.bounding_box.max, &b.bounding_box.max), "group flags / bounding box changed");
    let n = b.name.as_bytes();
    assert!(n.len() == 3 && n[0] == b'g' && n[1] == b'r' && n[2] == b'p', "group name changed in write -> parse");
    std::mem::forget((r, r2, g, map, p));
}
// ------------------------------------------------------------------ MOSB
/// witness of known finding skybox-v17: a skybox written for WotLK..MoP is never read back (MVER 17 parses as Classic)
#[kani::proof]
#[kani::stub(tracing::callsite::DefaultCallsite::interest, common::tr_interest)]
#[kani::stub(tracing::__macro_support::__is_enabled, common::tr_is_enabled)]
#[kani::stub(tracing::Event::dispatch, common::tr_dispatch)]
#[kani::stub(std::fmt::format, vio::fmt_stub)]
#[kani::stub(std::hash::RandomState::new, common::rs_stub)]
#[kani::stub(std::string::String::from_utf8_lossy, lossy_stub)]
#[kani::unwind(12)]
fn c15p_skybox_witness() {
    let mut root = empty_root(WmoVersion::Wotlk);
    root.header.flags = WmoFlags::empty();
    root.skybox = Some(String::from("s"));
    let mut out = Sink::<112>::new();
    let r = WmoWriter::new().write_root(&mut out, &root, WmoVersion::Wotlk);
    assert!(r.is_ok());
    let map = map2(&out, b"MOHD", 12, 60, b"MOSB", 2);
    let mut src = Src::<112>::new(out.buf, out.pos);
    let parser = WmoParser::new();
    let version = WmoVersion::from_raw(u32_at(&out, 8)).unwrap(); // what parse_version computes from MVER
    let h = parser.parse_header(&map, &mut src, version).unwrap();
    let p = parser.parse_skybox(&map, &mut src, version, &h).unwrap();
    assert!(p.is_some(), "[skybox-v17] MOSB: skybox written for a WotLK root is not read back");
    std::mem::forget((r, root, map, p, h));
}

// ------------------------------------------------------------------ MOTX
/// names are concrete here (String::push of a symbolic char has a symbolic length); the subject is the offset table,
/// which is a std HashMap filled by parse_textures (two real inserts: thorough tier)
#[kani::proof]
#[kani::stub(tracing::callsite::DefaultCallsite::interest, common::tr_interest)]
#[kani::stub(tracing::__macro_support::__is_enabled, common::tr_is_enabled)]
#[kani::stub(tracing::Event::dispatch, common::tr_dispatch)]
#[kani::stub(std::fmt::format, vio::fmt_stub)]
#[kani::stub(std::hash::RandomState::new, common::rs_stub)]
#[kani::unwind(12)]
fn c15p_textures_roundtrip() {
    let tex = [String::from("abc"), String::from("ab")];
    let mut out = Sink::<16>::new();
    let r = WmoWriter::new().write_textures(&mut out, &tex);
    assert!(r.is_ok() && out.pos == 15);
    let map = map1(&out, b"MOTX", 0, 7);
    let mut src = Src::<16>::new(out.buf, out.pos);
    let p = WmoParser::new().parse_textures(&map, &mut src);
    assert!(p.is_ok());
    let (t, offs) = p.unwrap();
    kani::cover!(t.len() == 2);
    assert!(t.len() == 2, "texture count changed in write -> parse");
    let (x, y) = (t[0].as_bytes(), t[1].as_bytes());
    assert!(x.len() == 3 && x[0] == b'a' && x[2] == b'c' && y.len() == 2 && y[1] == b'b', "texture names changed in write -> parse");
    // C15.c: the offset table has one entry per name
    assert!(offs.len() == 2, "texture offset table size != texture count");
    std::mem::forget((r, tex, map, t, offs));
}

// ------------------------------------------------------------------ whole file
// `parse_root(write_root(x))` (read_chunks + every parse_*) was tried on one concrete 390-byte root through a paged buffer: CBMC
// runs out of 10 GB (and an 80-byte empty root does not finish in 5 minutes): the end-of-file error path of read_chunks and the
// heap-resident chunk data defeat constant propagation.  Listed under OUTSIDE; composition is covered natively (NOTES.md).

/// witness of known finding root-bbox: the bounding box stored in MOHD is not what the parser returns.  The steps are the ones
/// parse_root performs for `bounding_box` (parse_header, parse_group_info, calculate_global_bounding_box) on the written bytes;
/// parse_root itself on an 80-byte file does not finish in 5 minutes (end-of-file error path of read_chunks)
#[kani::proof]
#[kani::stub(tracing::callsite::DefaultCallsite::interest, common::tr_interest)]
#[kani::stub(tracing::__macro_support::__is_enabled, common::tr_is_enabled)]
#[kani::stub(tracing::Event::dispatch, common::tr_dispatch)]
#[kani::stub(std::fmt::format, vio::fmt_stub)]
#[kani::stub(std::hash::RandomState::new, common::rs_stub)]
#[kani::unwind(12)]
fn c15p_root_bbox_witness() {
    let mut root = empty_root(WmoVersion::Classic);
    root.header = WmoHeader { n_materials: 0, n_groups: 0, n_portals: 0, n_lights: 0, n_doodad_names: 0, n_doodad_defs: 0, n_doodad_sets: 0,
        flags: WmoFlags::empty(), ambient_color: Color::default() };
    root.bounding_box = BoundingBox { min: Vec3::default(), max: Vec3 { x: 1.0, y: 1.0, z: 1.0 } };
    let mut out = Sink::<80>::new();
    let r = WmoWriter::new().write_root(&mut out, &root, WmoVersion::Classic);
    assert!(r.is_ok() && out.pos == 80);
    let map = map1(&out, b"MOHD", 12, 60);
    let mut src = Src::<80>::new(out.buf, out.pos);
    let parser = WmoParser::new();
    let h = parser.parse_header(&map, &mut src, WmoVersion::Classic).unwrap();
    let groups = parser.parse_group_info(&map, &mut src, WmoVersion::Classic, h.n_groups).unwrap();
    let bb = parser.calculate_global_bounding_box(&groups);
    std::mem::forget((r, root, map, h, groups));
    assert!(bb.max.x == 1.0, "[root-bbox] MOHD: bounding box written by write_root is not the one the parser returns (recomputed from the groups)");
}

#[kani::proof]
#[kani::stub(tracing::callsite::DefaultCallsite::interest, common::tr_interest)]
#[kani::stub(tracing::__macro_support::__is_enabled, common::tr_is_enabled)]
#[kani::stub(tracing::Event::dispatch, common::tr_dispatch)]
#[kani::stub(std::fmt::format, vio::fmt_stub)]
#[kani::unwind(12)]
fn c15_parser_canary() {
    let refs = [WmoPortalReference { portal_index: kani::any(), group_index: kani::any(), side: kani::any() }];
    let mut out = Sink::<16>::new();
    let r = WmoWriter::new().write_portal_references(&mut out, &refs);
    let map = map1(&out, b"MOPR", 0, 8);
    let mut src = Src::<16>::new(out.buf, out.pos);
    let p = WmoParser::new().parse_portal_references(&map, &mut src).unwrap();
    let same = p[0].side != 0x1234;
    std::mem::forget((r, refs, map, p));
    assert!(same, "canary: must be reported as failing");
}
