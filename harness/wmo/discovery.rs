// C15 (WMO write -> parse) through the crate's two-stage reader behind `parse_wmo` (chunk discovery + binrw record readers of
// root_parser.rs / group_parser.rs).  Child module of wow-wmo/src/chunk_discovery.rs so that a `ChunkDiscovery` with literal
// offsets can be handed to the real `parse_root_file` (control values must not be read back from a buffer that holds
// symbolic bytes); the literals are checked against the written bytes with the reference readers.
#![allow(unused_imports, dead_code)]
#[path = "../env/io.rs"]
mod vio;
use vio::{CountSink, Sink, Src};
#[path = "common.rs"]
mod common;
use common::*;

use super::*;
use crate::api::{parse_wmo, ParsedWmo};
use crate::root_parser::parse_root_file;
use crate::types::{BoundingBox, Color, Vec3};
use crate::version::WmoVersion;
use crate::wmo_group_types::{WmoGroupFlags, WmoGroupHeader};
use crate::wmo_types::{WmoDoodadSet, WmoFlags, WmoPortalReference};
use std::io::Write;
use crate::writer::WmoWriter;

fn info<B: Bytes>(out: &B, id: &[u8; 4], at: usize, size: u32) -> ChunkInfo {
    assert!(id_at(out, at, id), "expected chunk is not at the position the chunk law puts it");
    assert!(size_at(out, at) == size as usize, "declared chunk size differs from the expected payload");
    ChunkInfo { id: ChunkId { bytes: [id[3], id[2], id[1], id[0]] }, offset: at as u64, size }
}

fn disc(chunks: Vec<ChunkInfo>, file_size: u64) -> ChunkDiscovery {
    ChunkDiscovery { chunks, file_size, malformed_chunks: 0, unknown_chunks: 0, truncated: false }
}

/// MOHD as write_header emits it -> parse_root_file: counts, ambient colour and bounding box come back.  The crate's reader takes
/// 64 bytes; the 4 bytes after the 60 written stand for the next chunk's id (known finding mohd-size: flags/num_lod not compared)
#[kani::proof]
#[kani::stub(std::fmt::format, vio::fmt_stub)]
#[kani::stub(std::hash::RandomState::new, common::rs_stub)]
#[kani::unwind(12)]
fn c15r_header_via_root_parser() {
    let v = ver_classic_to_mop();
    let mut root = empty_root(v);
    root.lights.push(c_light());
    root.lights.push(c_light());
    let mut out = Sink::<72>::new();
    let r = WmoWriter::new().write_header(&mut out, &root, v);
    assert!(r.is_ok() && out.pos == 68);
    let d = disc(vec![info(&out, b"MOHD", 0, 60)], 72);
    let mut src = Src::<72>::new(out.buf, 72);
    let p = parse_root_file(&mut src, d);
    assert!(p.is_ok(), "MOHD written by write_header is rejected by parse_root_file");
    let q = p.unwrap();
    kani::cover!(q.n_lights == 2);
    assert!(q.n_materials == 0 && q.n_groups == 0 && q.n_portals == 0 && q.n_lights == 2 && q.n_doodad_names == 0 && q.n_doodad_defs == 0
        && q.n_doodad_sets == 0, "MOHD counts read by parse_root_file != list lengths");
    let c = &root.header.ambient_color;
    assert!(q.ambient_color[0] == c.b && q.ambient_color[1] == c.g && q.ambient_color[2] == c.r && q.ambient_color[3] == c.a, "ambient colour is not BGRA");
    assert!(v3eq(&root.bounding_box.min, q.bounding_box_min[0], q.bounding_box_min[1], q.bounding_box_min[2])
        && v3eq(&root.bounding_box.max, q.bounding_box_max[0], q.bounding_box_max[1], q.bounding_box_max[2]), "bounding box changed in write -> parse_root_file");
    std::mem::forget((r, root, q));
}

/// MOLT -> parse_root_file (record count from the chunk size, field order)
#[kani::proof]
#[kani::stub(std::fmt::format, vio::fmt_stub)]
#[kani::stub(std::hash::RandomState::new, common::rs_stub)]
#[kani::unwind(12)]
fn c15r_light_via_root_parser() {
    let l = [any_light()];
    let mut out = Sink::<64>::new();
    let r = WmoWriter::new().write_lights(&mut out, &l, ver_classic_to_mop());
    assert!(r.is_ok() && out.pos == 56);
    let d = disc(vec![info(&out, b"MOLT", 0, 48)], 56);
    let mut src = Src::<64>::new(out.buf, out.pos);
    let p = parse_root_file(&mut src, d);
    assert!(p.is_ok(), "MOLT written by write_lights is rejected by parse_root_file");
    let q = p.unwrap();
    kani::cover!(q.lights.len() == 1);
    assert!(q.lights.len() == 1, "light count changed in write -> parse_root_file");
    let (a, b) = (&l[0], &q.lights[0]);
    assert!(b.light_type == a.light_type as u8 && (b.use_attenuation != 0) == a.use_attenuation && v3eq(&a.position, b.position[0], b.position[1], b.position[2])
        && a.intensity.to_bits() == b.intensity.to_bits() && a.attenuation_start.to_bits() == b.attenuation_start.to_bits()
        && a.attenuation_end.to_bits() == b.attenuation_end.to_bits(), "light changed in write -> parse_root_file");
    assert!(b.color[0] == a.color.b && b.color[1] == a.color.g && b.color[2] == a.color.r && b.color[3] == a.color.a, "light colour is not BGRA");
    std::mem::forget((r, l, q));
}

/// MOPR + MODS -> parse_root_file
#[kani::proof]
#[kani::stub(std::fmt::format, vio::fmt_stub)]
#[kani::stub(std::hash::RandomState::new, common::rs_stub)]
#[kani::unwind(24)]
fn c15r_records_via_root_parser() {
    let refs = [WmoPortalReference { portal_index: kani::any(), group_index: kani::any(), side: kani::any() },
        WmoPortalReference { portal_index: kani::any(), group_index: kani::any(), side: kani::any() }];
    let a = ascii::<3>();
    let sets = [WmoDoodadSet { name: string_of(&a), start_doodad: kani::any(), n_doodads: kani::any() }];
    let w = WmoWriter::new();
    let mut out = Sink::<64>::new();
    let r = w.write_portal_references(&mut out, &refs);
    let r2 = w.write_doodad_sets(&mut out, &sets);
    assert!(r.is_ok() && r2.is_ok() && out.pos == 64);
    let d = disc(vec![info(&out, b"MOPR", 0, 16), info(&out, b"MODS", 24, 32)], 64);
    let mut src = Src::<64>::new(out.buf, out.pos);
    let p = parse_root_file(&mut src, d);
    assert!(p.is_ok(), "MOPR/MODS written by the chunk writers are rejected by parse_root_file");
    let q = p.unwrap();
    kani::cover!(q.portal_refs.len() == 2);
    assert!(q.doodad_sets.len() == 1 && q.portal_refs.len() == 2, "list lengths changed in write -> parse_root_file");
    assert!(q.portal_refs[1].portal_index == refs[1].portal_index && q.portal_refs[1].group_index == refs[1].group_index
        && q.portal_refs[1].side as u16 == refs[1].side && q.portal_refs[0].portal_index == refs[0].portal_index, "portal reference changed in write -> parse_root_file");
    let s = &q.doodad_sets[0];
    assert!(s.name[0] == a[0] && s.name[2] == a[2] && s.name[3] == 0 && s.start_index == sets[0].start_doodad && s.count == sets[0].n_doodads,
        "doodad set changed in write -> parse_root_file");
    std::mem::forget((r, r2, refs, sets, q));
}

/// MOGN + MOGI -> parse_root_file (names concrete: Mogn::parse splits at NULs)
#[kani::proof]
#[kani::stub(std::fmt::format, vio::fmt_stub)]
#[kani::stub(std::hash::RandomState::new, common::rs_stub)]
#[kani::unwind(12)]
fn c15r_group_info_via_root_parser() {
    let g = [any_group_info(String::from("grp"))];
    let w = WmoWriter::new();
    let mut out = Sink::<64>::new();
    let r = w.write_group_names(&mut out, &g);
    let r2 = w.write_group_info(&mut out, &g, ver_classic_to_mop());
    assert!(r.is_ok() && r2.is_ok() && out.pos == 52);
    let d = disc(vec![info(&out, b"MOGN", 0, 4), info(&out, b"MOGI", 12, 32)], 52);
    let mut src = Src::<64>::new(out.buf, out.pos);
    let p = parse_root_file(&mut src, d);
    assert!(p.is_ok(), "MOGN/MOGI written by the chunk writers are rejected by parse_root_file");
    let q = p.unwrap();
    kani::cover!(q.group_info.len() == 1);
    assert!(q.group_names.len() == 1 && q.group_info.len() == 1, "group list lengths changed in write -> parse_root_file");
    assert!(q.group_names[0].as_bytes() == b"grp", "group name changed in write -> parse_root_file");
    let (a, b) = (&g[0], &q.group_info[0]);
    assert!(b.flags == a.flags.bits() && v3eq(&a.bounding_box.min, b.bounding_box_min[0], b.bounding_box_min[1], b.bounding_box_min[2])
        && v3eq(&a.bounding_box.max, b.bounding_box_max[0], b.bounding_box_max[1], b.bounding_box_max[2]) && b.name_offset == 0,
        "group info changed in write -> parse_root_file");
    std::mem::forget((r, r2, g, q));
}

/// witness of known finding mohd-size through the reader behind parse_wmo: the header flags do not come back (they are written
/// at 0x20, where the reader has wmo_id; the reader's flags at 0x3C are the first bytes of whatever follows - here zeros)
#[kani::proof]
#[kani::stub(std::fmt::format, vio::fmt_stub)]
#[kani::stub(std::hash::RandomState::new, common::rs_stub)]
#[kani::unwind(12)]
fn c15r_root_mohd_size_witness() {
    let mut root = empty_root(WmoVersion::Classic);
    root.header = crate::wmo_types::WmoHeader { n_materials: 0, n_groups: 0, n_portals: 0, n_lights: 0, n_doodad_names: 0, n_doodad_defs: 0, n_doodad_sets: 0,
        flags: WmoFlags::OUTDOOR, ambient_color: Color { r: 1, g: 2, b: 3, a: 4 } };
    root.bounding_box = BoundingBox { min: Vec3::default(), max: Vec3 { x: 1.0, y: 1.0, z: 1.0 } };
    let mut out = Sink::<72>::new();
    let r = WmoWriter::new().write_header(&mut out, &root, WmoVersion::Classic);
    assert!(r.is_ok() && out.pos == 68);
    let d = disc(vec![info(&out, b"MOHD", 0, 60)], 72);
    let mut src = Src::<72>::new(out.buf, 72);
    let q = parse_root_file(&mut src, d).unwrap();
    let flags = q.flags;
    std::mem::forget((r, root, q));
    assert!(flags as u32 == WmoFlags::OUTDOOR.bits(), "[mohd-size] MOHD: header flags written by write_header are not the flags parse_root_file / parse_wmo reads (60-byte MOHD, 64 expected)");
}

#[kani::proof]
#[kani::stub(std::fmt::format, vio::fmt_stub)]
#[kani::stub(std::hash::RandomState::new, common::rs_stub)]
#[kani::unwind(12)]
fn c15_discovery_canary() {
    let refs = [WmoPortalReference { portal_index: kani::any(), group_index: kani::any(), side: kani::any() }];
    let mut out = Sink::<16>::new();
    let r = WmoWriter::new().write_portal_references(&mut out, &refs);
    let d = disc(vec![info(&out, b"MOPR", 0, 8)], 16);
    let mut src = Src::<16>::new(out.buf, out.pos);
    let p = parse_root_file(&mut src, d);
    let side = match &p { Ok(q) => q.portal_refs[0].side, Err(_) => 0 };
    std::mem::forget((r, refs, p));
    assert!(side != 0x1234, "canary: must be reported as failing");
}
