// C15 (WMO write -> parse) through the crate's two-stage reader behind `parse_wmo` (chunk discovery + binrw record readers of
// root_parser.rs / group_parser.rs).  Child module of wow-wmo/src/chunk_discovery.rs so that a `ChunkDiscovery` with literal
// offsets can be handed to the real `parse_root_file` (control values must not be read back from a buffer that holds
// symbolic bytes); the literals are checked against the written bytes with the reference readers.
#![allow(unused_imports, dead_code)]
#[path = "../env/io.rs"]
mod vio;
use vio::{CountSink, Sink, Src};
#[path = "common.rs"]
mod common;
use common::*;

use super::*;
use crate::api::{parse_wmo, ParsedWmo};
use crate::root_parser::parse_root_file;
use crate::types::{BoundingBox, Color, Vec3};
use crate::version::WmoVersion;
use crate::wmo_group_types::{WmoGroupFlags, WmoGroupHeader};
use crate::wmo_types::{WmoDoodadSet, WmoFlags, WmoPortalReference};
use crate::writer::WmoWriter;

fn info<const N: usize>(out: &Sink<N>, id: &[u8; 4], at: usize, size: u32) -> ChunkInfo {
    assert!(id_at(out, at, id), "expected chunk is not at the position the chunk law puts it");
    assert!(size_at(out, at) == size as usize, "declared chunk size differs from the expected payload");
    ChunkInfo { id: ChunkId { bytes: [id[3], id[2], id[1], id[0]] }, offset: at as u64, size }
}

/// root with one light -> parse_root_file: header counts, ambient colour, bounding box and the light come back unchanged
#[kani::proof]
#[kani::stub(std::fmt::format, vio::fmt_stub)]
#[kani::stub(std::hash::RandomState::new, common::rs_stub)]
#[kani::unwind(12)]
fn c15r_root_light_via_root_parser() {
    let v = ver_classic_to_mop();
    let mut root = empty_root(v);
    root.lights.push(any_light());
    let mut out = Sink::<144>::new();
    let r = WmoWriter::new().write_root(&mut out, &root, v);
    assert!(r.is_ok() && out.pos == 136);
    let d = ChunkDiscovery { chunks: vec![info(&out, b"MVER", 0, 4), info(&out, b"MOHD", 12, 60), info(&out, b"MOLT", 80, 48)], file_size: 136,
        malformed_chunks: 0, unknown_chunks: 0, truncated: false };
    let mut src = Src::<144>::new(out.buf, out.pos);
    let p = parse_root_file(&mut src, d);
    assert!(p.is_ok(), "root written by write_root is rejected by parse_root_file");
    let q = p.unwrap();
    kani::cover!(q.lights.len() == 1);
    assert!(q.version == 17);
    assert!(q.n_materials == 0 && q.n_groups == 0 && q.n_portals == 0 && q.n_lights == 1 && q.n_doodad_names == 0 && q.n_doodad_defs == 0
        && q.n_doodad_sets == 0, "MOHD counts read by parse_root_file != list lengths");
    let c = &root.header.ambient_color;
    assert!(q.ambient_color[0] == c.b && q.ambient_color[1] == c.g && q.ambient_color[2] == c.r && q.ambient_color[3] == c.a, "ambient colour is not BGRA");
    assert!(v3eq(&root.bounding_box.min, q.bounding_box_min[0], q.bounding_box_min[1], q.bounding_box_min[2])
        && v3eq(&root.bounding_box.max, q.bounding_box_max[0], q.bounding_box_max[1], q.bounding_box_max[2]), "bounding box changed in write -> parse_root_file");
    // known finding mohd-size: MOHD is written with 60 bytes, flags (u16 at 0x3C) are outside the chunk - not compared
    assert!(q.lights.len() == 1, "light count changed in write -> parse_root_file");
    let (a, b) = (&root.lights[0], &q.lights[0]);
    assert!(b.light_type == a.light_type as u8 && v3eq(&a.position, b.position[0], b.position[1], b.position[2])
        && a.intensity.to_bits() == b.intensity.to_bits() && a.attenuation_end.to_bits() == b.attenuation_end.to_bits(), "light changed in write -> parse_root_file");
    std::mem::forget((r, root, q));
}

/// root with a portal reference, a doodad set and two textures -> parse_root_file
#[kani::proof]
#[kani::stub(std::fmt::format, vio::fmt_stub)]
#[kani::stub(std::hash::RandomState::new, common::rs_stub)]
#[kani::unwind(24)]
fn c15r_root_records_via_root_parser() {
    let v = ver_classic_to_mop();
    let mut root = empty_root(v);
    let a = ascii::<3>();
    root.textures.push(string_of(&a));
    root.portal_references.push(WmoPortalReference { portal_index: kani::any(), group_index: kani::any(), side: kani::any() });
    root.doodad_sets.push(WmoDoodadSet { name: string_of(&a), start_doodad: kani::any(), n_doodads: kani::any() });
    let mut out = Sink::<160>::new();
    let r = WmoWriter::new().write_root(&mut out, &root, v);
    assert!(r.is_ok() && out.pos == 80 + 12 + 16 + 40);
    let d = ChunkDiscovery { chunks: vec![info(&out, b"MVER", 0, 4), info(&out, b"MOHD", 12, 60), info(&out, b"MOTX", 80, 4), info(&out, b"MOPR", 92, 8),
        info(&out, b"MODS", 108, 32)], file_size: 148, malformed_chunks: 0, unknown_chunks: 0, truncated: false };
    let mut src = Src::<160>::new(out.buf, out.pos);
    let p = parse_root_file(&mut src, d);
    assert!(p.is_ok(), "root written by write_root is rejected by parse_root_file");
    let q = p.unwrap();
    kani::cover!(q.portal_refs.len() == 1);
    assert!(q.n_doodad_sets == 1 && q.doodad_sets.len() == 1 && q.portal_refs.len() == 1 && q.textures.len() == 1, "list lengths changed in write -> parse_root_file");
    let t = q.textures[0].as_bytes();
    assert!(t.len() == 3 && t[0] == a[0] && t[1] == a[1] && t[2] == a[2], "texture name changed in write -> parse_root_file");
    assert!(q.portal_refs[0].portal_index == root.portal_references[0].portal_index && q.portal_refs[0].group_index == root.portal_references[0].group_index
        && q.portal_refs[0].side as u16 == root.portal_references[0].side, "portal reference changed in write -> parse_root_file");
    let s = &q.doodad_sets[0];
    assert!(s.name[0] == a[0] && s.name[2] == a[2] && s.name[3] == 0 && s.start_index == root.doodad_sets[0].start_doodad && s.count == root.doodad_sets[0].n_doodads,
        "doodad set changed in write -> parse_root_file");
    std::mem::forget((r, root, q));
}

/// witness of known finding mohd-size: a root without any list (MVER + MOHD only) is rejected by parse_wmo
#[kani::proof]
#[kani::stub(std::fmt::format, vio::fmt_stub)]
#[kani::stub(std::hash::RandomState::new, common::rs_stub)]
#[kani::unwind(12)]
fn c15r_root_mohd_size_witness() {
    let mut root = empty_root(WmoVersion::Classic);
    root.header = crate::wmo_types::WmoHeader { n_materials: 0, n_groups: 0, n_portals: 0, n_lights: 0, n_doodad_names: 0, n_doodad_defs: 0, n_doodad_sets: 0,
        flags: WmoFlags::OUTDOOR, ambient_color: Color { r: 1, g: 2, b: 3, a: 4 } };
    root.bounding_box = BoundingBox { min: Vec3::default(), max: Vec3 { x: 1.0, y: 1.0, z: 1.0 } };
    let mut out = Sink::<96>::new();
    let r = WmoWriter::new().write_root(&mut out, &root, WmoVersion::Classic);
    assert!(r.is_ok());
    let mut src = Src::<96>::new(out.buf, out.pos);
    let p = parse_wmo(&mut src);
    assert!(p.is_ok(), "MOHD: root written by write_root (60-byte MOHD) is rejected by parse_wmo (64-byte MOHD)");
    std::mem::forget((r, root, p));
}

/// witness of known finding mogp-header through the public reader: a group with one vertex does not come back
#[kani::proof]
#[kani::stub(std::fmt::format, vio::fmt_stub)]
#[kani::unwind(12)]
fn c15r_group_via_parse_wmo_witness() {
    let g = crate::wmo_group_types::WmoGroup {
        header: WmoGroupHeader { flags: WmoGroupFlags::empty(), bounding_box: BoundingBox { min: Vec3::default(), max: Vec3::default() }, name_offset: 0, group_index: 0 },
        materials: Vec::new(), vertices: vec![Vec3 { x: 1.0, y: 2.0, z: 3.0 }], normals: Vec::new(), tex_coords: Vec::new(), batches: Vec::new(),
        indices: Vec::new(), vertex_colors: None, bsp_nodes: None, liquid: None, doodad_refs: None,
    };
    let mut out = Sink::<96>::new();
    let r = WmoWriter::new().write_group(&mut out, &g, WmoVersion::Classic);
    assert!(r.is_ok());
    let mut src = Src::<96>::new(out.buf, out.pos);
    let p = parse_wmo(&mut src);
    let ok = match &p { Ok(ParsedWmo::Group(q)) => q.vertex_positions.len() == 1, _ => false };
    assert!(ok, "MOGP: group written by write_group does not come back from parse_wmo (36-byte group header instead of 68)");
    std::mem::forget((r, g, p));
}

#[kani::proof]
#[kani::stub(std::fmt::format, vio::fmt_stub)]
#[kani::stub(std::hash::RandomState::new, common::rs_stub)]
#[kani::unwind(12)]
fn c15_discovery_canary() {
    let root = empty_root(WmoVersion::Classic);
    let mut out = Sink::<96>::new();
    let r = WmoWriter::new().write_root(&mut out, &root, WmoVersion::Classic);
    let d = ChunkDiscovery { chunks: vec![info(&out, b"MVER", 0, 4)], file_size: 80, malformed_chunks: 0, unknown_chunks: 0, truncated: false };
    let mut src = Src::<96>::new(out.buf, out.pos);
    let p = parse_root_file(&mut src, d);
    let ver = match &p { Ok(q) => q.version, Err(_) => 0 };
    std::mem::forget((r, root, p));
    assert!(ver != 17, "canary: must be reported as failing");
}
