// C17 (DBC write -> parse) and C05.dbc (header/string-block totality).  Child module of wow-cdbc/src/writer.rs.
#![allow(unused_imports, dead_code)]
#[path = "../env/io.rs"]
mod vio;
use vio::{Sink, Src};

use super::*;
use crate::field_parser::parse_field_value;
use crate::{CachedStringBlock, DbcHeader, DbcParser, SchemaField, StringBlock, StringRef, Wdb2Header, Wdb5Header};
use std::sync::Arc;

/// strings in the harness are concrete ASCII; skip the validation loops (they are not constant for CBMC once
/// the bytes live on the heap)
fn utf8_stub(b: &[u8]) -> std::result::Result<&str, std::str::Utf8Error> {
    Ok(unsafe { std::str::from_utf8_unchecked(b) })
}

fn rs_stub() -> std::hash::RandomState {
    // fixed SipHash keys: HashMap with concrete keys becomes executable
    unsafe { std::mem::transmute::<[u64; 2], std::hash::RandomState>([1, 2]) }
}

fn field_type_any() -> FieldType {
    let t: u8 = kani::any();
    kani::assume(t < 9);
    match t {
        0 => FieldType::Int32, 1 => FieldType::UInt32, 2 => FieldType::Float32, 3 => FieldType::String,
        4 => FieldType::Bool, 5 => FieldType::UInt8, 6 => FieldType::Int8, 7 => FieldType::UInt16, _ => FieldType::Int16,
    }
}

fn empty_record_set() -> RecordSet {
    RecordSet::new(Vec::new(), None, StringBlock::parse(&mut Src::<1>::new([0], 1), 0, 1).unwrap())
}

// ------------------------------------------------------------------ C17.a field codec
/// parse_field_value(bytes) -> write_value reproduces the bytes (Bool: canonical 0/1) and writes size() bytes
/// write_value(v) followed by parse_field_value gives v back, and both move FieldType::size() bytes.
/// The value is constructed with a concrete variant: a value that comes out of `Result<Value>` has a
/// discriminant CBMC cannot fold, and the recursive `Array` arm of write_value then unwinds exponentially.
fn field_codec(ft: FieldType, v: Value) {
    let rs = empty_record_set();
    let offsets: HashMap<String, u32> = HashMap::new();
    let mut w = DbcWriter::new(Sink::<8>::new());
    let wr = w.write_value(&v, ft, &rs, &offsets);
    assert!(wr.is_ok(), "value of a field type is rejected by the writer for the same type");
    kani::cover!(w.writer.pos == ft.size());
    assert!(w.writer.pos == ft.size(), "field writer produced a size different from FieldType::size()");
    let mut src = Src::<8>::new(w.writer.buf, w.writer.pos);
    let r = parse_field_value(&mut src, ft);
    assert!(r.is_ok(), "written field cannot be parsed back");
    assert!(src.pos == ft.size(), "field reader consumed a size different from FieldType::size()");
    let back = r.unwrap();
    let same = match (&v, &back) {
        (Value::Int32(a), Value::Int32(b)) => a == b,
        (Value::UInt32(a), Value::UInt32(b)) => a == b,
        (Value::Float32(a), Value::Float32(b)) => a.to_bits() == b.to_bits(),
        (Value::Bool(a), Value::Bool(b)) => a == b,
        (Value::UInt8(a), Value::UInt8(b)) => a == b,
        (Value::Int8(a), Value::Int8(b)) => a == b,
        (Value::UInt16(a), Value::UInt16(b)) => a == b,
        (Value::Int16(a), Value::Int16(b)) => a == b,
        _ => false,
    };
    assert!(same, "parse_field_value(write_value(v)) != v");
    std::mem::forget((v, back, rs, offsets, w, wr));
}
macro_rules! codec_harness {
    ($name:ident, $ft:expr, $v:expr) => {
        #[kani::proof]
        #[kani::unwind(6)]
        #[kani::stub(std::fmt::format, vio::fmt_stub)]
        #[kani::stub(std::hash::RandomState::new, rs_stub)]
        fn $name() { field_codec($ft, $v) }
    };
}
codec_harness!(c17a_field_codec_int32, FieldType::Int32, Value::Int32(kani::any()));
codec_harness!(c17a_field_codec_uint32, FieldType::UInt32, Value::UInt32(kani::any()));
codec_harness!(c17a_field_codec_float32, FieldType::Float32, Value::Float32(f32::from_bits(kani::any())));
codec_harness!(c17a_field_codec_bool, FieldType::Bool, Value::Bool(kani::any()));
codec_harness!(c17a_field_codec_uint8, FieldType::UInt8, Value::UInt8(kani::any()));
codec_harness!(c17a_field_codec_int8, FieldType::Int8, Value::Int8(kani::any()));
codec_harness!(c17a_field_codec_uint16, FieldType::UInt16, Value::UInt16(kani::any()));
codec_harness!(c17a_field_codec_int16, FieldType::Int16, Value::Int16(kani::any()));

// ------------------------------------------------------------------ C17.b header the writer emits is accepted with the same schema
fn schema_any(nfields: usize) -> Schema {
    let mut s = Schema::new("t");
    let mut i = 0;
    while i < nfields {
        let ft = field_type_any();
        if kani::any() {
            let n: usize = kani::any();
            kani::assume(n >= 1 && n <= 3);
            s.add_field(SchemaField::new_array("f", ft, n));
        } else {
            s.add_field(SchemaField::new("f", ft));
        }
        i += 1;
    }
    s
}

fn header_accepts(nfields: usize, exclude_known: bool) {
    let schema = schema_any(nfields);
    if exclude_known {
        // (none recorded)
    }
    let rs = empty_record_set();
    let mut w = DbcWriter::new(Sink::<32>::new()).with_schema(schema.clone());
    let r = w.write_records(&rs);
    assert!(r.is_ok(), "writing an empty table fails");
    // size law: header + 0 records + string block (the single NUL)
    assert!(w.writer.pos == 20 + 1, "written size != header + records*record_size + string block");
    let mut src = Src::<32>::new(w.writer.buf, w.writer.pos);
    let h = DbcHeader::parse(&mut src);
    assert!(h.is_ok());
    let h = h.unwrap();
    assert!(h.record_count == 0 && h.string_block_size == 1);
    assert!(h.record_size as usize == schema.record_size(), "header record size != schema record size");
    let mut s2 = schema.clone();
    let v = s2.validate(h.field_count, h.record_size);
    kani::cover!(schema.fields[0].is_array, "array field reachable");
    assert!(v.is_ok(), "table written with a schema is rejected by the reader's validation of the same schema");
    std::mem::forget((schema, rs, w, s2, v));
}

#[kani::proof]
#[kani::unwind(6)]
#[kani::stub(std::fmt::format, vio::fmt_stub)]
#[kani::stub(std::hash::RandomState::new, rs_stub)]
fn c17b_header_accepted_1_field() { header_accepts(1, false) }
#[kani::proof]
#[kani::unwind(6)]
#[kani::stub(std::fmt::format, vio::fmt_stub)]
#[kani::stub(std::hash::RandomState::new, rs_stub)]
fn c17b_header_accepted_2_fields() { header_accepts(2, false) }
#[kani::proof]
#[kani::unwind(6)]
#[kani::stub(std::fmt::format, vio::fmt_stub)]
#[kani::stub(std::hash::RandomState::new, rs_stub)]
fn c17b_header_accepted_3_fields() { header_accepts(3, false) }


// ------------------------------------------------------------------ C17.c strings survive write -> parse, identical strings stored once
/// three records with one string field referencing "a", "a", "b" (a repeated string): after write -> parse
/// every record resolves to its original text, the size law holds and the block stores each string once
#[kani::proof]
#[kani::unwind(12)]
#[kani::stub(std::fmt::format, vio::fmt_stub)]
#[kani::stub(std::hash::RandomState::new, rs_stub)]
#[kani::stub(std::str::from_utf8, utf8_stub)]
fn c17c_strings_roundtrip_with_duplicate() {
    let mut schema = Schema::new("t");
    schema.add_field(SchemaField::new("s", FieldType::String));
    let schema = Arc::new(schema);
    // source string block: "\0a\0b\0"  (offsets: "" = 0, "a" = 1, "b" = 3)
    let sb = StringBlock::parse(&mut Src::<5>::new([0, b'a', 0, b'b', 0], 5), 0, 5).unwrap();
    let refs = [1u32, 1, 3];
    let mut records = Vec::with_capacity(3);
    let mut i = 0;
    while i < 3 {
        records.push(Record::new(vec![Value::StringRef(StringRef::new(refs[i]))], Some(Arc::clone(&schema))));
        i += 1;
    }
    let rs = RecordSet::new(records, Some(Arc::clone(&schema)), sb);
    let mut w = DbcWriter::new(Sink::<64>::new());
    let r = w.write_records(&rs);
    assert!(r.is_ok(), "writing a table with strings fails");
    // size law: header + 3 records * 4 bytes + string block ("" , "a", "b" stored once each = 5 bytes)
    kani::cover!(w.writer.pos == 37);
    assert!(w.writer.pos == 20 + 12 + 5, "written size != header + records*record_size + string block with each string stored once");
    let out = &w.writer.buf;
    assert!(u32::from_le_bytes([out[4], out[5], out[6], out[7]]) == 3 && u32::from_le_bytes([out[16], out[17], out[18], out[19]]) == 5,
        "header record count / string block size wrong");
    // every record's string reference, resolved in the WRITTEN string block, is the original text
    let block_start = 20 + 12;
    let want: [u8; 3] = [b'a', b'a', b'b'];
    let mut k = 0;
    while k < 3 {
        let off = u32::from_le_bytes([out[20 + 4 * k], out[21 + 4 * k], out[22 + 4 * k], out[23 + 4 * k]]) as usize;
        assert!(off >= 1 && off + 1 < 5, "string offset outside the written string block");
        assert!(out[block_start + off] == want[k] && out[block_start + off + 1] == 0 && out[block_start + off - 1] == 0,
            "a string reference resolves to a different text after writing");
        k += 1;
    }
    std::mem::forget((rs, w, r));
}

// ------------------------------------------------------------------ C05.dbc header parsers are total
#[kani::proof]
#[kani::unwind(6)]
#[kani::stub(std::fmt::format, vio::fmt_stub)]
fn c05_dbc_header_total() {
    let mut b: [u8; 20] = kani::any();
    b[0] = b'W'; b[1] = b'D'; b[2] = b'B'; b[3] = b'C';
    let len: usize = kani::any();
    kani::assume(len <= 20);
    let mut src = Src::<20>::new(b, len);
    let r = DbcHeader::parse(&mut src);
    kani::cover!(r.is_ok());
    if let Ok(h) = &r {
        // derived offsets must not overflow for any accepted header
        let _ = h.string_block_offset();
        let _ = h.total_size();
    }
    std::mem::forget(r);
}

#[kani::proof]
#[kani::unwind(6)]
#[kani::stub(std::fmt::format, vio::fmt_stub)]
fn c05_dbc_wdb2_header_total() {
    let mut b: [u8; 48] = kani::any();
    b[0] = b'W'; b[1] = b'D'; b[2] = b'B'; b[3] = b'2';
    let mut src = Src::<48>::new(b, 48);
    let r = Wdb2Header::parse(&mut src);
    kani::cover!(r.is_ok());
    if let Ok(h) = &r {
        let _ = h.string_block_offset();
        let _ = h.total_size();
    }
    std::mem::forget(r);
}

#[kani::proof]
#[kani::unwind(6)]
#[kani::stub(std::fmt::format, vio::fmt_stub)]
fn c05_dbc_wdb5_header_total() {
    let mut b: [u8; 48] = kani::any();
    b[0] = b'W'; b[1] = b'D'; b[2] = b'B'; b[3] = b'5';
    let mut src = Src::<48>::new(b, 48);
    let r = Wdb5Header::parse(&mut src);
    kani::cover!(r.is_ok());
    if let Ok(h) = &r {
        let _ = h.string_block_offset();
        let _ = h.total_size();
    }
    std::mem::forget(r);
}

/// string lookups never panic and never read outside the block
#[kani::proof]
#[kani::unwind(8)]
#[kani::stub(std::fmt::format, vio::fmt_stub)]
fn c05_dbc_string_block_total() {
    let b: [u8; 5] = kani::any();
    let mut src = Src::<5>::new(b, 5);
    let sb = StringBlock::parse(&mut src, 0, 5).unwrap();
    let off: u32 = kani::any();
    let r = sb.get_string(StringRef::new(off));
    kani::cover!(r.is_ok());
    if off >= 5 {
        assert!(r.is_err(), "out-of-range string offset accepted");
    }
    if let Ok(s) = &r {
        assert!(s.len() <= 5 - off as usize);
    }
    std::mem::forget(r);
    std::mem::forget(sb);
}

#[kani::proof]
#[kani::unwind(6)]
#[kani::stub(std::fmt::format, vio::fmt_stub)]
#[kani::stub(std::hash::RandomState::new, rs_stub)]
fn c17_canary() {
    let b: [u8; 4] = kani::any();
    let mut src = Src::<4>::new(b, 4);
    let v = parse_field_value(&mut src, FieldType::UInt8).unwrap();
    assert!(src.pos == 4, "canary: must be reported as failing");
    std::mem::forget(v);
}
