// C17.d key lookups (hashed and binary-searched).  Child module of wow-cdbc/src/parser.rs (RecordSet's fields are
// private to that module).
#![allow(unused_imports, dead_code)]
#[path = "../env/io.rs"]
mod vio;
use vio::Src;

use super::*;
use crate::{FieldType, SchemaField};

fn rs_stub() -> std::hash::RandomState {
    unsafe { std::mem::transmute::<[u64; 2], std::hash::RandomState>([1, 2]) }
}

fn key_of(r: &Record) -> u32 {
    match r.get_value(0) { Some(Value::UInt32(k)) => *k, _ => { assert!(false, "key field lost its value"); 0 } }
}

fn keyed_records<const N: usize>(keys: &[u32; N]) -> (Vec<Record>, Arc<Schema>) {
    let mut schema = Schema::new("t");
    schema.add_field(SchemaField::new("id", FieldType::UInt32));
    schema.key_field_index = Some(0);
    let schema = Arc::new(schema);
    let mut records = Vec::with_capacity(N);
    let mut i = 0;
    while i < N {
        records.push(Record::new(vec![Value::UInt32(keys[i])], Some(Arc::clone(&schema))));
        i += 1;
    }
    (records, schema)
}

/// hashed path: the map RecordSet::new builds answers a key with a record carrying that key, for EVERY combination of
/// keys (duplicates included), and with nothing when the key is absent
fn hashed<const N: usize>() {
    let keys: [u32; N] = kani::any();
    let (records, schema) = keyed_records(&keys);
    let sb = StringBlock::parse(&mut Src::<1>::new([0], 1), 0, 1).unwrap();
    let rs = RecordSet::new(records, Some(schema), sb);
    let q: u32 = kani::any();
    let mut present = false;
    let mut i = 0;
    while i < N { if keys[i] == q { present = true; } i += 1; }
    let h = rs.get_record_by_key(q);
    kani::cover!(h.is_some());
    kani::cover!(h.is_none());
    match h {
        Some(r) => assert!(key_of(r) == q, "hashed key lookup returned a record carrying another key"),
        None => assert!(!present, "hashed key lookup misses a key that is in the table"),
    }
    std::mem::forget(rs);
}

/// binary-searched path, from ANY state create_sorted_key_map can leave behind: sorted_key_indices is a list of
/// (key, record index) pairs, one per record, ascending by key (std's sort is not executed: its recursion does not
/// finish in CBMC; its postcondition is assumed instead)
fn bsearch<const N: usize>() {
    let keys: [u32; N] = kani::any();
    let (records, schema) = keyed_records(&keys);
    let sb = StringBlock::parse(&mut Src::<1>::new([0], 1), 0, 1).unwrap();
    // a symbolic permutation p with keys[p[0]] <= keys[p[1]] <= ...
    let p: [usize; N] = kani::any();
    let mut seen = [false; N];
    let mut i = 0;
    while i < N {
        kani::assume(p[i] < N);
        kani::assume(!seen[p[i]]);
        seen[p[i]] = true;
        if i > 0 { kani::assume(keys[p[i - 1]] <= keys[p[i]]); }
        i += 1;
    }
    let mut sorted = Vec::with_capacity(N);
    let mut i = 0;
    while i < N { sorted.push((keys[p[i]], p[i])); i += 1; }
    let rs = RecordSet { records, schema: Some(schema), string_block: sb, cached_string_block: None, key_map: None, sorted_key_indices: Some(sorted) };
    let q: u32 = kani::any();
    let mut present = false;
    let mut i = 0;
    while i < N { if keys[i] == q { present = true; } i += 1; }
    let b = rs.get_record_by_key_binary_search(q);
    kani::cover!(b.is_some());
    kani::cover!(b.is_none());
    match b {
        Some(r) => assert!(key_of(r) == q, "binary-searched key lookup returned a record carrying another key"),
        None => assert!(!present, "binary-searched key lookup misses a key that is in the table"),
    }
    std::mem::forget(rs);
}

macro_rules! c17d {
    ($name:ident, $f:ident, $n:expr, $unw:expr) => {
        #[kani::proof]
        #[kani::unwind($unw)]
        #[kani::stub(std::fmt::format, vio::fmt_stub)]
        #[kani::stub(std::hash::RandomState::new, rs_stub)]
        fn $name() { $f::<$n>() }
    };
}
c17d!(c17d_key_lookup_hashed_n2, hashed, 2, 8);
c17d!(c17d_key_lookup_hashed_n3, hashed, 3, 9);
c17d!(c17d_key_lookup_hashed_n4, hashed, 4, 10);
c17d!(c17d_key_lookup_bsearch_n2, bsearch, 2, 8);
c17d!(c17d_key_lookup_bsearch_n3, bsearch, 3, 9);
c17d!(c17d_key_lookup_bsearch_n4, bsearch, 4, 10);
c17d!(c17d_key_lookup_bsearch_n5, bsearch, 5, 11);

/// the two access paths after the REAL create_sorted_key_map (std's sort executed on 2..3 elements): both lookups
/// answer a present key with a record carrying that key, miss an absent key, and the rebuilt hashed map agrees with
/// the binary search on presence
fn sorted_then_both<const N: usize>() {
    let keys: [u32; N] = kani::any();
    let (records, schema) = keyed_records(&keys);
    let sb = StringBlock::parse(&mut Src::<1>::new([0], 1), 0, 1).unwrap();
    let mut rs = RecordSet::new(records, Some(schema), sb);
    let r = rs.create_sorted_key_map();
    assert!(r.is_ok(), "create_sorted_key_map fails on a keyed table");
    let q: u32 = kani::any();
    let mut present = false;
    let mut i = 0;
    while i < N { if keys[i] == q { present = true; } i += 1; }
    let h = rs.get_record_by_key(q);
    let b = rs.get_record_by_key_binary_search(q);
    kani::cover!(h.is_some());
    match h {
        Some(r) => assert!(key_of(r) == q, "hashed lookup after create_sorted_key_map returned a record carrying another key"),
        None => assert!(!present, "hashed lookup after create_sorted_key_map misses a key that is in the table"),
    }
    match b {
        Some(r) => assert!(key_of(r) == q, "binary search after create_sorted_key_map returned a record carrying another key"),
        None => assert!(!present, "binary search after create_sorted_key_map misses a key that is in the table"),
    }
    std::mem::forget(rs);
}
c17d!(c17d_sorted_then_both_n2, sorted_then_both, 2, 8);
c17d!(c17d_sorted_then_both_n3, sorted_then_both, 3, 9);
