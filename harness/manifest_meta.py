# per-property text for MANIFEST.json (bin/gen-manifest)
WIP = "not claimed yet: check under construction in this round (see DESIGN.md section 4 for the planned obligations)"

CLAIMED = {
    "C04": dict(
        text=("Bounded model checking of the real hash/cipher kernels: crypt and case tables equal the format's generator for all "
              "entries; hash_string equals a spec-derived HashString for every valid UTF-8 name of <= 2 bytes (3 in thorough) and all "
              "four hash types; all hashes invariant under case/slash spelling (<= 2 bytes quick, 4 thorough); decrypt inverts encrypt "
              "for every key and every buffer of <= 4 words (8 thorough) and byte lengths 1..7 (17 thorough) incl. lengths not divisible "
              "by 4; HET hash equals lookup3 hashlittle2 of the folded name for the listed lengths crossing the 12-byte block. Each "
              "verdict covers ALL values of the symbolic inputs inside those bounds, which sampling cannot."),
        design_ref="DESIGN.md section 4, C04",
        note=("Trusted: Kani/CBMC/CaDiCaL, the spec-derived reference in harness/ref (written from the published format). Outside: longer "
              "names/buffers than the bounds, non-ASCII names for the Jenkins pair. Known finding KF-C04-key0 (key 0 treated as 'not "
              "encrypted') is excluded by an explicit assumption and re-witnessed on every run."),
    ),
    "C18": dict(
        text=("Bounded model checking of the real WDT/WDL code: world_to_tile(tile_to_world(t)) == t for all 4096 tiles in one query "
              "(IEEE-754 single); every WDT chunk record (MPHD both flavours, MVER, MODF) and WDL record (Vec3d, BoundingBox, "
              "ModelPlacement, M2Placement, M2VisibilityInfo, HolesData) satisfies write(read(b)) == b for ALL byte contents, consumes "
              "and produces exactly the documented size, and size() equals the bytes written; the MWMO emission rule is stable under "
              "write->read->write for every (version, flags, chunk presence). Thorough adds the 64x64 MAIN/MAID grids (entry at a "
              "symbolic position survives, nothing appears elsewhere, size() == bytes written for 1/2/8 MAID sections), MWMO names, "
              "the 545-value MARE tile and WDL chunk framing."),
        design_ref="DESIGN.md section 4, C18",
        note=("Trusted: Kani/CBMC float model for +,-,*,/ and casts (bit-precise; counterexample replayed natively). Outside: the WDL file "
              "writer/parser as a whole incl. the MAOF offset table (walks 4096 slots through HashMap lookups - out of reach), whole-file "
              "WDT write->read, version conversion of whole maps."),
    ),
}

NOT_APPLICABLE = {
    "C07": "rebuild is an orchestration over Archive::open + ArchiveBuilder::build through NamedTempFile/persist (file I/O and FFI); Archive::open on even one symbolic field exceeds 14 GB in CBMC; no arithmetic kernel of its own to encode (DESIGN.md section 5)",
    "C09": "quantifies over thread schedules of a rayon pool; Kani/CBMC model no concurrency and rayon's runtime is FFI (DESIGN.md section 5)",
    "C11": "the containment decision is an inline expression inside a 250-line CLI function of a binary crate that also drives rayon and fs::write; file-system effects of a process are outside symbolic reach (DESIGN.md section 5)",
    "C12": "quantifies over kill points and failing system calls of an OS process; the deciding code is tempfile + rename in the kernel/FFI (DESIGN.md section 5)",
    "C20": "property of whole process runs (argument parsing, error propagation to main, stdout); no unit a bounded model checker can drive (DESIGN.md section 5)",
}
for _p in ["C01", "C02", "C03", "C05", "C06", "C08", "C10", "C13", "C14", "C15", "C16", "C17", "C19"]:
    NOT_APPLICABLE.setdefault(_p, WIP)

NOTES = ("Exit codes of bin/check: 0 held, 1 violation (replayed), 2 inconclusive (build error, time-out, OOM, vacuous harness, "
         "unreproduced counterexample). Known findings are listed in known-findings.json and printed as KNOWN-FINDING lines.")
