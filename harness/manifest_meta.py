# per-property text for MANIFEST.json (bin/gen-manifest)
WIP = "not claimed yet: check under construction in this round (see DESIGN.md section 4 for the planned obligations)"

CLAIMED = {
    "C04": dict(
        text=("Bounded model checking of the real hash/cipher kernels: crypt and case tables equal the format's generator for all "
              "entries; hash_string equals a spec-derived HashString for every valid UTF-8 name of <= 2 bytes (3 in thorough) and all "
              "four hash types; all hashes invariant under case/slash spelling (<= 2 bytes quick, 4 thorough); decrypt inverts encrypt "
              "for every key and every buffer of <= 4 words (8 thorough) and byte lengths 1..7 (17 thorough) incl. lengths not divisible "
              "by 4; HET hash equals lookup3 hashlittle2 of the folded name for the listed lengths crossing the 12-byte block. Each "
              "verdict covers ALL values of the symbolic inputs inside those bounds, which sampling cannot."),
        design_ref="DESIGN.md section 4, C04",
        note=("Trusted: Kani/CBMC/CaDiCaL, the spec-derived reference in harness/ref (written from the published format). Outside: longer "
              "names/buffers than the bounds, non-ASCII names for the Jenkins pair. Known finding KF-C04-key0 (key 0 treated as 'not "
              "encrypted') is excluded by an explicit assumption and re-witnessed on every run."),
    ),
    "C18": dict(
        text=("Bounded model checking of the real WDT/WDL code: world_to_tile(tile_to_world(t)) == t for all 4096 tiles in one query "
              "(IEEE-754 single); every WDT chunk record (MPHD both flavours, MVER, MODF) and WDL record (Vec3d, BoundingBox, "
              "ModelPlacement, M2Placement, M2VisibilityInfo, HolesData) satisfies write(read(b)) == b for ALL byte contents, consumes "
              "and produces exactly the documented size, and size() equals the bytes written; the MWMO emission rule is stable under "
              "write->read->write for every (version, flags, chunk presence). Thorough adds MAID size() == sections*64*64*4, "
              "the 545-value MARE tile and WDL chunk framing."),
        design_ref="DESIGN.md section 4, C18",
        note=("Trusted: Kani/CBMC float model for +,-,*,/ and casts (bit-precise; counterexample replayed natively). Outside: the WDL file "
              "writer/parser as a whole incl. the MAOF offset table (walks 4096 slots through HashMap lookups - out of reach), whole-file "
              "WDT write->read and the 64x64 MAIN/MAID grids (nested-Vec loops do not finish in 40 min), MWMO names, version conversion of "
              "whole maps."),
    ),
}

CLAIMED.update({
    "C01": dict(
        text=("Bounded model checking of the builder->reader data path on the real code: ArchiveBuilder::write_file output, placed in an "
              "in-memory archive image, is read back bit-identically by Archive::read_file for every file content of the bounded size, per "
              "configuration (plain / compressed through an abstract codec pair / encrypted / position-adjusted key / sector checksum), under a "
              "different case/slash spelling of the name; a never-added name is not found. Hash-table insertion/lookup is decided for every "
              "assignment of hash values under C06; name folding and hashes under C04."),
        design_ref="DESIGN.md section 4, C01",
        note=("Trusted: Kani/CBMC; the in-memory File model; the abstract codec pair (compress returns the input or method byte + 3 arbitrary "
              "bytes, decompress inverts exactly that) which abstracts from zlib/bzip2/LZMA. Outside: real codecs inside the path, multi-sector "
              "files (thorough tier only where affordable), Archive::open / table loading, V3/V4 HET/BET tables, listfile and attributes "
              "generation, whole-archive build through temp files. The configuration product is not swept; each mechanism is decided for all "
              "contents within its bound."),
    ),
    "C02": dict(
        text=("The independent implementation is a reference written from the published MPQ format (harness/ref/mpq_spec.rs: crypt table, "
              "HashString, block cipher, table keys, header field offsets, 16-byte table entries, flag and method constants). Decided for all "
              "field values: header bytes the builder writes equal the published offsets for v1..v4 and the real reader recovers them; hash and "
              "block table bytes decrypt under the format's cipher/key to the published entry layout, and reference-encoded tables load through "
              "the real loaders; the file key schedule (plain name, position adjustment) equals the format's."),
        design_ref="DESIGN.md section 4, C02",
        note=("Trusted: the reference (spec-derived, independent of the repository code). Known findings excluded by explicit assumptions and "
              "re-witnessed each run: KF-C02-hetbet-order (v3/v4 header writes HET/BET positions swapped), KF-C02-key-path (file key hashed "
              "from the full path). Outside: zlib/bzip2 payload conformance, sector layout of whole archives through Archive::open, V3+ tables."),
    ),
    "C03": dict(
        text=("Store-raw rule of compress() decided for EVERY behaviour of the codec behind it (the codec is a nondeterministic stub): the stored "
              "form is never longer than the input, non-shrinking output is stored raw byte-for-byte, shrinking output is method byte + payload. "
              "Every (payload size, true size) pair the compressor can emit for sizes up to 2 MiB (100 MiB thorough) is accepted by "
              "validate_decompression_operation under the default limits, per method selector, assuming only the format-level ratio ceiling of "
              "the codec. RLE decoder equals a reference decoder (C08). The sparse codec itself - real encoder into real decoder - is "
              "decided on a derived copy of sparse.rs (Vec<u8> replaced by a bounded-array model, regenerated from the sources on every run): "
              "decompress(compress(x), len) == x, header == length, stored form within the encoder's own worst-case bound, for EVERY input of "
              "1..=5 bytes (7 thorough)."),
        design_ref="DESIGN.md sections 0.8 and 4, C03",
        note=("Trusted: the codec abstraction. Known finding KF-C03-ratio (fixed 1000:1 ratio test rejects the library's own output, e.g. zlib of "
              "2 MiB zeros) is excluded by assumption and witnessed. Trusted for the sparse codec: the bounded-array model of Vec<u8> "
              "(harness/env/bvec.rs; the function bodies are the repository's text). Outside: round trips through the real "
              "zlib/bzip2/LZMA/PKWare/Huffman codecs (external crates or table-driven loops that exceed CBMC's reach), sparse inputs of more than 7 "
              "bytes (incl. the 0x80/0x81/0x82 literal-run markers), ADPCM length/interleave beyond decoder totality."),
    ),
    "C05": dict(
        text=("Per parser kernel, for ALL byte contents within the bound: value or error, no panic, no arithmetic overflow, no out-of-bounds "
              "index, loops bounded (unwinding assertions). Kernels: MPQ header parse (4 versions, truncated too) and header discovery "
              "(termination), security validators and their accept-postconditions, classic hash/block table decoders and lookup, patch header "
              "and BSD0 applier on hostile headers, ADPCM decoder (12-byte inputs), RLE decoder, sparse decoder (thorough), BLP bounds helpers and (thorough) "
              "parse_dxtn on hostile headers, DBC/WDB2/WDB5 header parsers and string-block "
              "lookups; plus the per-format parser kernels registered by the format properties (C13-C16, C18)."),
        design_ref="DESIGN.md section 4, C05",
        note=("Outside: whole-file opens (Archive::open, parse_m2, parse_adt, parse_wmo) - out of CBMC's reach even for one symbolic header "
              "field; zlib/bzip2/LZMA/PKWare/Huffman/JPEG decoders; stack depth; inputs larger than the listed bounds; allocation-size caps "
              "(not yet monitored). 'Every byte string' is decided only per kernel and bound; composition of kernels is not."),
    ),
    "C06": dict(
        text=("Inductive step over the real MutableArchive code: from an ARBITRARY 4-slot hash-table state satisfying an explicit "
              "representation invariant, one real remove_file / rename_file / add_to_hash_table acts on the abstract name->block map exactly as "
              "on a plain map, a failing operation leaves the map unchanged, the invariant is preserved (so any history is covered), lookups "
              "agree with the map, and probe loops terminate - decided for EVERY assignment of hash values (hash_string is a symbolic function), "
              "i.e. every collision pattern, home slot and wrap-around."),
        design_ref="DESIGN.md section 4, C06",
        note=("Trusted: adequacy of the invariant (reachable states satisfy it - argued, not proved). Known finding KF-C06-full-table (insertion "
              "never returns on a table without free slot) excluded by assumption and witnessed as a non-terminating loop. Outside: everything "
              "on disk (flush + reopen, compaction, listfile/attributes rewriting, block-table growth vs appended data), V3+ tables."),
    ),
    "C08": dict(
        text=("Patch applier on the real code: apply_patch returns an error whenever either digest check fails and the bytes it returns are "
              "exactly those submitted to the after-check (digest checks are nondeterministic stubs: decided for every outcome); COPY size "
              "checks; a well-formed bsdiff stream turns old into new for all 4-byte old/new; RLE decoder equals a reference decoder for all "
              "inputs of the listed lengths; patch header fields are read from the documented offsets."),
        design_ref="DESIGN.md section 4, C08",
        note=("Known finding KF-C08-bsd0-overflow (32 + ctrl_block_size overflows) excluded and witnessed. Outside: chain ordering and "
              "content resolution across archives (PatchChain: HashMap<String,_> + file I/O; a two-entry chain step exceeded 14 GB), parallel "
              "loading, MD5 values themselves."),
    ),
    "C10": dict(
        text=("Signature padding exactness on the real verifier: the padding the library produces verifies, NO other 64-byte block verifies "
              "for a digest (so any change to the decrypted signature block is detected), a different digest never verifies; same for the "
              "256-byte strong padding (thorough). The weak-signature digest is fed exactly the signed byte range with the signature window "
              "zeroed (MD5 compression function replaced by a recording tap); the version-4 header digest is fed exactly the 192 header bytes "
              "at the archive's own offset (archive at offset 0 and behind a 512-byte stub). A single-byte fault in the data or checksum of a "
              "checksummed single-unit file is detected; (attributes) write->parse keeps every CRC32/MD5/time/patch value."),
        design_ref="DESIGN.md sections 0.7, 0.8 and 4, C10",
        note=("Outside: RSA (modpow on 512/2048-bit integers), digest values (second pre-images), sector checksums of compressed multi-sector "
              "files (the reader skips them: seen by reading, needs a real codec to reach), the V4 table digests (only the header digest's input range is decided) and (attributes) CRC32/MD5 "
              "verification against file contents (need Archive::open / the FFI verify calls)."),
    ),
    "C17": dict(
        text=("DBC writer/reader kernels: per scalar field type, write_value(parse_field_value(b)) == b and both move FieldType::size() bytes "
              "for all contents; the header DbcWriter emits for any schema of <= 3 fields (types and array sizes symbolic) satisfies the size law "
              "and is accepted by Schema::validate of the same schema; header parsers (WDBC/WDB2/WDB5) and string-block lookups are total; hashed "
              "key lookup (map built by RecordSet::new) for every combination of 2..3 keys and binary-searched lookup from every key-ascending "
              "permutation of 2..5 records return a record carrying the key and miss absent keys."),
        design_ref="DESIGN.md sections 0.7 and 4, C17",
        note=("Trusted: RandomState fixed (HashMap with concrete keys only). Fixed defect KF-C17-array-field-count (dc3511e). Outside: lazy / mmap / "
              "rayon access paths, string de-duplication / interning of write_records, the hashed map rebuilt by create_sorted_key_map (std's sort "
              "does not finish in CBMC; its postcondition is assumed for the binary search), tables beyond 3 fields. HashMap is an "
              "association-list model in the scratch copy."),
    ),
    "C19": dict(
        text=("Single-threaded C-API steps on the real extern functions: null handles are reported as ERROR_INVALID_HANDLE and nothing is "
              "written through caller pointers (all arguments symbolic); from a fabricated open-file state SFileReadFile copies exactly "
              "min(to_read, remaining) bytes, writes nothing beyond them (guard zone) and advances the cursor by what it copied; thorough: "
              "SFileSetFilePointer never panics, keeps the cursor inside the file and returns it, stale and closed handles are errors, "
              "info / size / archive-name queries respect buffer_size."),
        design_ref="DESIGN.md section 4, C19",
        note=("Outside: threads and lock order (Kani has no scheduler), every function that opens/creates/adds/flushes/compacts an archive "
              "(file I/O), agreement of contents with the Rust API, find handles."),
    ),
})

CLAIMED.update({
    "C16": dict(
        text=("BLP container arithmetic and the encoder/parser pair on the real code: mip level sizes halve down to 1x1 and byte sizes are "
              "exact; header encode->parse round trip and published byte offsets for BLP0/1/2 for all field values; one level of raw1 / raw3 / "
              "DXT1/3/5 / JPEG data goes through the real private encoder functions and the real parsers bit-identically for all contents of "
              "small shapes; the encoder's locator consistency check; complete two-level chains for raw BGRA and JPEG; truncated headers are "
              "errors."),
        design_ref="DESIGN.md section 4, C16; harness/blp/NOTES.md",
        note=("Trusted: an integer model replaces libm f32::log2 in mipmaps_count (equality after `as usize` checked natively for sides "
              "0..=70000). Outside: all of convert/ (Kani ICE on image::imageops::resize) - pixel exactness, palette membership, alpha "
              "quantisation are NOT decided; multi-level palettised/DXT files; images beyond 3x5 pixels. Fixed findings: KF-C16-dxt-blocks, "
              "KF-C16-mipchain-nonsquare."),
    ),
})

CLAIMED.update({
    "C14": dict(
        text=("ADT serializer kernels on the real code: MHDR offsets/flags and MCIN entries equal chunk positions for all position values; "
              "MMID/MWID offsets equal the byte offsets of the names in MMDX/MWMO; write_chunk framing (declared size == bytes written); twelve "
              "record types satisfy write(read(b)) == b for all contents; thorough: a bare MCNK header goes write->parse->write byte-stable."),
        design_ref="DESIGN.md section 4, C14; harness/adt/NOTES.md",
        note=("Stub: std::any::TypeId::eq -> false (forces binrw's generic element path, which moves the same bytes as the fast path CBMC cannot "
              "fold). Open findings witnessed each run (thorough): KF-C14-mcrf-counts, -mcnk-tail-dropped, -mccv-flag, -mclq-size. Outside: whole-tile "
              "build->serialise->parse (> 40 min / 7 GB for the smallest tile), chunk discovery (HashMap), MH2O, 145-vertex sub-chunks, re-serialisation "
              "stability of whole files - the 'parse o serialise = id' clause is decided only for the listed kernels."),
    ),
})

CLAIMED.update({
    "C15": dict(
        text=("WMO writer/parser kernels on the real code, per chunk: for every private WmoWriter::write_* the bytes written equal 8 + the declared "
              "chunk size and the record layout equals the published one (one and two elements, all versions Classic..MoP, all field values); "
              "MOHD counts equal list lengths and the written root tiles exactly; group back-patching; each chunk written by the writer is read "
              "back equal by the real private WmoParser::parse_* functions and by root_parser::parse_root_file; conversion keeps all content for "
              "all 11x11 version pairs (root and group flags)."),
        design_ref="DESIGN.md section 4, C15; harness/wmo/NOTES.md",
        note=("Scratch-copy rewrites (documented in cat_C15.py): the parser's HashMap<ChunkId,Chunk> chunk table is replaced by an association "
              "list (HashMap is not executable in CBMC) and the writer's write_* are made pub(crate); tracing macros are stubbed. Ten open findings "
              "(KF-C15-*: MOMT/MLIQ/MOHD/MOGP sizes, name offsets, skybox, bbox, BSP layout, stub group parser) are excluded by explicit "
              "assumptions and witnessed each run. Outside: WmoParser::parse_root / parse_wmo on whole files (> 10 GB), group content beyond framing."),
    ),
})

CLAIMED.update({
    "C13": dict(
        text=("M2 / skin / anim writer-parser kernels on the real code: header parse->write->parse per version class and flag class for all "
              "other header bytes, M2Header::new/convert; every record type whose size M2Model::write hard-codes (sequence, bone, vertex, texture, "
              "material, attachment, event, light, camera) writes exactly that many bytes (constants extracted from model.rs at run time) and "
              "parse(write(r)) == r; skin headers/records and one-submesh / one-batch skins; anim records and sections; M2Model::write of small "
              "models: header size, every (count, offset) pair, section order and file length against the real header parser; the writer's "
              "sequence-size rule (operator and threshold extracted too) for every legacy version number; the old-offset -> new-offset "
              "relocation step of preserved bone key-frame data for all track shapes and all maps of <= 3 entries."),
        design_ref="DESIGN.md sections 0.8 and 4, C13; harness/m2/NOTES.md",
        note=("Fifteen open findings (KF-C13-*) are excluded by explicit assumptions in the main harnesses and witnessed each run. Outside: "
              "M2Model::parse as a whole, models with texture/attachment/camera/light tracks (14 GB), collection and layout of preserved key-frame data (only the bone "
              "relocation step is decided, on an association-list model of the HashMap), "
              "emitters, MD21 chunked files, whole-model version conversion."),
    ),
})

CLAIMED.update({
    "C11": dict(
        text=("The containment decision of `warcraft-rs mpq extract` on the real code: entry_name_is_contained - the predicate every archive entry "
              "name has to pass before an output path is built from it - accepts a name exactly when none of its components (pieces between "
              "'\\' and '/') is '..' or contains ':' and a component other than '.' exists; decided against a position-wise statement of that "
              "rule for EVERY byte string of 1..=12 bytes (24 in thorough), in both directions (no hostile name accepted, no harmless name refused)."),
        design_ref="DESIGN.md section 0.7 (C11) and section 4, C11",
        note=("Kernel-level claim only. The defect behind it (entry names were joined onto the output directory unchecked: ..\\..\\x and absolute "
              "names were written outside it) was demonstrated natively against the CLI binary (findings/C11) and repaired by fix commit a1cffec, "
              "which introduced the kernel. Outside: file-system effects of the process (symlinks, case folding, Windows device names), the "
              "PathBuf construction in extraction_relative_path (split/collect over symbolic-length pieces does not finish in CBMC; its result "
              "has normal components only because of the decided predicate and its own filter - read, not executed), call sites that might "
              "bypass the helper, other extraction paths (rebuild, storm-ffi)."),
    ),
})

NOT_APPLICABLE = {
    "C07": "rebuild is an orchestration over Archive::open + ArchiveBuilder::build through NamedTempFile/persist (file I/O and FFI); Archive::open on even one symbolic field exceeds 14 GB in CBMC; no arithmetic kernel of its own to encode (DESIGN.md section 5)",
    "C09": "quantifies over thread schedules of a rayon pool; Kani/CBMC model no concurrency and rayon's runtime is FFI (DESIGN.md section 5)",
    "C12": "quantifies over kill points and failing system calls of an OS process; the deciding code is tempfile + rename in the kernel/FFI (DESIGN.md section 5)",
    "C20": "property of whole process runs (argument parsing, error propagation to main, stdout); no unit a bounded model checker can drive (DESIGN.md section 5)",
}
for _p in []:
    NOT_APPLICABLE.setdefault(_p, WIP)

NOTES = ("Exit codes of bin/check: 0 held, 1 violation (replayed), 2 inconclusive (build error, time-out, OOM, vacuous harness, "
         "unreproduced counterexample). Known findings are listed in known-findings.json and printed as KNOWN-FINDING lines.")
