# C16 - BLP encode -> parse is exact (container arithmetic of wow-blp: header, level data, mipmap locator).
# Executed inside catalogue.py's namespace.  Measurements and findings: harness/blp/NOTES.md
CRATES["blp"] = {
    "dir": "file-formats/graphics/wow-blp",
    "attach": [
        ("src/types/header.rs", "blp/header.rs", "verif_kani_header", ""),
        # pub(crate): the encoder-side harnesses reach the parser's private kernels through these two modules
        ("src/parser/mod.rs", "blp/parser.rs", "verif_kani_parser", "pub(crate)"),
        ("src/parser/direct/mod.rs", "blp/direct.rs", "verif_kani_direct", "pub(crate)"),
        ("src/encode/mod.rs", "blp/encode.rs", "verif_kani_encode", ""),
    ],
    # `image` default features pull rav1e, which does not compile under Kani's rustc (scratch copy only)
    "rewrite": [("Cargo.toml", r'^image\s*=.*$',
                 'image = { version = "0.25", default-features = false, features = ["png", "jpeg"] }')],
}

OUTSIDE["C16"] = [
    "all of convert/ (image_to_blp, blp_to_image, generate_mipmaps, index_alpha_*, palettisation, DXT/JPEG codecs, resize filters): "
    "Kani 0.68 aborts with an internal compiler error as soon as image::imageops::resize or image_to_blp is reachable "
    "(codegen_cprover_gotoc assertion `is_rust_box_like`), so no harness can reach them; the pixel-exactness clauses "
    "(raw BGRA pixels equal, palettised colours are palette entries, alpha quantisation) are therefore NOT decided",
    "the defect found in convert/mipmap.rs::generate_mipmaps (KF-C16-mipchain-nonsquare) is shown on the converter's output "
    "structure (taken from a native run), not on generate_mipmaps itself",
    "BlpHeader::mipmaps_count() itself: its libm f32::log2 is replaced by an integer model in the multi-level (c16e_*) harnesses; "
    "that floor(log2) == `log2() as usize` for every side 0..=70000 was checked natively by an exhaustive loop, not by the solver",
    "multi-level (has_mipmaps != 0) files with palettised or DXT levels stored inside the file: harnesses exhaust 14 GB "
    "(encode_raw's per-level temporary Vec grows by reallocation; parse_dxtn's float block count); decided only for raw BGRA "
    "(2 levels), JPEG (2 levels, internal and external) and external palettised levels (2 levels)",
    "images larger than 3x5 pixels / more than 2 levels / more than 32 bytes per DXT level; palettes: the level parsers are run with a "
    "2-entry palette, the 256-entry palette read of parse_direct_content and the public encode_blp/parse_blp entry points are not executed",
    "headers whose flag flavour or locator kind does not match the version tag (BLP0 with an internal locator, BLP2 with old flags), "
    "alpha depths outside the documented sets for BLP0/BLP1 (the parser normalises them to 0), mipmap tables whose offsets are not ascending "
    "(the encoder sorts the table but writes levels in level order), declared level size 0 (the encoder skips the level silently); the encoder's "
    "locator check is decided for 6 concrete (offset, size) pairs only",
    "offset + size overflowing 32 bits in parser::bounds::check_bounds / parse_dxtn (hostile input, belongs to C05): panics in dev and release",
    "file-system entry points save_blp / load_blp and external mipmap file naming",
]

_BH = "verif_kani_header"
_BP = "verif_kani_parser"
_BD = "verif_kani_direct"
_BE = "verif_kani_encode"
LOG2 = ("f32::log2 -> integer model floor(log2 x) (0 for x < 1); equals `(x as f32).log2() as usize` of libm for every integer x in 0..=70000 "
        "(exhaustive native loop); CBMC's own log2f over-approximates. Native replay of a counterexample runs the real log2")
FMT_BLP = "std::fmt::format -> String::new() (message text is never the subject)"
_hdr_fns = ["encode::encode_header", "parser::header::parse_header", "parser::header::parse_magic", "parser::header::parse_mipmap_locator",
            "parser::reader::Cursor::{read_u8,read_u32_le,read_into}", "parser::reader::read_u32_array", "types::version::BlpVersion::{to_magic,from_magic}",
            "types::header::{BlpContentTag,Compression,AlphaType} conversions", "types::header::BlpHeader::size"]

# ------------------------------------------------------------------------------- C16.a
H("C16", "blp", "verif_kani_direct", "thorough", "C16.c BLP2 DXT content: the variant (DXT1/3/5) follows the alpha type alone (0/1/7 as published), for every alpha-depth byte; the level is read with that variant's block size",
  ["c16c_dxt_variant_follows_alpha_type"], ["parser::direct::parse_direct_content", "parser::direct::blp2::parse_dxtn"],
  "alpha type symbolic over {None, OneBit, Enhanced}, alpha depth u8 symbolic, 16 level bytes symbolic; zero palette", "4x4 image, no mipmaps, 1040-byte file",
  stubs=["::std::fmt::format -> String::new()"], timeout=2400)
H("C16", "blp", _BH, "quick", "C16.a mipmap chain: level i+1 halves each side of level i (min 1), level 0 is the image; the chain reaches 1x1 exactly at "
  "level floor(log2(max(w,h))) <= 15 and stays there",
  ["c16a_mipmap_size_halves_each_side", "c16a_chain_reaches_1x1_at_log2_max"], ["types::header::BlpHeader::mipmap_size"],
  "width, height: u32 symbolic in 1..=65535; level index symbolic", "sides <= 65535 (BLP_MAX_WIDTH/HEIGHT), level <= 16",
  assumes=["1 <= width, height <= 65535"], stubs=[FMT_BLP])
H("C16", "blp", _BH, "quick", "C16.a pixel count of a level == product of its sides, no 32-bit overflow, non-increasing along the chain; "
  "level byte sizes (w*h indices + ceil(w*h*alpha/8) alpha bytes, 4*w*h BGRA bytes) computed with the parsers' expression are exact and fit the 32-bit size table",
  ["c16a_mipmap_pixels_exact", "c16a_level_byte_sizes_fit_u32"], ["types::header::BlpHeader::{mipmap_pixels,mipmap_size,alpha_bits}", "types::header::BlpFlags::alpha_bits"],
  "width, height symbolic; level symbolic in 0..=15; alpha depth symbolic in {0,1,4,8}",
  "sides <= 65535 for the pixel count; sides <= 512 (the property's image domain) for the byte sizes",
  assumes=["1 <= width, height <= 65535 (pixels) / <= 512 (byte sizes)", "alpha depth in {0,1,4,8}"], stubs=[FMT_BLP])
H("C16", "blp", _BH, "quick", "C16.a header sizes are those of the published format (BLP0 28, BLP1 156, BLP2 148 bytes); content / compression / alpha-type "
  "tags survive decode->encode and have the published values",
  ["c16a_header_size_constants", "c16a_tag_codecs_inverse"], ["types::header::BlpHeader::size", "types::header::{BlpContentTag,Compression,AlphaType}::{try_from,from}"],
  "tag value u32 / u8 fully symbolic", "none")
H("C16", "blp", _BH, "quick", "canary", ["c16_header_canary"], ["types::header::BlpHeader::mipmap_size"], "vacuity twin", "-", expect="canary")

# ------------------------------------------------------------------------------- C16.b header
H("C16", "blp", _BE, "quick", "C16.b header encode->parse: parsed header == written header (version, content tag, flags, width, height, 16 offsets, 16 sizes), "
  "bytes written == BlpHeader::size(version); one harness per version tag / flag flavour",
  ["c16b_header_roundtrip_blp0", "c16b_header_roundtrip_blp2"], _hdr_fns,
  "content tag, alpha depth, extra, has_mipmaps (u32) resp. compression, alpha depth, alpha type, has_mipmaps (u8), width, height, 16 offsets and 16 sizes all symbolic",
  "version tag concrete per harness (BLP0, BLP2); width, height <= 65535",
  assumes=["width, height <= 65535", "BLP0/BLP1: alpha depth in {0,8} for JPEG content, {0,1,4,8} for direct content (documented values; the parser normalises others to 0)",
           "flag flavour and locator kind match the version tag (BLP0: old flags + external; BLP1: old flags + internal; BLP2: BLP2 flags + internal)"],
  stubs=[FMT_BLP], timeout=900)
H("C16", "blp", _BE, "quick", "C16.b header byte layout == published format (magic, content at 4, flags at 8, width 12, height 16, BLP1 extra/has_mipmaps at 20/24, "
  "offset table at 28 resp. 20, size table at 92 resp. 84, little-endian)",
  ["c16b_header_layout_blp1", "c16b_header_layout_blp2"], ["encode::encode_header", "encode::primitives::push_le_u32", "types::version::BlpVersion::to_magic"],
  "all header fields symbolic (as above)", "version tag concrete per harness", assumes=["width, height <= 65535"], stubs=[FMT_BLP])
H("C16", "blp", _BE, "quick", "C16.b encoder refuses a side above 65535 and an external locator on BLP2",
  ["c16b_header_limits_enforced_blp2"], ["encode::encode_header"], "header symbolic; one of width / height set to a symbolic value > 65535 or the locator set to External",
  "version BLP2", stubs=[FMT_BLP])
H("C16", "blp", _BE, "thorough", "C16.b encoder refuses a side above 65535 and an external locator on BLP1",
  ["c16b_header_limits_enforced_blp1"], ["encode::encode_header"], "as for BLP2", "version BLP1", stubs=[FMT_BLP], timeout=2400)
H("C16", "blp", _BE, "thorough", "C16.b every strict prefix of an encoded header is rejected by the header parser (it needs exactly size(version) bytes)",
  ["c16b_header_truncated_blp0", "c16b_header_truncated_blp1", "c16b_header_truncated_blp2"], _hdr_fns,
  "header fields symbolic, prefix length symbolic in 0..size(version)", "version tag concrete per harness",
  assumes=["as for the header round trip"], stubs=[FMT_BLP], timeout=2400)

# ------------------------------------------------------------------------------- C16.c level data, one level
_lvl = "level bytes fully symbolic; 2 symbolic palette words; locator = the real mipmap_locator() prediction, asserted equal to header+palette+running sum and then used"
H("C16", "blp", _BP, "quick", "C16.c get_bounded_slice(input, offset, size) is Ok exactly when offset < len and offset+size <= len, and then returns input[offset..offset+size]",
  ["c16c_bounded_slice_exact"], ["parser::bounds::{get_bounded_slice,check_bounds}"], "12 symbolic input bytes, offset and size symbolic",
  "input length 12", assumes=["offset, size <= 2^31-1 (their sum fits 32 bits, as in any file the encoder wrote; overflow is hostile input -> C05)"], stubs=[FMT_BLP])
H("C16", "blp", _BP, "quick", "canary", ["c16_parser_canary"], ["parser::bounds::get_bounded_slice"], "vacuity twin", "-", expect="canary")
H("C16", "blp", _BE, "quick", "C16.c palettised level: encode_header + encode_raw1 -> parse_raw1 returns the same index and alpha planes of lengths w*h and ceil(w*h*alpha/8); "
  "level lies inside the file right after header+palette and ends the file; absent levels have zero locator entries",
  ["c16c_raw1_blp1_2x2_a8"], ["types::direct::raw1::BlpRaw1::mipmap_locator", "encode::{encode_header,encode_raw1,encode_raw,encode_raw1_image}",
   "parser::direct::blp1::parse_raw1", "parser::bounds::get_bounded_slice", "parser::reader::Cursor::read_bytes"],
  _lvl, "BLP1, 2x2, alpha 8, no mipmaps", stubs=[FMT_BLP])
H("C16", "blp", _BE, "thorough", "C16.c palettised level, non-square / odd pixel counts, alpha 0, 1 and 4, BLP1 and BLP2",
  ["c16c_raw1_blp1_3x1_a1", "c16c_raw1_blp2_3x1_a4", "c16c_raw1_blp2_3x3_a0"],
  ["types::direct::raw1::BlpRaw1::mipmap_locator", "encode::{encode_header,encode_raw1,encode_raw,encode_raw1_image}", "parser::direct::blp1::parse_raw1"],
  _lvl, "3x1 alpha 1 (BLP1), 3x1 alpha 4 (BLP2), 3x3 alpha 0 (BLP2); no mipmaps", stubs=[FMT_BLP], timeout=2400)
H("C16", "blp", _BE, "quick", "C16.c raw BGRA level: encode_header + encode_raw3 -> parse_raw3 returns the same w*h pixels; locator inside the file",
  ["c16c_raw3_3x1"], ["types::direct::raw3::BlpRaw3::mipmap_locator", "encode::{encode_header,encode_raw3,encode_raw,encode_raw3_image}",
   "parser::direct::blp2::parse_raw3", "parser::reader::read_u32_array"], _lvl, "BLP2, 3x1, no mipmaps", stubs=[FMT_BLP])
H("C16", "blp", _BE, "thorough", "C16.c raw BGRA level 2x2", ["c16c_raw3_2x2"],
  ["types::direct::raw3::BlpRaw3::mipmap_locator", "encode::{encode_header,encode_raw3}", "parser::direct::blp2::parse_raw3"], _lvl, "BLP2, 2x2, no mipmaps",
  stubs=[FMT_BLP], timeout=2400)
H("C16", "blp", _BD, "quick", "C16.c parse_dxtn takes exactly ceil(w/4)*ceil(h/4)*block_size bytes at the stored offset and returns them unchanged",
  ["c16c_dxt1_level0_4x4", "c16c_dxt5_level0_2x2"], ["parser::direct::blp2::parse_dxtn", "types::direct::dxtn::DxtnFormat::block_size"],
  "level bytes symbolic (8 resp. 16), offset of the level inside a 64-byte file symbolic", "DXT1 4x4, DXT5 2x2; no mipmaps",
  assumes=["every side is a multiple of 4 or both sides <= 4 (known finding KF-C16-dxt-blocks excluded)"], stubs=[FMT_BLP])
H("C16", "blp", _BD, "thorough", "C16.c parse_dxtn, 2- and 4-block levels", ["c16c_dxt3_level0_8x4", "c16c_dxt1_level0_8x8"],
  ["parser::direct::blp2::parse_dxtn"], "32 symbolic level bytes, symbolic offset", "DXT3 8x4, DXT1 8x8; no mipmaps",
  assumes=["sides multiples of 4 (KF-C16-dxt-blocks excluded)"], stubs=[FMT_BLP], timeout=2400)
H("C16", "blp", _BD, "quick", "C16.c witness: 6x6 DXT1 level (2x2 blocks, 32 bytes) is read back as ceil(36/16) = 3 blocks", ["c16c_dxt1_level0_6x6_witness"],
  ["parser::direct::blp2::parse_dxtn"], "concrete shape 6x6 DXT1; level bytes symbolic", "one shape", stubs=[FMT_BLP], expect="witness:KF-C16-dxt-blocks")
H("C16", "blp", _BD, "quick", "canary", ["c16_direct_canary"], ["parser::direct::blp2::parse_dxtn"], "vacuity twin", "-", expect="canary")
H("C16", "blp", _BE, "quick", "C16.c DXT level: encode_header + encode_dxtn -> parse_dxtn returns the same bytes; the palette area the DXT encoder skips is the zero palette; "
  "locator inside the file", ["c16c_dxt1_4x4"],
  ["types::direct::dxtn::BlpDxtn::mipmap_locator", "encode::{encode_header,encode_dxtn}", "parser::direct::blp2::parse_dxtn"], _lvl + " (zero palette)",
  "BLP2 DXT1 4x4, no mipmaps", assumes=["sides multiples of 4 (KF-C16-dxt-blocks excluded)"], stubs=[FMT_BLP])
H("C16", "blp", _BE, "thorough", "C16.c DXT5 8x4 level through encoder and parser", ["c16c_dxt5_8x4"],
  ["types::direct::dxtn::BlpDxtn::mipmap_locator", "encode::{encode_header,encode_dxtn}", "parser::direct::blp2::parse_dxtn"], _lvl + " (zero palette)",
  "BLP2 DXT5 8x4, no mipmaps", assumes=["sides multiples of 4"], stubs=[FMT_BLP], timeout=2400)
H("C16", "blp", _BE, "thorough", "C16.c witness: 8x2 DXT1 level (2x1 blocks, 16 bytes) written by the encoder is parsed back as 1 block", ["c16c_dxt1_8x2_witness"],
  ["encode::encode_dxtn", "parser::direct::blp2::parse_dxtn"], "concrete shape 8x2 DXT1; level bytes symbolic", "one shape", stubs=[FMT_BLP],
  expect="witness:KF-C16-dxt-blocks", timeout=2400)
H("C16", "blp", _BE, "quick", "C16.c JPEG content: encode_header + encode_jpeg -> parse_jpeg_content returns the same header chunk and level; size field == chunk length "
  "without the 2 padding bytes; locator inside the file", ["c16c_jpeg_blp1_5x3"],
  ["types::jpeg::BlpJpeg::mipmap_locator", "encode::{encode_header,encode_jpeg}", "parser::jpeg::parse_jpeg_content", "parser::bounds::get_bounded_slice"],
  "4+2 symbolic header-chunk bytes, one level of 5 symbolic bytes", "BLP1 5x3, no mipmaps", stubs=[FMT_BLP])
H("C16", "blp", _BE, "thorough", "C16.c JPEG content: BLP2 (empty header chunk) and BLP0 (level in an external file)", ["c16c_jpeg_blp2_1x1", "c16c_jpeg_blp0_5x3"],
  ["types::jpeg::BlpJpeg::mipmap_locator", "encode::{encode_header,encode_jpeg}", "parser::jpeg::parse_jpeg_content"],
  "header chunk 0+2 / 4+2 symbolic bytes, level 3 / 5 symbolic bytes", "BLP2 1x1; BLP0 5x3; no mipmaps", stubs=[FMT_BLP], timeout=2400)
H("C16", "blp", _BE, "quick", "C16.c BLP0 palettised level goes to an external file and is read back unchanged; the root file holds only header and palette",
  ["c16c_blp0_raw1_3x2_a1"], ["encode::{encode_header,encode_raw1,encode_raw}", "parser::direct::blp0::{parse_blp0,parse_raw1_image}"],
  "6 index bytes, 1 alpha byte, 2 palette words symbolic", "BLP0 3x2 alpha 1, no mipmaps", stubs=[FMT_BLP])

# ------------------------------------------------------------------------------- C16.d encoder-side locator check
H("C16", "blp", _BE, "quick", "C16.d encoder's locator check (no mipmaps): offset below the bytes already written -> InvalidOffset; declared size != encoded level -> "
  "InvalidMipmapSize; otherwise the level lands exactly at `offset` behind zero padding, ends the file, palette word little-endian before it, earlier bytes untouched; "
  "entries of absent levels are ignored",
  ["c16d_locator_offset_below_filled_rejected", "c16d_locator_wrong_size_rejected", "c16d_locator_consistent_level_placed"],
  ["encode::{encode_raw1,encode_raw,encode_raw1_image}"],
  "(offset, declared size) concrete: (7,3) (0,3) below the 8 bytes already written; (8,2) (11,4) wrong size; (8,3) exact and (11,3) with 3 padding bytes; "
  "the 15 other offset/size entries, 3 level bytes, 1 palette word and the 4 preceding bytes symbolic",
  "one level of 3 bytes (2x1, alpha 4), 4 bytes + 1 palette word already written; symbolic offset/size do not finish (symbolic-length Vec in the encoder)",
  stubs=[FMT_BLP])

# ------------------------------------------------------------------------------- C16.e complete mipmap chains (log2 model)
H("C16", "blp", _BE, "quick", "C16.e raw BGRA with the complete chain (2 levels): levels are stored back to back in level order without overlap, the last one ends the file, "
  "parser returns both levels unchanged", ["c16e_raw3_2x2_mips"],
  ["types::header::BlpHeader::mipmaps_count", "types::direct::raw3::BlpRaw3::mipmap_locator", "encode::{encode_raw3,encode_raw}", "parser::direct::blp2::parse_raw3"],
  "4 + 1 symbolic pixels, 2 palette words; header area zero-filled (encode_header has its own harnesses)", "BLP2 2x2, has_mipmaps = 1, 2 levels",
  stubs=[FMT_BLP, LOG2])
H("C16", "blp", _BE, "thorough", "C16.e JPEG with the complete chain (2 levels), internal (BLP1) and external (BLP0): same header chunk, same levels in the same order, "
  "internal levels back to back inside the file",
  ["c16e_jpeg_blp1_2x3_mips", "c16e_jpeg_blp0_3x2_mips"],
  ["types::header::BlpHeader::mipmaps_count", "types::jpeg::BlpJpeg::mipmap_locator", "encode::{encode_header,encode_jpeg}", "parser::jpeg::parse_jpeg_content"],
  "header chunk 3+2 symbolic bytes, levels of 5 and 4 (BLP1) / 4 and 4 (BLP0) symbolic bytes", "2x3 and 3x2, has_mipmaps = 1, 2 levels", stubs=[FMT_BLP, LOG2], timeout=2400)
H("C16", "blp", _BE, "thorough", "C16.e BLP0 palettised with the complete chain (2 levels) in external files", ["c16e_blp0_raw1_2x2_a4_mips"],
  ["types::header::BlpHeader::mipmaps_count", "encode::{encode_header,encode_raw1,encode_raw}", "parser::direct::blp0::{parse_blp0,parse_raw1_image}"],
  "levels 4+2 and 1+1 symbolic bytes", "BLP0 2x2 alpha 4, has_mipmaps = 1", stubs=[FMT_BLP, LOG2], timeout=2400)
# c16e_jpeg_blp1_4x1_converter_chain_witness is no longer registered: it feeds the encoder a structure copied from the
# (then defective) converter's output rather than running the converter, so it cannot pass once
# generate_mipmaps is fixed (KF-C16-mipchain-nonsquare, fixed in /repo; convert/ itself cannot be compiled by Kani).
H("C16", "blp", _BE, "quick", "canary", ["c16_encode_canary"], ["encode::encode_header"], "vacuity twin", "-", expect="canary")
H("C16", "blp", _BE, "thorough", "C16.b header encode->parse, BLP1 (old flags + internal locator)", ["c16b_header_roundtrip_blp1"], _hdr_fns,
  "content tag, alpha depth, extra, has_mipmaps, width, height, 16 offsets and 16 sizes symbolic", "version BLP1; width, height <= 65535",
  assumes=["width, height <= 65535", "alpha depth in {0,8} for JPEG content, {0,1,4,8} for direct content", "old flags + internal locator"], stubs=[FMT_BLP], timeout=2400)

# one time-out group per tier, so that a tier is a single `cargo kani -j` run
for _h in _H:
    if _h["prop"] == "C16":
        _h["timeout"] = 900 if _h["tier"] == "quick" else 2400
