# C08.d - patch chain ordering / resolution on the real text of src/patch_chain.rs.
# Executed inside catalogue.py's namespace.
#
# gen/patch_chain_m.rs is a DERIVED COPY of patch_chain.rs (regenerated from the copied sources on every run): the
# repository's text with `Archive` taken from the model in harness/mpq/chain_env.rs and `HashMap` from the
# association-list model harness/env/amap.rs; harness/mpq/chain_peek.rs (observers of the private fields, a
# constructor for the step harnesses) is include!d at its top.  If one of the two `use` lines of patch_chain.rs
# changes shape the run is inconclusive (pattern no longer matches), never silently different.
#
# STATUS (2026-09-30): NO harness of this fragment is registered.  The module is attached and the derived copy is generated so
# that harness/mpq/chain_model.rs keeps compiling against the current patch_chain.rs (under Kani and under `cargo kani
# playback`), but none of its harnesses produced a verdict within 10 minutes / 8 GB on this machine (measurements in the
# registration block at the end, which is disabled by _C08_CHAIN_REGISTER).  Set _C08_CHAIN_ATTACH = False to drop the
# attach/derive entries as well (then a change of the two `use` lines of patch_chain.rs cannot make mpq runs inconclusive).
_C08_CHAIN_ATTACH = False
_C08_CHAIN_REGISTER = False
if _C08_CHAIN_ATTACH:
    CRATES["mpq"]["attach"].append(("src/patch_chain.rs", "mpq/chain_model.rs", "verif_kani_chain_model", ""))
    CRATES["mpq"]["derive"].append(
        ("src/patch_chain.rs", "gen/patch_chain_m.rs",
         [(r"^use crate::\{Archive, ", "use super::model::Archive;\nuse crate::{"),
          (r"^use std::collections::HashMap;$", "use super::amap::AMap as HashMap;"),
          # the repository's inline test module (real files, tempfile) makes no sense against the model Archive; the
          # optional group lets the pattern match (empty, at the end) when the module is gone
          (r"(?s)(^#\[cfg\(test\)\]\s*\nmod integration_tests \{.*)?\Z", "")],
         'include!("../mpq/chain_peek.rs");'))

_CM = "verif_kani_chain_model"
_CM_FNS = ["patch_chain::PatchChain::{new,add_archive,remove_archive,set_priority,rebuild_file_map,read_file,contains_file,find_file_archive} "
           "(text of src/patch_chain.rs, derived copy)", "path::normalize_mpq_path (stubbed, see stubs)"]
_CM_STUBS = [FMT,
             "Archive -> model (harness/mpq/chain_env.rs): path a/b/c -> registry slot holding <= 2 files (names X, Y; archive b lists them "
             "in lower case; an absent name is listed as the never-queried filler name P so that every listing has exactly two entries), one "
             "symbolic content byte each, never a patch file, lookups case-insensitive, list() always succeeds; open() fails for any other "
             "path; get_info() always fails",
             "crate::path::normalize_mpq_path -> the same '/' -> '\\' mapping for one-byte names without std's str::replace (longer name: assertion)",
             "str::to_uppercase -> ASCII upper-casing of a one-byte ASCII name (anything else: assertion); std's version walks the Unicode tables",
             "std::collections::HashMap -> association-list model (harness/env/amap.rs), at most 3 keys",
             "derived copy: only the two `use` lines of patch_chain.rs are substituted, the `#[cfg(test)]` modules are cut; "
             "observers of the private fields are include!d (harness/mpq/chain_peek.rs)"]
_CM_RULE = ("reference model: archives ordered by priority descending, equal priorities by age ascending, age = time of add_archive or of the "
            "last set_priority (assumed tie rule: a re-prioritised archive counts as added last among its new equals, i.e. set_priority == "
            "remove + add; the doc comments state no rule); a name resolves to the first archive in that order that holds it")
_CM_IN = ("three archives a, b, c: presence of X and of Y and one content byte each symbolic (12 symbolic values); priorities i32 symbolic "
          "(ties possible); names queried: X, y (lower case), Z (in no archive)")

# Measured on the unchanged tree (Kani 0.68 / CBMC 6.11, VERIF_MEM_GB=12, 5-6 harnesses in parallel), none finished:
#   run 1 (no stubs besides fmt; symbolic-length listings; unwind 6): all six, c08d_canary (two add_archive calls) included,
#         still in symbolic execution after 14 min at 4.5 GB each - str::replace (CharSearcher/memchr) and str::to_uppercase
#         (Unicode table binary searches) dominate; killed
#   run 2 (normalize_mpq_path and to_uppercase stubbed by one-byte versions, two-entry listings, AMap pre-sized, unwind 4):
#         c08d_canary: CBMC aborted at the 12 GB cap after ~4.5 min (memory explodes once symbolic execution is over);
#         c08d_chain_history_3 9 GB after 22 min; the three step harnesses and c08d_chain_unknown_archive_2 5-5.6 GB after
#         22 min, all still running when killed (machine-wide OOM)
#   probe with CONCRETE priorities (two add_archive calls, only contents symbolic): 4 GB after 4 min, killed
#   verbose CBMC trace of one rebuild_file_map over three model archives: ~2 min of symbolic execution; every slice / IntoIter
#   loop is unrolled to the unwind bound (pointer-compared iterators), 7-10 s per iteration of `for file in files`, and
#   the time per iteration grows with the number of heap objects (String keys, FileEntry names, Vec buffers)
# Next step that should make this tractable: substitute `Vec<ChainEntry>` (and, if needed, the String keys) by bounded-array
# models in the derived copy as well (the parallel constructors, which assign a real Vec to the field, would have to be cut out).
if _C08_CHAIN_REGISTER:
  H("C08", "mpq", _CM, "thorough",
    "C08.d history: add a, b, c with any priorities, then one of {set_priority(any of them, any priority), remove_archive(any of them), nothing}: "
    "after every step the chain lists exactly the live archives by priority descending (equals in age order); read_file returns the content of the "
    "highest-priority (earliest added) archive holding the name, contains_file / find_file_archive agree, a name in no archive is Err(FileNotFound)",
    ["c08d_chain_history_3"], _CM_FNS, _CM_IN + "; operation selector, operand archive and new priority symbolic",
    "3 archives added in the order a, b, c; one further operation; 2 file names + 1 absent name; unwind 4",
    assumes=[_CM_RULE], stubs=_CM_STUBS, abstraction_stubs=["Archive (model)"], timeout=2400)
  H("C08", "mpq", _CM, "thorough",
    "C08.d inductive step: from any chain [a, b, c] sorted by priority descending (file map built by the real rebuild_file_map) one set_priority / "
    "one remove_archive keeps the order invariant and the resolution semantics; from any sorted [a, b] one add_archive(c, any priority) does",
    ["c08d_chain_step_reprio_3", "c08d_chain_step_remove_3", "c08d_chain_step_add_2to3"], _CM_FNS,
    _CM_IN + "; operand archive and new priority symbolic",
    "start chain fabricated in the positional order a, b, c (the archives differ only in the model's listing decorations); one operation; unwind 4",
    assumes=[_CM_RULE, "start state: priorities non-increasing along the chain, among equals the earlier position is the older archive"],
    stubs=_CM_STUBS, abstraction_stubs=["Archive (model)"], timeout=2400)
  H("C08", "mpq", _CM, "thorough",
    "C08.d operations naming an archive that cannot be opened (add_archive) or is not in the chain (remove_archive -> Ok(false), set_priority -> Err) "
    "leave order and resolution unchanged",
    ["c08d_chain_unknown_archive_2"], _CM_FNS, _CM_IN + "; chain [a, b], priority argument symbolic", "2 archives; unwind 4",
    assumes=[_CM_RULE], stubs=_CM_STUBS, abstraction_stubs=["Archive (model)"], timeout=2400)
  H("C08", "mpq", _CM, "thorough", "canary", ["c08d_canary"], ["patch_chain::PatchChain::add_archive (derived copy)"], "vacuity twin", "-",
    expect="canary", stubs=_CM_STUBS, abstraction_stubs=["Archive (model)"], timeout=2400)
