# C15 - WMO root and group files survive write -> parse unchanged (crate file-formats/graphics/wow-wmo)
# Notes, measured times and the findings: harness/wmo/NOTES.md
CRATES["wmo"] = {
    "dir": "file-formats/graphics/wow-wmo",
    "attach": [
        ("src/writer.rs", "wmo/writer.rs", "verif_kani_writer", ""),
        ("src/parser.rs", "wmo/parser.rs", "verif_kani_parser", "pub(crate)"),
        ("src/converter.rs", "wmo/converter.rs", "verif_kani_converter", ""),
        ("src/chunk_discovery.rs", "wmo/discovery.rs", "verif_kani_discovery", ""),
    ],
    # Applied to the scratch copy only.  If an anchor disappears the copy no longer compiles and the check exits 2.
    "rewrite": [
        # visibility only: lets the parser-/discovery-side harnesses call the private chunk writers directly (<= 64-byte buffers)
        ("src/writer.rs", r"^    fn write_(?!u8|u16_le|u32_le|i16_le|i32_le|f32_le)", "    pub(crate) fn write_"),
        # hashbrown is not executable under CBMC in reasonable time: the chunk-table type private to parser.rs is replaced by an
        # inline association list with the same new/insert/get contract (wmo/common.rs VMap); read_chunks/parse_* bodies untouched
        ("src/parser.rs", r"HashMap<ChunkId, Chunk>", "ChunkTable"),
        ("src/parser.rs", r"let mut chunks = HashMap::new\(\);", "let mut chunks = ChunkTable::new();"),
        ("src/parser.rs", r"^use std::collections::HashMap;$",
         "use std::collections::HashMap;\npub(crate) type ChunkTable = self::verif_kani_parser::common::VMap<ChunkId, Chunk>;"),
    ],
}

_WW = "verif_kani_writer"
_WP = "verif_kani_parser"
_WC = "verif_kani_converter"
_WD = "verif_kani_discovery"
_TR = "tracing DefaultCallsite::interest -> never, __macro_support::__is_enabled -> false, Event::dispatch -> no-op (environment model: no subscriber installed, MAX_LEVEL = OFF; cuts never-executed dispatch code that crashes Kani's compiler)"
_FDD = "std::fmt::format -> the fixed string \"dd\" (abstraction of the synthesised doodad names doodad_<n>)"
_TAB = "scratch-copy rewrite: parser.rs chunk table HashMap<ChunkId,Chunk> -> inline association list VMap with the same new/insert/get contract (hashbrown not executable under CBMC)"
_VIS = "scratch-copy rewrite: private WmoWriter::write_* made pub(crate) (visibility only)"
_LOSSY = "String::from_utf8_lossy -> identity on the (ASCII) input"
_V5 = "target version symbolic in Classic..MoP"

# ----------------------------------------------------------------------------- C15.a chunk framing per writer (quick)
H("C15", "wmo", _WW, "quick", "C15.a MOMT: declared size == bytes written == n x 64, record offsets (1 and 2 materials, MoP and later)",
  ["c15a_momt_framing_1", "c15a_momt_framing_2"], ["writer::WmoWriter::write_materials", "chunk::ChunkHeader::write"],
  "every material field symbolic (flags via from_bits_truncate); version symbolic in MoP..WarWithin (1 material) / MoP (2)", "1 and 2 materials",
  assumes=["target version >= MoP (known finding KF-C15-momt-size excluded)"], stubs=[FMT])
H("C15", "wmo", _WW, "quick", "C15.a witness: MOMT for Classic declares 40 bytes per material and writes 64", ["c15a_momt_framing_witness"],
  ["writer::WmoWriter::write_materials"], "concrete: one default material, Classic", "one input", stubs=[FMT], expect="witness:KF-C15-momt-size")
H("C15", "wmo", _WW, "quick", "C15.a MOGI framing (n x 32) and record as chunks::MogiEntry reads it (flags, bounding box)",
  ["c15a_mogi_framing_1", "c15a_mogi_framing_2"], ["writer::WmoWriter::write_group_info", "chunks::MogiEntry::read"],
  "group flags and bounding box symbolic; " + _V5, "1 and 2 groups (names empty: not written by this chunk)", stubs=[FMT])
H("C15", "wmo", _WW, "quick", "C15.a MOPR / MOPV+MOPT / MOVV+MOVB / MOLT / MODS / MODN+MODD: chunks tile the bytes written, payload == n x record size, "
  "records as the crate's binrw readers see them (field order, BGRA colours), offset tables address their data",
  ["c15a_mopr_framing", "c15a_portals_framing", "c15a_portal_vertex_ranges", "c15a_visible_lists_framing", "c15a_molt_framing_and_entry",
   "c15a_mods_framing_and_entry", "c15a_doodad_defs_framing"],
  ["writer::WmoWriter::{write_portal_references,write_portals,write_visible_block_lists,write_lights,write_doodad_sets,write_doodad_definitions}",
   "chunks::{MoprEntry,MoptEntry,MopvEntry,MoltEntry,ModsEntry,ModdEntry}::read"],
  "element contents symbolic (portal: two symbolic vertices with normal (0,0,1); vertex ranges of 4 portals with concrete contents; lists [a,b],[],[c]; "
  "2 lights; set name 3 ASCII bytes; 1 doodad); " + _V5 + " where the writer takes one",
  "1-4 elements per list, buffers <= 160 bytes", stubs=[FMT, _FDD])
H("C15", "wmo", _WW, "quick", "C15.c string chunks MOTX / MOGN / MOSB: declared size == sum(len+1), names NUL-terminated at the running offsets",
  ["c15c_motx_mogn_mosb_framing"], ["writer::WmoWriter::{write_textures,write_group_names,write_skybox}"],
  "two names of 3 and 2 symbolic non-NUL ASCII bytes (covers shared prefixes)", "2 names", stubs=[FMT])
H("C15", "wmo", _WW, "thorough", "C15.c MODD name offsets are the running sums of the name lengths and address name starts in MODN", ["c15c_doodad_name_table"],
  ["writer::WmoWriter::write_doodad_definitions"], "3 doodads with concrete contents", "3 doodads", stubs=[_FDD], timeout=2400)
H("C15", "wmo", _WW, "quick", "C15.c witness: MOGI name offset is 0 for every group", ["c15c_mogi_name_offset_witness"],
  ["writer::WmoWriter::{write_group_names,write_group_info}"], "concrete: groups \"ab\", \"cd\"", "one input", stubs=[FMT], expect="witness:KF-C15-mogi-nameoff")
H("C15", "wmo", _WW, "quick", "C15.a group chunks MOVT / MONR / MOTV / MOVI / MODR / MOCV / MOBA / MOBN: framing n x record size, element positions, "
  "MOVT/MOCV/MOBA records as the crate's binrw readers see them",
  ["c15a_group_vectors_framing", "c15a_group_scalars_framing", "c15a_moba_framing_and_entry", "c15a_mobn_framing"],
  ["writer::WmoWriter::{write_vertices,write_normals,write_texture_coords,write_indices,write_doodad_refs,write_vertex_colors,write_batches,write_bsp_nodes}",
   "chunks::{MovtEntry,MocvEntry,MobaEntry}::read"],
  "all element contents symbolic (f32 any bit pattern, compared by bits)", "2-3 elements per list", stubs=[FMT])
H("C15", "wmo", _WW, "quick", "C15.a witness: MLIQ declares a 32-byte header and writes 40", ["c15a_mliq_framing_witness"], ["writer::WmoWriter::write_liquid"],
  "concrete: 1x1 liquid, Classic", "one input", stubs=[FMT], expect="witness:KF-C15-mliq-size")
H("C15", "wmo", _WW, "quick", "C15.a witness: BSP node written by write_bsp_nodes read by chunks::MobnEntry", ["c15a_mobn_vs_entry_witness"],
  ["writer::WmoWriter::write_bsp_nodes", "chunks::MobnEntry::read"], "concrete: z-plane node, distance 5, children 7/9, faces 3/2", "one input", stubs=[FMT],
  expect="witness:KF-C15-mobn-layout")
# ----------------------------------------------------------------------------- C15.b root framing / counts
H("C15", "wmo", _WW, "quick", "C15.b write_root: MVER+MOHD of a root with empty lists for all 11 versions (raw version, counts 0, HAS_SKYBOX clear); "
  "HAS_SKYBOX in MOHD <=> MOSB chunk written <=> skybox present and version >= WotLK",
  ["c15b_root_empty_all_versions", "c15b_skybox_flag_iff_chunk"],
  ["writer::WmoWriter::{write_root,write_version,write_header,write_skybox}", "version::WmoVersion::{to_raw,supports_feature}"],
  "version symbolic over all 11; stale header counts, flags, ambient colour, bounding box symbolic; skybox presence symbolic", "no list elements", stubs=[FMT, RS])
H("C15", "wmo", _WW, "quick", "C15.b write_root on a small root (2 portal refs, 1 light): chunks tile the file, MOHD counts == list lengths == records implied by chunk sizes",
  ["c15b_root_small_counts_and_tiling"], ["writer::WmoWriter::{write_root,write_header,write_portal_references,write_lights}"],
  _V5 + "; stale header counts/flags/colour/box symbolic; element contents concrete", "4 chunks, 160 bytes", stubs=[FMT, RS])
H("C15", "wmo", _WW, "thorough", "C15.b write_root on a root with every fixed-record list populated: the reference chunk walker tiles the file in the expected chunk order, MOHD "
  "counts == list lengths (not the stale header fields) == records implied by the chunk sizes, HAS_SKYBOX with MOSB",
  ["c15b_root_counts_and_tiling", "c15b_root_tiling_classic"], ["writer::WmoWriter::write_root and the root chunk writers for MOMT, MOSB, MOPR, MOLT, MODS"],
  "fixed-record lists populated with lengths 1-3 (materials 2, portal refs 2, lights 3, sets 2) + skybox, element contents concrete; lists whose chunk size "
  "depends on element data (names, portal vertices, visible lists, synthesised doodad names) empty - covered per chunk; versions MoP / Classic", "one root shape, 7 / 4 chunks, ~480 bytes",
  assumes=["pre-MoP variant has no materials (known finding KF-C15-momt-size)"], stubs=[_FDD, RS], timeout=2400)
# ----------------------------------------------------------------------------- C15.d group
H("C15", "wmo", _WW, "quick", "C15.d write_group: MOGP size back-patched to the bytes that follow; sub-chunks MOVT,MOVI,MONR,MOTV,MOCV,MOBA,MOBN,MODR tile the payload "
  "after the group header; empty group declares just its header", ["c15d_group_backpatch", "c15d_group_backpatch_empty"],
  ["writer::WmoWriter::write_group and every group chunk writer except write_liquid"], "one element per list, contents symbolic; " + _V5 + " / all 11 (empty group)",
  "1 vertex, 3 indices, 1 batch, 1 BSP node, no liquid",
  assumes=["sub-chunks are looked for 36 bytes after the MOGP header, where this writer puts them (known finding KF-C15-mogp-header)"], stubs=[FMT])
H("C15", "wmo", _WW, "quick", "C15.d witness: group header written is 36 bytes, WmoGroupHeader::SIZE / the format 68", ["c15d_group_header_size_witness"],
  ["writer::WmoWriter::write_group", "wmo_group_types::WmoGroupHeader::SIZE"], "concrete: group with one vertex", "one input", stubs=[FMT], expect="witness:KF-C15-mogp-header")
H("C15", "wmo", _WW, "quick", "C15.d witness: WmoGroupParser::parse_group rejects every group file (stub)", ["c15d_group_legacy_parser_witness"],
  ["writer::WmoWriter::write_group", "group_parser::WmoGroupParser::parse_group"], "concrete: group with one vertex", "one input", stubs=[FMT],
  expect="witness:KF-C15-group-parser-stub")
H("C15", "wmo", _WW, "quick", "C15.b witness: MOHD payload is 60 bytes, the format / root_parser::Mohd 64", ["c15b_mohd_size_witness"],
  ["writer::WmoWriter::write_header"], "concrete: empty root, Classic", "one input", stubs=[FMT, RS], expect="witness:KF-C15-mohd-size")
H("C15", "wmo", _WW, "quick", "canary", ["c15_writer_canary"], ["writer::WmoWriter::write_indices"], "vacuity twin", "-", expect="canary", stubs=[FMT])
H("C15", "wmo", _WW, "quick", "C15.a MOMT record layout against the format's SMOMaterial (as chunks::MomtEntry declares it): field offsets, zero tail", ["c15a_momt_record_layout"],
  ["writer::WmoWriter::write_materials"], "every material field symbolic, MoP", "1 material", stubs=[FMT])

# ----------------------------------------------------------------------------- writer -> real private parser (WmoParser)
_PS = [FMT, _TR, _TAB, _VIS]
H("C15", "wmo", _WP, "quick", "C15.a(T) element written by the real chunk writer comes back equal from the real private parser (WmoParser::parse_*) through a "
  "one/two-entry chunk table; parser consumes exactly the record written",
  ["c15p_materials_roundtrip", "c15p_lights_roundtrip", "c15p_portal_refs_roundtrip", "c15p_portals_roundtrip", "c15p_visible_lists_roundtrip",
   "c15p_doodad_defs_roundtrip", "c15p_doodad_sets_roundtrip", "c15p_group_info_roundtrip_1"],
  ["parser::WmoParser::{parse_materials,parse_lights,parse_portal_references,parse_portals,parse_visible_block_lists,parse_doodad_defs,parse_doodad_sets,parse_group_info,get_string_at_offset}",
   "chunk::Chunk::{seek_to_data,read_data}", "writer::WmoWriter::write_* of the same chunk", "wmo_types::WmoLightType::from_raw"],
  "every on-disk field of the element symbolic (1 material, 1 light, 2 portal refs, 1 portal with 2 vertices, lists [a,b],[],[c], 1 doodad, 1 set, 1 group); " + _V5 +
  "; chunk position/size literals checked against the written bytes",
  "one element (two for MOPR), buffers <= 64 bytes (MOMT 72)",
  assumes=["visible-list elements != 0xFFFF (in-band terminator)", "doodad name_offset == 0 (known finding KF-C15-doodad-nameoff)",
           "group / doodad-set names concrete (the parser scans them for NUL)", "portal normal (0,0,1) (the writer multiplies normal by vertex)"],
  stubs=_PS + [_FDD, _LOSSY])
H("C15", "wmo", _WP, "quick", "C15.b(T) MOHD written by write_root -> parse_header: counts, ambient colour, flags (HAS_SKYBOX cleared without skybox)",
  ["c15p_header_roundtrip"], ["parser::WmoParser::parse_header", "writer::WmoWriter::{write_root,write_header}"],
  "header flags, ambient colour, stale counts, bounding box symbolic; " + _V5, "root without list elements (80 bytes)", stubs=_PS + [RS])
H("C15", "wmo", _WP, "quick", "C15.c witness: doodad name offset after write -> parse_doodad_defs", ["c15p_doodad_name_offset_witness"],
  ["writer::WmoWriter::write_doodad_definitions", "parser::WmoParser::parse_doodad_defs"], "concrete: one doodad with name_offset 5", "one input", stubs=_PS + [_FDD],
  expect="witness:KF-C15-doodad-nameoff")
H("C15", "wmo", _WP, "quick", "C15 witness: skybox of a WotLK root after write_root -> parse_header/parse_skybox", ["c15p_skybox_witness"],
  ["writer::WmoWriter::write_root", "parser::WmoParser::{parse_header,parse_skybox}", "version::WmoVersion::from_raw"], "concrete: skybox \"s\", WotLK", "one input",
  stubs=_PS + [RS, _LOSSY], expect="witness:KF-C15-skybox-v17")
H("C15", "wmo", _WP, "quick", "C15 witness: bounding box after write_root -> parse_header / parse_group_info / calculate_global_bounding_box (the steps of parse_root)",
  ["c15p_root_bbox_witness"], ["writer::WmoWriter::write_root", "parser::WmoParser::{parse_header,parse_group_info,calculate_global_bounding_box}"],
  "concrete: empty root, box max (1,1,1)", "one input", stubs=_PS + [RS], expect="witness:KF-C15-root-bbox")
H("C15", "wmo", _WP, "quick", "canary", ["c15_parser_canary"], ["parser::WmoParser::parse_portal_references"], "vacuity twin", "-", expect="canary", stubs=_PS)
H("C15", "wmo", _WP, "quick", "C15.a(T) two portals: vertices attributed to the right portal", ["c15p_portals_roundtrip_2"],
  ["parser::WmoParser::parse_portals", "writer::WmoWriter::write_portals"], "portal 0: symbolic finite normal, vertex (1,0,0); portal 1: two symbolic vertices, normal (0,0,1)",
  "2 portals, 92 bytes", assumes=["portal 0 normal finite (Kani's NaN check fires on inf * 0 in the writer's plane-distance product)"], stubs=_PS)
H("C15", "wmo", _WP, "quick", "C15.c(T) texture names and offset table size after write_textures -> parse_textures", ["c15p_textures_roundtrip"],
  ["parser::WmoParser::parse_textures", "writer::WmoWriter::write_textures"], "concrete names \"abc\", \"ab\" (the offset table is a real std HashMap)", "2 names",
  stubs=_PS + [RS])

# ----------------------------------------------------------------------------- writer -> parse_root_file (reader behind parse_wmo)
_DS = [FMT, RS, _VIS]
H("C15", "wmo", _WD, "quick", "C15.a/b(T) chunks written by the real chunk writers -> root_parser::parse_root_file (the reader behind parse_wmo) with a literal chunk "
  "discovery: record counts from chunk sizes, field order, MOHD counts / ambient colour / bounding box",
  ["c15r_header_via_root_parser", "c15r_light_via_root_parser", "c15r_records_via_root_parser", "c15r_group_info_via_root_parser"],
  ["root_parser::parse_root_file", "root_parser::Mohd::read", "chunks::{MoltEntry,MoprEntry,ModsEntry,MogiEntry}::read", "chunks::Mogn::parse", "chunk_id::ChunkId::as_str",
   "writer::WmoWriter::{write_header,write_lights,write_portal_references,write_doodad_sets,write_group_names,write_group_info}"],
  "element contents symbolic (header flags/colour/box, 1 light, 2 portal refs + 1 set with 3-byte ASCII name, 1 group named \"grp\"); " + _V5,
  "one or two chunks, buffers <= 72 bytes",
  assumes=["MOHD: the 4 bytes following the 60 written stand for the next chunk's id; flags/num_lod not compared (known finding KF-C15-mohd-size)"], stubs=_DS)
H("C15", "wmo", _WD, "quick", "C15 witness: header flags after write_header -> parse_root_file (reader behind parse_wmo)", ["c15r_root_mohd_size_witness"],
  ["writer::WmoWriter::write_header", "root_parser::parse_root_file", "root_parser::Mohd::read"], "concrete: flags OUTDOOR, Classic; literal chunk discovery", "one input", stubs=_DS,
  expect="witness:KF-C15-mohd-size")
H("C15", "wmo", _WD, "quick", "canary", ["c15_discovery_canary"], ["root_parser::parse_root_file"], "vacuity twin", "-", expect="canary", stubs=_DS)

# ----------------------------------------------------------------------------- conversion
H("C15", "wmo", _WC, "quick", "C15.e conversion between every pair of versions succeeds, sets the version, keeps list lengths and every field except bits that do not "
  "exist in the target version (material shadow-batch bits below MoP, skybox + HAS_SKYBOX below WotLK; group flags introduced after the target; liquid format bit)",
  ["c15e_convert_root_preserves_content", "c15e_convert_group_preserves_content"],
  ["converter::WmoConverter::{convert_root,convert_group,convert_header_flags,convert_materials,convert_group_flags,upgrade_liquid_to_v2,downgrade_liquid_from_v2}"],
  "from/to (current/target) version symbolic over all 11 x 11 pairs; one material, portal ref, light, doodad with symbolic contents, skybox presence symbolic; "
  "group with one element per list and a 1x1 liquid, flags symbolic",
  "one element per list", assumes=["well-formed root: skybox only from WotLK on, HAS_SKYBOX set exactly when a skybox is present"], stubs=[FMT, RS, _TR])
H("C15", "wmo", _WC, "quick", "canary", ["c15_converter_canary"], ["converter::WmoConverter::convert_root"], "vacuity twin", "-", expect="canary", stubs=[FMT, RS, _TR])

OUTSIDE["C15"] = [
    "WmoParser::parse_root / read_chunks as a whole (tried on one concrete 390-byte root: > 10 GB; on an 80-byte root: > 5 min) - every parse_* is driven separately with a literal chunk table, read_chunks and parse_version are not executed",
    "write -> parse -> second write byte identity beyond what per-chunk equality of every on-disk field implies",
    "lists longer than 1-4 elements, names longer than 3 bytes (18 for one concrete doodad-set name), non-ASCII names, empty names (the parser substitutes Group_<i>)",
    "texture offset table contents (only its size, thorough tier) and WmoMaterial::get_texture*_index (std HashMap)",
    "group files: no parser for the legacy WmoGroup type exists (KF-C15-group-parser-stub) and parse_wmo cannot read write_group's output (KF-C15-mogp-header); "
    "only writer-side framing of group chunks and three record layouts (MOVT, MOCV, MOBA) are decided",
    "MLIQ beyond the witness (framing broken, KF-C15-mliq-size); liquid vertex layouts pre/post WoD; width == 0 underflow",
    "MOBN content (layout differs from the crate's reader, KF-C15-mobn-layout; the plane normal is stored lossily)",
    "MOVV/MOVB as root_parser reads them (vertices + ranges) - writer and WmoParser use an offset table + 0xFFFF-terminated lists",
    "MOMT below MoP beyond the witness; chunks::MomtEntry::read on the written record (binrw, 64 bytes + Vec<u8>: no verdict after 17 CPU-minutes; replaced by a layout check against the documented offsets)",
    "chunk_discovery::discover_chunks and api::parse_wmo themselves (stage 1 of the public reader): > 10 min for 12 symbolic bytes, > 10 GB for one concrete 80-byte file; stage 2 (parse_root_file / parse_group_file) is driven with a literal chunk discovery instead",
    "convex volume planes (MCVP), fog, and every chunk the writer never emits; WmoEditor; validator",
    "fields that are not on disk in this writer: WmoLight::properties, WmoMaterial::framebuffer_blend, WmoDoodadDef::set_index, upper 8 bits of the MODD name index",
    "conversion: only field preservation of convert_root/convert_group; convert-then-write-then-parse is covered by the per-version writer harnesses, not as one composition",
]
