# C15 - WMO root and group files survive write -> parse unchanged (crate file-formats/graphics/wow-wmo)
CRATES["wmo"] = {
    "dir": "file-formats/graphics/wow-wmo",
    "attach": [
        ("src/writer.rs", "wmo/writer.rs", "verif_kani_writer", ""),
        ("src/parser.rs", "wmo/parser.rs", "verif_kani_parser", "pub(crate)"),
        ("src/converter.rs", "wmo/converter.rs", "verif_kani_converter", ""),
        ("src/chunk_discovery.rs", "wmo/discovery.rs", "verif_kani_discovery", ""),
    ],
    # hashbrown is not executable under CBMC in reasonable time: the chunk-table type private to parser.rs is replaced by an
    # association list with the same new/insert/get contract (wmo/common.rs VMap); parse_* bodies are untouched.  If these
    # anchors disappear the scratch copy no longer compiles and the check exits 2.
    "rewrite": [
        # visibility only: lets the parser-side harnesses call the private chunk writers directly (small buffers)
        ("src/writer.rs", r"^    fn write_(?!u8|u16_le|u32_le|i16_le|i32_le|f32_le)", "    pub(crate) fn write_"),
        ("src/parser.rs", r"HashMap<ChunkId, Chunk>", "ChunkTable"),
        ("src/parser.rs", r"let mut chunks = HashMap::new\(\);", "let mut chunks = ChunkTable::new();"),
        ("src/parser.rs", r"^use std::collections::HashMap;$",
         "use std::collections::HashMap;\npub(crate) type ChunkTable = self::verif_kani_parser::common::VMap<ChunkId, Chunk>;"),
    ],
}

_WW = "verif_kani_writer"
_WP = "verif_kani_parser"
_WC = "verif_kani_converter"
_WA = "verif_kani_discovery"
H("C15", "wmo", _WW, "quick", "probe", [
    "c15a_momt_framing_1", "c15a_momt_framing_2", "c15a_momt_framing_witness",
    "c15a_mogi_framing_1", "c15a_mogi_framing_2", "c15a_mopr_framing", "c15a_portals_framing", "c15a_portal_vertex_ranges", "c15c_doodad_name_table", "c15b_skybox_flag_iff_chunk", "c15d_group_legacy_parser_witness", "c15a_visible_lists_framing",
    "c15a_molt_framing_and_entry", "c15a_mods_framing_and_entry", "c15a_doodad_defs_framing", "c15c_motx_mogn_mosb_framing",
    "c15a_group_vectors_framing", "c15a_group_scalars_framing", "c15a_moba_framing_and_entry", "c15a_mobn_framing",
    "c15b_root_counts_and_tiling", "c15b_root_tiling_classic", "c15b_root_empty_all_versions", "c15d_group_backpatch", "c15d_group_backpatch_empty",
    "c15d_group_header_size_witness", "c15a_mliq_framing_witness", "c15a_mobn_vs_entry_witness", "c15c_mogi_name_offset_witness",
], ["writer::WmoWriter::*"], "probe", "probe", timeout=600)
H("C15", "wmo", _WW, "thorough", "probe", ["c15a_momt_vs_entry"], ["writer::WmoWriter::*"], "probe", "probe", timeout=2400)
H("C15", "wmo", _WW, "quick", "canary", ["c15_writer_canary"], ["writer::WmoWriter::write_indices"], "vacuity twin", "-", expect="canary", timeout=600)
H("C15", "wmo", _WP, "quick", "probe", [
    "c15p_materials_roundtrip", "c15p_header_roundtrip", "c15p_lights_roundtrip", "c15p_portal_refs_roundtrip", "c15p_portals_roundtrip",
    "c15p_visible_lists_roundtrip", "c15p_doodad_defs_roundtrip", "c15p_doodad_name_offset_witness", "c15p_doodad_sets_roundtrip",
    "c15p_group_info_roundtrip_1", "c15p_group_names_witness", "c15p_skybox_witness", "c15p_parse_root_concrete", "c15p_root_bbox_witness",
    "c15p_portals_roundtrip_2",
], ["parser::WmoParser::*"], "probe", "probe", timeout=900)
H("C15", "wmo", _WP, "thorough", "probe", ["c15p_textures_roundtrip"], ["parser::WmoParser::*"], "probe", "probe", timeout=1500)
H("C15", "wmo", _WP, "quick", "canary", ["c15_parser_canary"], ["writer::WmoWriter::write_root"], "vacuity twin", "-", expect="canary", timeout=600)
H("C15", "wmo", _WC, "quick", "probe", ["c15e_convert_root_preserves_content", "c15e_convert_group_preserves_content"], ["converter::*"], "probe", "probe", timeout=600)
H("C15", "wmo", _WC, "quick", "canary", ["c15_converter_canary"], ["converter::WmoConverter::convert_root"], "vacuity twin", "-", expect="canary", timeout=600)
H("C15", "wmo", _WA, "quick", "probe", ["c15r_header_via_root_parser", "c15r_light_via_root_parser", "c15r_records_via_root_parser", "c15r_group_info_via_root_parser", "c15r_root_mohd_size_witness", "c15r_group_via_parse_wmo_witness"], ["api::parse_wmo"], "probe", "probe", timeout=1200)
H("C15", "wmo", _WA, "quick", "canary", ["c15_discovery_canary"], ["root_parser::parse_root_file"], "vacuity twin", "-", expect="canary", timeout=600)
