// C19: StormLib-style C API, single-threaded steps.  Child module of ffi/storm-ffi/src/lib.rs.
#![allow(unused_imports, dead_code, static_mut_refs)]
#[path = "../env/io.rs"]
mod vio;
use super::*;

fn rs_stub() -> std::hash::RandomState {
    unsafe { std::mem::transmute::<[u64; 2], std::hash::RandomState>([1, 2]) }
}

fn last_error() -> u32 { SFileGetLastError() }

// ------------------------------------------------------------------ C19.c null handles are errors and write nothing
#[kani::proof]
#[kani::unwind(8)]
#[kani::stub(std::fmt::format, vio::fmt_stub)]
fn c19c_null_handle_read_seek_size() {
    let mut buf = [0x5Au8; 4];
    let mut n: u32 = 77;
    let to_read: u32 = kani::any();
    let ok = unsafe { SFileReadFile(std::ptr::null_mut(), buf.as_mut_ptr() as *mut c_void, to_read, &mut n, std::ptr::null_mut()) };
    kani::cover!(!ok);
    assert!(!ok && last_error() == ERROR_INVALID_HANDLE, "read on a null handle not reported as invalid handle");
    assert!(buf == [0x5Au8; 4] && n == 77, "read on a null handle wrote to the caller's buffers");
    let mut hi: i32 = kani::any();
    let hi0 = hi;
    let r = unsafe { SFileSetFilePointer(std::ptr::null_mut(), kani::any(), &mut hi, kani::any()) };
    assert!(r == 0xFFFF_FFFF && last_error() == ERROR_INVALID_HANDLE && hi == hi0, "seek on a null handle");
    let mut hs: u32 = 9;
    let r = unsafe { SFileGetFileSize(std::ptr::null_mut(), &mut hs) };
    assert!(r == 0xFFFF_FFFF && last_error() == ERROR_INVALID_HANDLE && hs == 9, "size of a null handle");
}

#[kani::proof]
#[kani::unwind(8)]
#[kani::stub(std::fmt::format, vio::fmt_stub)]
fn c19c_null_handle_close_name_find() {
    assert!(!SFileCloseFile(std::ptr::null_mut()) && last_error() == ERROR_INVALID_HANDLE);
    assert!(!SFileCloseArchive(std::ptr::null_mut()) && last_error() == ERROR_INVALID_HANDLE);
    let mut name = [0x5A as c_char; 4];
    let ok = unsafe { SFileGetFileName(std::ptr::null_mut(), name.as_mut_ptr()) };
    kani::cover!(!ok);
    assert!(!ok && last_error() == ERROR_INVALID_HANDLE && name[0] == 0x5A, "file name of a null handle");
    assert!(!unsafe { SFileFindClose(std::ptr::null_mut()) } && last_error() == ERROR_INVALID_HANDLE);
    // null output buffer with a handle value: parameter error, nothing dereferenced
    let ok = unsafe { SFileReadFile(7 as HANDLE, std::ptr::null_mut(), 4, std::ptr::null_mut(), std::ptr::null_mut()) };
    assert!(!ok && last_error() == ERROR_INVALID_PARAMETER);
}

// ------------------------------------------------------------------ C19.a/b steps from a fabricated open file
fn install_file(id: usize, data: &[u8], position: usize) {
    FILES.lock().unwrap().insert(id, FileHandle {
        archive_handle: 3,
        filename: String::new(),
        data: data.to_vec(),
        position,
        size: data.len() as u64,
    });
}

/// seek: no panic for any (low, high, method), position stays within the file, return value == position
#[kani::proof]
#[kani::unwind(6)]
#[kani::stub(std::fmt::format, vio::fmt_stub)]
#[kani::stub(std::hash::RandomState::new, rs_stub)]
fn c19b_set_file_pointer_step() {
    let data: [u8; 4] = kani::any();
    let pos: usize = kani::any();
    kani::assume(pos <= 4);
    install_file(7, &data, pos);
    let lo: i32 = kani::any();
    let mut hi: i32 = kani::any();
    let use_hi: bool = kani::any();
    let method: u32 = kani::any();
    let r = unsafe { SFileSetFilePointer(7 as HANDLE, lo, if use_hi { &mut hi } else { std::ptr::null_mut() }, method) };
    let files = FILES.lock().unwrap();
    let fh = files.get(&7).unwrap();
    kani::cover!(method == 2 && r == 3);
    assert!(fh.position <= 4, "seek left the position beyond the end of the file");
    if method <= 2 {
        assert!(r as usize == fh.position, "seek return value differs from the new position");
        if use_hi {
            assert!(hi == 0, "high part of the returned position wrong");
        }
    } else {
        assert!(r == 0xFFFF_FFFF && fh.position == pos, "invalid move method changed the position");
    }
    std::mem::forget(files);
}

/// read: writes exactly min(to_read, remaining) bytes into the caller's buffer and nothing beyond it
fn read_step<const T: usize>() {
    let data: [u8; 3] = kani::any();
    let pos: usize = kani::any();
    kani::assume(pos <= 3);
    install_file(7, &data, pos);
    let mut buf = [0xA5u8; 8];
    let mut n: u32 = 99;
    let use_n: bool = kani::any();
    // the caller's buffer is the first T bytes; the rest is a guard zone
    let ok = unsafe { SFileReadFile(7 as HANDLE, buf.as_mut_ptr() as *mut c_void, T as u32, if use_n { &mut n } else { std::ptr::null_mut() }, std::ptr::null_mut()) };
    assert!(ok, "read on a valid handle failed");
    let want = if 3 - pos < T { 3 - pos } else { T };
    if use_n {
        assert!(n as usize == want, "bytes-read output differs from min(to_read, remaining)");
    }
    let i: usize = kani::any();
    kani::assume(i < 8);
    kani::cover!(want > 0 && want == if T < 3 { T } else { 3 });
    if i < want {
        assert!(buf[i] == data[pos + i], "bytes read differ from the file content at the cursor");
    } else {
        assert!(buf[i] == 0xA5, "read wrote beyond the bytes it reported");
    }
    let files = FILES.lock().unwrap();
    assert!(files.get(&7).unwrap().position == pos + want, "cursor not advanced by the bytes read");
    std::mem::forget(files);
}
#[kani::proof]
#[kani::unwind(6)]
#[kani::stub(std::fmt::format, vio::fmt_stub)]
#[kani::stub(std::hash::RandomState::new, rs_stub)]
fn c19a_read_step_t2() { read_step::<2>() }
#[kani::proof]
#[kani::unwind(6)]
#[kani::stub(std::fmt::format, vio::fmt_stub)]
#[kani::stub(std::hash::RandomState::new, rs_stub)]
fn c19a_read_step_t4() { read_step::<4>() }

/// stale handle (never issued): error, nothing written
#[kani::proof]
#[kani::unwind(6)]
#[kani::stub(std::fmt::format, vio::fmt_stub)]
#[kani::stub(std::hash::RandomState::new, rs_stub)]
fn c19c_stale_handle() {
    let data: [u8; 3] = kani::any();
    install_file(7, &data, 0);
    let mut buf = [0xA5u8; 4];
    let mut n: u32 = 99;
    let ok = unsafe { SFileReadFile(9 as HANDLE, buf.as_mut_ptr() as *mut c_void, 4, &mut n, std::ptr::null_mut()) };
    kani::cover!(!ok);
    assert!(!ok && last_error() == ERROR_INVALID_HANDLE && n == 99 && buf == [0xA5u8; 4], "read through a never-issued handle");
    assert!(SFileCloseFile(7 as HANDLE), "closing a valid file handle fails");
    let ok = unsafe { SFileReadFile(7 as HANDLE, buf.as_mut_ptr() as *mut c_void, 4, &mut n, std::ptr::null_mut()) };
    assert!(!ok && last_error() == ERROR_INVALID_HANDLE && n == 99, "read through a closed handle");
}

#[kani::proof]
#[kani::unwind(8)]
#[kani::stub(std::fmt::format, vio::fmt_stub)]
fn c19_canary() {
    let r = unsafe { SFileGetFileSize(std::ptr::null_mut(), std::ptr::null_mut()) };
    assert!(r != 0xFFFF_FFFF, "canary: must be reported as failing");
}
