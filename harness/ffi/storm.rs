// C19: StormLib-style C API, single-threaded steps.  Child module of ffi/storm-ffi/src/lib.rs.
#![allow(unused_imports, dead_code, static_mut_refs)]
#[path = "../env/io.rs"]
mod vio;
use super::*;

fn rs_stub() -> std::hash::RandomState {
    unsafe { std::mem::transmute::<[u64; 2], std::hash::RandomState>([1, 2]) }
}

fn last_error() -> u32 { SFileGetLastError() }

// ------------------------------------------------------------------ C19.c null handles are errors and write nothing
#[kani::proof]
#[kani::unwind(8)]
#[kani::stub(std::fmt::format, vio::fmt_stub)]
fn c19c_null_handle_read_seek_size() {
    let mut buf = [0x5Au8; 4];
    let mut n: u32 = 77;
    let to_read: u32 = kani::any();
    let ok = unsafe { SFileReadFile(std::ptr::null_mut(), buf.as_mut_ptr() as *mut c_void, to_read, &mut n, std::ptr::null_mut()) };
    kani::cover!(!ok);
    assert!(!ok && last_error() == ERROR_INVALID_HANDLE, "read on a null handle not reported as invalid handle");
    assert!(buf == [0x5Au8; 4] && n == 77, "read on a null handle wrote to the caller's buffers");
    let mut hi: i32 = kani::any();
    let hi0 = hi;
    let r = unsafe { SFileSetFilePointer(std::ptr::null_mut(), kani::any(), &mut hi, kani::any()) };
    assert!(r == 0xFFFF_FFFF && last_error() == ERROR_INVALID_HANDLE && hi == hi0, "seek on a null handle");
    let mut hs: u32 = 9;
    let r = unsafe { SFileGetFileSize(std::ptr::null_mut(), &mut hs) };
    assert!(r == 0xFFFF_FFFF && last_error() == ERROR_INVALID_HANDLE && hs == 9, "size of a null handle");
}

#[kani::proof]
#[kani::unwind(8)]
#[kani::stub(std::fmt::format, vio::fmt_stub)]
fn c19c_null_handle_close_name_find() {
    assert!(!SFileCloseFile(std::ptr::null_mut()) && last_error() == ERROR_INVALID_HANDLE);
    assert!(!SFileCloseArchive(std::ptr::null_mut()) && last_error() == ERROR_INVALID_HANDLE);
    let mut name = [0x5A as c_char; 4];
    let ok = unsafe { SFileGetFileName(std::ptr::null_mut(), name.as_mut_ptr()) };
    kani::cover!(!ok);
    assert!(!ok && last_error() == ERROR_INVALID_HANDLE && name[0] == 0x5A, "file name of a null handle");
    assert!(!unsafe { SFileFindClose(std::ptr::null_mut()) } && last_error() == ERROR_INVALID_HANDLE);
    // null output buffer with a handle value: parameter error, nothing dereferenced
    let ok = unsafe { SFileReadFile(7 as HANDLE, std::ptr::null_mut(), 4, std::ptr::null_mut(), std::ptr::null_mut()) };
    assert!(!ok && last_error() == ERROR_INVALID_PARAMETER);
}

// ------------------------------------------------------------------ C19.a/b steps from a fabricated open file
fn install_file(id: usize, data: &[u8], position: usize) {
    FILES.lock().unwrap().insert(id, FileHandle {
        archive_handle: 3,
        filename: String::new(),
        data: data.to_vec(),
        position,
        size: data.len() as u64,
    });
}

/// seek: no panic for any (low, high, method), position stays within the file, return value == position
#[kani::proof]
#[kani::unwind(6)]
#[kani::stub(std::fmt::format, vio::fmt_stub)]
#[kani::stub(std::hash::RandomState::new, rs_stub)]
fn c19b_set_file_pointer_step() {
    let data: [u8; 4] = kani::any();
    let pos: usize = kani::any();
    kani::assume(pos <= 4);
    install_file(7, &data, pos);
    let lo: i32 = kani::any();
    let mut hi: i32 = kani::any();
    let use_hi: bool = kani::any();
    let method: u32 = kani::any();
    let r = unsafe { SFileSetFilePointer(7 as HANDLE, lo, if use_hi { &mut hi } else { std::ptr::null_mut() }, method) };
    let files = FILES.lock().unwrap();
    let fh = files.get(&7).unwrap();
    kani::cover!(method == 2 && r == 3);
    assert!(fh.position <= 4, "seek left the position beyond the end of the file");
    if method <= 2 {
        assert!(r as usize == fh.position, "seek return value differs from the new position");
        if use_hi {
            assert!(hi == 0, "high part of the returned position wrong");
        }
    } else {
        assert!(r == 0xFFFF_FFFF && fh.position == pos, "invalid move method changed the position");
    }
    std::mem::forget(files);
}

/// read: writes exactly min(to_read, remaining) bytes into the caller's buffer and nothing beyond it
fn read_step<const T: usize>() {
    let data: [u8; 3] = kani::any();
    let pos: usize = kani::any();
    kani::assume(pos <= 3);
    install_file(7, &data, pos);
    let mut buf = [0xA5u8; 8];
    let mut n: u32 = 99;
    let use_n: bool = kani::any();
    // the caller's buffer is the first T bytes; the rest is a guard zone
    let ok = unsafe { SFileReadFile(7 as HANDLE, buf.as_mut_ptr() as *mut c_void, T as u32, if use_n { &mut n } else { std::ptr::null_mut() }, std::ptr::null_mut()) };
    assert!(ok, "read on a valid handle failed");
    let want = if 3 - pos < T { 3 - pos } else { T };
    if use_n {
        assert!(n as usize == want, "bytes-read output differs from min(to_read, remaining)");
    }
    let i: usize = kani::any();
    kani::assume(i < 8);
    kani::cover!(want > 0 && want == if T < 3 { T } else { 3 });
    if i < want {
        assert!(buf[i] == data[pos + i], "bytes read differ from the file content at the cursor");
    } else {
        assert!(buf[i] == 0xA5, "read wrote beyond the bytes it reported");
    }
    let files = FILES.lock().unwrap();
    assert!(files.get(&7).unwrap().position == pos + want, "cursor not advanced by the bytes read");
    std::mem::forget(files);
}
#[kani::proof]
#[kani::unwind(6)]
#[kani::stub(std::fmt::format, vio::fmt_stub)]
#[kani::stub(std::hash::RandomState::new, rs_stub)]
fn c19a_read_step_t2() { read_step::<2>() }
#[kani::proof]
#[kani::unwind(6)]
#[kani::stub(std::fmt::format, vio::fmt_stub)]
#[kani::stub(std::hash::RandomState::new, rs_stub)]
fn c19a_read_step_t4() { read_step::<4>() }

/// stale handle (never issued): error, nothing written
#[kani::proof]
#[kani::unwind(6)]
#[kani::stub(std::fmt::format, vio::fmt_stub)]
#[kani::stub(std::hash::RandomState::new, rs_stub)]
fn c19c_stale_handle() {
    let data: [u8; 3] = kani::any();
    install_file(7, &data, 0);
    let mut buf = [0xA5u8; 4];
    let mut n: u32 = 99;
    let ok = unsafe { SFileReadFile(9 as HANDLE, buf.as_mut_ptr() as *mut c_void, 4, &mut n, std::ptr::null_mut()) };
    kani::cover!(!ok);
    assert!(!ok && last_error() == ERROR_INVALID_HANDLE && n == 99 && buf == [0xA5u8; 4], "read through a never-issued handle");
    assert!(SFileCloseFile(7 as HANDLE), "closing a valid file handle fails");
    let ok = unsafe { SFileReadFile(7 as HANDLE, buf.as_mut_ptr() as *mut c_void, 4, &mut n, std::ptr::null_mut()) };
    assert!(!ok && last_error() == ERROR_INVALID_HANDLE && n == 99, "read through a closed handle");
}

// ------------------------------------------------------------------ C19.a info / size queries on a fabricated open file
#[repr(align(8))]
struct Aligned([u8; 24]);

/// SFileGetFileInfo on a file handle: nothing is written beyond buffer_size (or at all on failure), the value is the
/// file's size / cursor, size_needed is 8 for the two supported classes
#[kani::proof]
#[kani::unwind(10)]
#[kani::stub(std::fmt::format, vio::fmt_stub)]
#[kani::stub(std::hash::RandomState::new, rs_stub)]
fn c19a_file_info_step() {
    let data: [u8; 3] = kani::any();
    let pos: usize = kani::any();
    kani::assume(pos <= 3);
    install_file(7, &data, pos);
    let mut buf = Aligned([0xA5u8; 24]);
    let class: u32 = kani::any();
    let size: u32 = kani::any();
    kani::assume(size <= 16);
    let mut needed: u32 = 77;
    let use_needed: bool = kani::any();
    let ok = unsafe {
        SFileGetFileInfo(7 as HANDLE, class, buf.0.as_mut_ptr() as *mut c_void, size,
                         if use_needed { &mut needed } else { std::ptr::null_mut() })
    };
    let i: usize = kani::any();
    kani::assume(i < 24);
    if i >= size as usize {
        assert!(buf.0[i] == 0xA5, "info query wrote beyond the caller's buffer size");
    }
    kani::cover!(ok && class == SFILE_INFO_POSITION);
    kani::cover!(!ok && last_error() == ERROR_INSUFFICIENT_BUFFER);
    if ok {
        assert!(class == SFILE_INFO_FILE_SIZE || class == SFILE_INFO_POSITION, "unsupported info class answered");
        assert!(size >= 8, "8-byte answer written into a smaller buffer");
        let v = u64::from_le_bytes([buf.0[0], buf.0[1], buf.0[2], buf.0[3], buf.0[4], buf.0[5], buf.0[6], buf.0[7]]);
        assert!(v == if class == SFILE_INFO_FILE_SIZE { 3 } else { pos as u64 }, "info query answers another value than the file's size / cursor");
        assert!(!use_needed || needed == 8);
    } else {
        assert!(buf.0[i] == 0xA5, "failed info query wrote to the caller's buffer");
        if class == SFILE_INFO_FILE_SIZE || class == SFILE_INFO_POSITION {
            assert!(size < 8 && last_error() == ERROR_INSUFFICIENT_BUFFER && (!use_needed || needed == 8), "info query with a sufficient buffer failed");
        } else {
            assert!(last_error() == ERROR_NOT_SUPPORTED && needed == 77);
        }
    }
}

/// SFileGetFileSize: low/high halves of the length, high pointer optional
#[kani::proof]
#[kani::unwind(10)]
#[kani::stub(std::fmt::format, vio::fmt_stub)]
#[kani::stub(std::hash::RandomState::new, rs_stub)]
fn c19a_file_size_step() {
    let data: [u8; 3] = kani::any();
    install_file(7, &data, kani::any::<usize>() % 4);
    let mut hi: u32 = 55;
    let use_hi: bool = kani::any();
    let lo = unsafe { SFileGetFileSize(7 as HANDLE, if use_hi { &mut hi } else { std::ptr::null_mut() }) };
    kani::cover!(lo == 3);
    assert!(lo == 3 && last_error() == ERROR_SUCCESS, "file size differs from the content length");
    assert!(hi == if use_hi { 0 } else { 55 }, "high half of the size");
}

// ------------------------------------------------------------------ C19.a/c archive-level steps on a fabricated archive
fn install_archive(id: usize, path: &str) {
    let a = wow_mpq::archive::verif_kani_archive::verif_empty_archive();
    ARCHIVES.lock().unwrap().insert(id, ArchiveHandle::ReadOnly { archive: a, path: path.to_string() });
}

/// SFileGetArchiveName: succeeds exactly when the buffer holds the path and its NUL; never writes beyond buffer_size
#[kani::proof]
#[kani::unwind(10)]
#[kani::stub(std::fmt::format, vio::fmt_stub)]
#[kani::stub(std::hash::RandomState::new, rs_stub)]
fn c19a_archive_name_fit() {
    install_archive(3, "a.mp");
    let mut buf = [0x5Au8; 8];
    let size: u32 = kani::any();
    kani::assume(size <= 8);
    let ok = unsafe { SFileGetArchiveName(3 as HANDLE, buf.as_mut_ptr() as *mut c_char, size) };
    let i: usize = kani::any();
    kani::assume(i < 8);
    if i >= size as usize {
        assert!(buf[i] == 0x5A, "archive name written beyond the caller's buffer size");
    }
    kani::cover!(ok && size == 5);
    kani::cover!(!ok && size == 4);
    if ok {
        assert!(size >= 5, "name + NUL reported as fitting a smaller buffer");
        assert!(buf[0] == b'a' && buf[1] == b'.' && buf[2] == b'm' && buf[3] == b'p' && buf[4] == 0, "archive name differs from the path it was opened with");
    } else {
        assert!(size < 5, "sufficient buffer refused");
        assert!(buf[i] == 0x5A, "failed call wrote to the caller's buffer");
        assert!(last_error() == if size == 0 { ERROR_INVALID_PARAMETER } else { ERROR_INSUFFICIENT_BUFFER });
    }
    std::mem::forget(ARCHIVES.lock().unwrap().remove(&3));
}

#[kani::proof]
#[kani::unwind(8)]
#[kani::stub(std::fmt::format, vio::fmt_stub)]
fn c19_canary() {
    let r = unsafe { SFileGetFileSize(std::ptr::null_mut(), std::ptr::null_mut()) };
    assert!(r != 0xFFFF_FFFF, "canary: must be reported as failing");
}
