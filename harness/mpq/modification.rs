// C06.a / C01.b: the hash table as a map, one real operation from an arbitrary valid state, for EVERY
// assignment of hash values (hash_string is replaced by a symbolic function H[name][type]).
// Child module of src/modification.rs.
#![allow(unused_imports, dead_code, static_mut_refs)]
use super::*;
use crate::archive::verif_kani_archive::{fab_archive, memfile, vio};
use std::os::fd::FromRawFd;

static mut H: [[u32; 3]; 4] = [[0; 3]; 4];
const NAMES: [&str; 4] = ["a", "b", "c", "d"];

/// symbolic hash function: names "a".."d" -> H[k][type]; everything else (special files) hashes to a
/// value that cannot match a table entry because the inner archive carries no tables
fn hs_stub(name: &str, ty: u32) -> u32 {
    let b = name.as_bytes()[0];
    let k = (b.wrapping_sub(b'a') & 3) as usize;
    let t = ((ty >> 8) & 3) as usize;
    unsafe { H[k][if t > 2 { 2 } else { t }] }
}

const EMPTY: u8 = 0;
const DELETED: u8 = 1;
// kinds 2..=5: valid entry carrying name k = kind - 2

struct Pre {
    kind: [u8; 4],
    blk: [u32; 4],
}

fn home(k: usize) -> usize {
    unsafe { (H[k][0] & 3) as usize }
}

/// representation invariant of a 4-slot table (see DESIGN C06.a)
fn invariant(kind: &[u8; 4]) -> bool {
    let mut ok = true;
    let mut s = 0;
    while s < 4 {
        ok &= kind[s] <= 5;
        let mut t = s + 1;
        while t < 4 {
            // a name occupies at most one slot
            ok &= !(kind[s] >= 2 && kind[s] == kind[t]);
            t += 1;
        }
        if kind[s] >= 2 && kind[s] <= 5 {
            // reachable from its home slot without crossing a never-used slot
            let k = (kind[s] - 2) as usize;
            let mut p = home(k);
            let mut steps = 0;
            while p != s && steps < 4 {
                ok &= kind[p] != EMPTY;
                p = (p + 1) & 3;
                steps += 1;
            }
        }
        s += 1;
    }
    ok
}

fn distinct_pairs() -> bool {
    // distinct names have distinct (A,B) pairs: a 64-bit hash collision is inherent to the format
    let mut ok = true;
    let mut i = 0;
    while i < 4 {
        let mut j = i + 1;
        while j < 4 {
            unsafe { ok &= !(H[i][1] == H[j][1] && H[i][2] == H[j][2]); }
            j += 1;
        }
        i += 1;
    }
    ok
}

fn build(pre: &Pre) -> MutableArchive {
    let mut ht = HashTable::new_mut(4).unwrap();
    let mut s = 0;
    while s < 4 {
        let e = ht.get_mut(s).unwrap();
        match pre.kind[s] {
            EMPTY => {}
            DELETED => e.block_index = HashEntry::EMPTY_DELETED,
            k => unsafe {
                let n = (k - 2) as usize;
                *e = HashEntry { name_1: H[n][1], name_2: H[n][2], locale: 0, platform: 0, block_index: pre.blk[s] };
            },
        }
        s += 1;
    }
    let bt = BlockTable::new_mut(1).unwrap();
    let inner_bt = BlockTable::new_mut(1).unwrap();
    let mut archive = fab_archive(HashTable::new_mut(4).unwrap(), inner_bt, 0);
    archive.verif_drop_tables();
    MutableArchive {
        _path: PathBuf::new(),
        archive,
        file: unsafe { File::from_raw_fd(101) },
        hash_table: Some(ht),
        block_table: Some(bt),
        _hi_block_table: None,
        dirty: false,
        next_file_offset: None,
        _special_file_blocks: HashMap::new(),
        attributes_dirty: false,
        modified_blocks: HashMap::new(),
        updated_het_pos: None,
        updated_bet_pos: None,
        updated_hash_table_pos: None,
        updated_block_table_pos: None,
    }
}

fn pre_any() -> Pre {
    unsafe { H = kani::any(); }
    let pre = Pre { kind: kani::any(), blk: kani::any() };
    kani::assume(distinct_pairs());
    kani::assume(invariant(&pre.kind));
    let mut s = 0;
    while s < 4 {
        kani::assume(pre.blk[s] < HashEntry::EMPTY_DELETED);
        s += 1;
    }
    pre
}

/// abstract map: block index of name k, if present
fn model_get(pre: &Pre, k: usize) -> Option<u32> {
    let mut s = 0;
    let mut r = None;
    while s < 4 {
        if pre.kind[s] == (k as u8) + 2 {
            r = Some(pre.blk[s]);
        }
        s += 1;
    }
    r
}

/// read the kinds back from the real table
fn kinds_of(m: &MutableArchive) -> Pre {
    let ht = m.hash_table.as_ref().unwrap();
    let mut kind = [EMPTY; 4];
    let mut blk = [0u32; 4];
    let mut s = 0;
    while s < 4 {
        let e = ht.get(s).unwrap();
        if e.is_empty() {
            kind[s] = EMPTY;
        } else if e.is_deleted() {
            kind[s] = DELETED;
        } else {
            let mut n = 0;
            kind[s] = 6; // valid entry of an unknown name
            while n < 4 {
                unsafe {
                    if e.name_1 == H[n][1] && e.name_2 == H[n][2] {
                        kind[s] = n as u8 + 2;
                    }
                }
                n += 1;
            }
            blk[s] = e.block_index;
        }
        s += 1;
    }
    Pre { kind, blk }
}

fn name_any() -> usize {
    let k: usize = kani::any();
    kani::assume(k < 4);
    k
}

fn lookup_agrees(m: &MutableArchive, post: &Pre, x: usize) {
    // the name resolves to what the abstract map says
    let r = m.find_file_entry(NAMES[x]);
    assert!(r.is_ok());
    let got = r.unwrap().map(|(_, e)| e.block_index);
    assert!(got == model_get(post, x), "lookup disagrees with the abstract map after the operation");
}

macro_rules! step_harness {
    ($name:ident, $unw:expr, $body:block) => {
        #[kani::proof]
        #[kani::unwind($unw)]
        #[kani::stub(std::fmt::format, vio::fmt_stub)]
        #[kani::stub(crate::crypto::hash_string, hs_stub)]
        #[kani::stub(std::hash::RandomState::new, rs_stub)]
        fn $name() $body
    };
}

fn rs_stub() -> std::hash::RandomState {
    unsafe { std::mem::transmute::<[u64; 2], std::hash::RandomState>([1, 2]) }
}

// ---- lookup agrees with the abstract map in every valid state
step_harness!(c06a_lookup_agrees_with_model, 18, {
    let pre = pre_any();
    let m = build(&pre);
    kani::cover!(pre.kind[3] >= 2 && home((pre.kind[3] - 2) as usize) == 2 && pre.kind[2] == DELETED, "entry behind a tombstone");
    kani::cover!(pre.kind[0] >= 2 && home((pre.kind[0] - 2) as usize) == 3, "wrapped probe chain");
    // H is fully symbolic, so the four names are interchangeable: name 0 stands for any name
    lookup_agrees(&m, &pre, 0);
    std::mem::forget(m);
});

// ---- remove: the name disappears, every other name is untouched, invariant preserved
step_harness!(c06a_remove_step, 18, {
    let pre = pre_any();
    let mut m = build(&pre);
    let k = 0; // by symmetry of the symbolic hash function
    let present = model_get(&pre, k).is_some();
    let r = m.remove_file(NAMES[k]);
    let post = kinds_of(&m);
    kani::cover!(present && pre.kind[3] == k as u8 + 2, "removal of the entry in the last slot");
    if present {
        assert!(r.is_ok(), "removing a present file fails");
        assert!(model_get(&post, k).is_none(), "removed name still present");
    } else {
        assert!(r.is_err(), "removing an absent file reports success");
    }
    // all other names unchanged (name 1 stands for any other name)
    let y = 1;
    assert!(model_get(&post, y) == model_get(&pre, y), "remove changed another name's mapping");
    assert!(invariant(&post.kind), "remove breaks the probe-chain invariant (another file becomes unreachable)");
    lookup_agrees(&m, &post, 0);
    lookup_agrees(&m, &post, 1);
    std::mem::forget((m, r));
});

// ---- rename: success moves the mapping, failure leaves the map unchanged
step_harness!(c06a_rename_step, 18, {
    let pre = pre_any();
    // known finding KF-C06-full-table: insertion does not terminate without a free slot
    kani::assume(pre.kind[0] < 2 || pre.kind[1] < 2 || pre.kind[2] < 2 || pre.kind[3] < 2);
    let mut m = build(&pre);
    let k = 0;
    let j = 1;
    let src = model_get(&pre, k);
    let dst = model_get(&pre, j);
    let r = m.rename_file(NAMES[k], NAMES[j]);
    let post = kinds_of(&m);
    kani::cover!(r.is_ok());
    kani::cover!(src.is_some() && dst.is_some(), "rename onto an existing name");
    if src.is_some() && dst.is_none() {
        assert!(r.is_ok(), "valid rename fails");
        assert!(model_get(&post, k).is_none() && model_get(&post, j) == src, "rename did not move the mapping");
    } else {
        assert!(r.is_err(), "invalid rename reports success");
        assert!(model_get(&post, k) == src && model_get(&post, j) == dst, "failed rename changed the map");
    }
    let y = 2;
    assert!(model_get(&post, y) == model_get(&pre, y), "rename changed an unrelated name");
    assert!(invariant(&post.kind), "rename breaks the probe-chain invariant");
    lookup_agrees(&m, &post, 0);
    lookup_agrees(&m, &post, 1);
    lookup_agrees(&m, &post, 2);
    std::mem::forget((m, r));
});

// ---- insert (the step add_file_data performs on the table)
step_harness!(c06a_insert_step, 18, {
    let pre = pre_any();
    kani::assume(pre.kind[0] < 2 || pre.kind[1] < 2 || pre.kind[2] < 2 || pre.kind[3] < 2); // KF-C06-full-table
    let mut m = build(&pre);
    let j = 0;
    kani::assume(model_get(&pre, j).is_none());
    let blk: u32 = kani::any();
    kani::assume(blk < HashEntry::EMPTY_DELETED);
    let r = m.add_to_hash_table(NAMES[j], blk, 0);
    let post = kinds_of(&m);
    kani::cover!(r.is_ok());
    assert!(r.is_ok(), "insertion with a free slot fails");
    assert!(model_get(&post, j) == Some(blk), "inserted name not mapped to its block");
    let y = 1;
    assert!(model_get(&post, y) == model_get(&pre, y), "insert changed another name's mapping");
    assert!(invariant(&post.kind), "insert breaks the probe-chain invariant");
    lookup_agrees(&m, &post, 0);
    lookup_agrees(&m, &post, 1);
    std::mem::forget((m, r));
});

// ---- termination witness of the recorded finding: insertion into a table without a free slot
#[kani::proof]
#[kani::unwind(10)]
#[kani::stub(std::fmt::format, vio::fmt_stub)]
#[kani::stub(crate::crypto::hash_string, hs_stub)]
#[kani::stub(std::hash::RandomState::new, rs_stub)]
fn c06a_insert_full_table_witness() {
    unsafe { H = [[0, 1, 1], [1, 2, 2], [2, 3, 3], [3, 4, 4]]; }
    let pre = Pre { kind: [2, 3, 4, DELETED], blk: [0, 1, 2, 0] };
    let mut m = build(&pre);
    // fill the last slot, then insert a fifth name-hash pattern: every slot is valid
    assert!(m.add_to_hash_table("d", 3, 0).is_ok());
    unsafe { H[0] = [0, 9, 9]; }
    let r = m.add_to_hash_table("a", 4, 0);
    // reaching this point means the probe loop ended
    std::mem::forget((m, r));
}

step_harness!(c06a_canary, 18, {
    let pre = pre_any();
    let m = build(&pre);
    let r = m.find_file_entry(NAMES[0]).unwrap();
    assert!(r.is_none(), "canary: must be reported as failing");
    std::mem::forget(m);
});

// ---------------------------------------------------------------- C06.b in-place add: prepare_file_data -> reader
// The bytes and flags MutableArchive::prepare_file_data produces, placed where add_file_data places them,
// are read back bit-identically by the real reader (same abstract codec pair as C01.d).
static mut P_SHRINKS: bool = false;
static mut P_PAYLOAD: [u8; 2] = [0; 2];
static mut P_ORIG: [u8; 8] = [0; 8];
static mut P_ORIG_LEN: usize = 0;

fn p_compress_stub(data: &[u8], method: u8) -> Result<Vec<u8>> {
    unsafe {
        if P_SHRINKS && data.len() > 4 && data.len() <= 8 {
            P_ORIG_LEN = data.len();
            P_ORIG[..data.len()].copy_from_slice(data);
            let mut v = Vec::with_capacity(4);
            v.push(method);
            v.push(0x77);
            v.extend_from_slice(&P_PAYLOAD);
            Ok(v)
        } else {
            Ok(data.to_vec())
        }
    }
}
fn p_decompress_stub(data: &[u8], _method: u8, expected: usize) -> Result<Vec<u8>> {
    unsafe {
        if data.len() == 3 && data[0] == 0x77 && data[1] == P_PAYLOAD[0] && data[2] == P_PAYLOAD[1] && expected == P_ORIG_LEN {
            Ok(P_ORIG[..P_ORIG_LEN].to_vec())
        } else {
            Err(Error::compression("abstract codec: not the stream that was produced"))
        }
    }
}

fn inplace_roundtrip(compress_on: bool, shrinks: bool, encrypt: bool, fix_key: bool) {
    let data: [u8; 5] = kani::any();
    unsafe { P_SHRINKS = shrinks; P_PAYLOAD = kani::any(); H = [[0, 1, 1], [1, 2, 2], [2, 3, 3], [3, 4, 4]]; }
    let pre = Pre { kind: [EMPTY; 4], blk: [0; 4] };
    let m = build(&pre);
    let mut opts = AddFileOptions::new().compression(if compress_on { CompressionMethod::Zlib } else { CompressionMethod::None });
    if encrypt { opts = opts.encrypt(); }
    if fix_key { opts = opts.fix_key(); }
    let r = m.prepare_file_data(&data, "a", &opts, 512);
    assert!(r.is_ok(), "prepare_file_data failed on valid input");
    let (bytes, stored, flags) = r.unwrap();
    kani::cover!(stored > 0);
    // place the bytes as add_file_data does: at a 512-aligned offset, block entry from the returned values
    let mut img = [0xEEu8; 544];
    let mut i = 0;
    while i < bytes.len() {
        img[512 + i] = bytes[i];
        i += 1;
    }
    memfile::set_image(&img[..512 + bytes.len()]);
    let mut ht = HashTable::new_mut(4).unwrap();
    *ht.get_mut(0).unwrap() = HashEntry { name_1: 1, name_2: 1, locale: 0, platform: 0, block_index: 0 };
    let mut bt = BlockTable::new_mut(1).unwrap();
    *bt.get_mut(0).unwrap() = BlockEntry { file_pos: 512, compressed_size: stored as u32, file_size: 5, flags };
    let mut a = fab_archive(ht, bt, 0);
    let got = a.read_file("a");
    assert!(got.is_ok(), "file added in place cannot be read back");
    let got = got.unwrap();
    assert!(got.len() == 5, "file added in place reads back with a different length");
    let k: usize = kani::any();
    kani::assume(k < 5);
    assert!(got[k] == data[k], "file added in place reads back with different content");
    std::mem::forget((m, a, got, bytes, opts));
}

macro_rules! inplace_harness {
    ($name:ident, $c:expr, $s:expr, $e:expr, $f:expr) => {
        #[kani::proof]
        #[kani::unwind(80)]
        #[kani::stub(std::fmt::format, vio::fmt_stub)]
        #[kani::stub(crate::crypto::hash_string, hs_stub)]
        #[kani::stub(std::hash::RandomState::new, rs_stub)]
        #[kani::stub(<std::fs::File as std::io::Read>::read, memfile::mem_read)]
        #[kani::stub(<std::fs::File as std::io::Read>::read_buf, memfile::mem_read_buf)]
        #[kani::stub(<std::fs::File as std::io::Seek>::seek, memfile::mem_seek)]
        #[kani::stub(crate::compression::compress::compress, p_compress_stub)]
        #[kani::stub(crate::compression::decompress::decompress, p_decompress_stub)]
        fn $name() { inplace_roundtrip($c, $s, $e, $f) }
    };
}
inplace_harness!(c06b_inplace_plain, false, false, false, false);
inplace_harness!(c06b_inplace_codec, true, true, false, false);
inplace_harness!(c06b_inplace_enc, false, false, true, false);
inplace_harness!(c06b_inplace_enc_codec, true, true, true, false);
inplace_harness!(c06b_inplace_enc_fix_witness, false, false, true, true);
