// C05.mpq.4 + C01.b (real hash): classic table decoders are total; insertion <-> lookup with the real hash.
// Child module of src/tables/hash.rs.
#![allow(unused_imports, dead_code)]
#[path = "../env/io.rs"]
mod vio;
use super::*;

#[kani::proof]
#[kani::unwind(20)]
#[kani::stub(std::fmt::format, vio::fmt_stub)]
fn c05_hash_table_from_bytes_total() {
    let data: [u8; 32] = kani::any();
    const LENS: [usize; 4] = [0, 15, 16, 32];
    const SIZES: [u32; 7] = [0, 1, 2, 3, 4, 0x1000_0000, u32::MAX];
    let mut a = 0;
    while a < 4 {
        let mut b = 0;
        while b < 7 {
            let (len, size) = (LENS[a], SIZES[b]);
            let r = HashTable::from_bytes(&data[..len], size);
            kani::cover!(r.is_ok());
            if let Ok(t) = &r {
                assert!(t.size() == size as usize && size.is_power_of_two() && (size as usize) * 16 <= len, "hash table larger than its data accepted");
            }
            std::mem::forget(r);
            b += 1;
        }
        a += 1;
    }
}

#[kani::proof]
#[kani::unwind(20)]
#[kani::stub(std::fmt::format, vio::fmt_stub)]
fn c05_block_table_from_bytes_total() {
    let data: [u8; 32] = kani::any();
    const LENS: [usize; 4] = [0, 15, 16, 32];
    const SIZES: [u32; 6] = [0, 1, 2, 3, 0x1000_0000, u32::MAX];
    let mut a = 0;
    while a < 4 {
        let mut b = 0;
        while b < 6 {
            let (len, size) = (LENS[a], SIZES[b]);
            let r = crate::tables::BlockTable::from_bytes(&data[..len], size);
            kani::cover!(r.is_ok());
            if let Ok(t) = &r {
                assert!(t.size() == size as usize && (size as usize) * 16 <= len, "block table larger than its data accepted");
            }
            std::mem::forget(r);
            b += 1;
        }
        a += 1;
    }
}

/// lookup in an arbitrary 2-slot table terminates and only ever returns a valid entry with matching hashes
#[kani::proof]
#[kani::unwind(8)]
#[kani::stub(std::fmt::format, vio::fmt_stub)]
fn c05_hash_table_find_total() {
    let mut t = HashTable::new(2).unwrap();
    let mut i = 0;
    while i < 2 {
        *t.get_mut(i).unwrap() = HashEntry { name_1: kani::any(), name_2: kani::any(), locale: kani::any(), platform: kani::any(), block_index: kani::any() };
        i += 1;
    }
    let r = t.find_file("a", kani::any());
    kani::cover!(r.is_some());
    if let Some((idx, e)) = r {
        assert!(idx < 2 && e.is_valid(), "lookup returned a deleted or never-used slot");
        assert!(e.name_1 == hash_string("a", hash_type::NAME_A) && e.name_2 == hash_string("a", hash_type::NAME_B));
    }
    std::mem::forget(t);
}

#[kani::proof]
#[kani::unwind(20)]
#[kani::stub(std::fmt::format, vio::fmt_stub)]
fn c05_tables_canary() {
    let data: [u8; 16] = kani::any();
    let r = HashTable::from_bytes(&data, 1);
    assert!(r.is_err(), "canary: must be reported as failing");
    std::mem::forget(r);
}
