// C05.mpq.4 + C01.b (real hash): classic table decoders are total; insertion <-> lookup with the real hash.
// Child module of src/tables/hash.rs.
#![allow(unused_imports, dead_code)]
#[path = "../env/io.rs"]
mod vio;
use super::*;

#[kani::proof]
#[kani::unwind(20)]
#[kani::stub(std::fmt::format, vio::fmt_stub)]
fn c05_hash_table_from_bytes_total() {
    let data: [u8; 32] = kani::any();
    const LENS: [usize; 4] = [0, 15, 16, 32];
    const SIZES: [u32; 7] = [0, 1, 2, 3, 4, 0x1000_0000, u32::MAX];
    let mut a = 0;
    while a < 4 {
        let mut b = 0;
        while b < 7 {
            let (len, size) = (LENS[a], SIZES[b]);
            let r = HashTable::from_bytes(&data[..len], size);
            kani::cover!(r.is_ok());
            if let Ok(t) = &r {
                assert!(t.size() == size as usize && size.is_power_of_two() && (size as usize) * 16 <= len, "hash table larger than its data accepted");
            }
            std::mem::forget(r);
            b += 1;
        }
        a += 1;
    }
}

#[kani::proof]
#[kani::unwind(20)]
#[kani::stub(std::fmt::format, vio::fmt_stub)]
fn c05_block_table_from_bytes_total() {
    let data: [u8; 32] = kani::any();
    const LENS: [usize; 4] = [0, 15, 16, 32];
    const SIZES: [u32; 6] = [0, 1, 2, 3, 0x1000_0000, u32::MAX];
    let mut a = 0;
    while a < 4 {
        let mut b = 0;
        while b < 6 {
            let (len, size) = (LENS[a], SIZES[b]);
            let r = crate::tables::BlockTable::from_bytes(&data[..len], size);
            kani::cover!(r.is_ok());
            if let Ok(t) = &r {
                assert!(t.size() == size as usize && (size as usize) * 16 <= len, "block table larger than its data accepted");
            }
            std::mem::forget(r);
            b += 1;
        }
        a += 1;
    }
}

/// lookup in an arbitrary 2-slot table terminates and only ever returns a valid entry with matching hashes
#[kani::proof]
#[kani::unwind(8)]
#[kani::stub(std::fmt::format, vio::fmt_stub)]
fn c05_hash_table_find_total() {
    let mut t = HashTable::new(2).unwrap();
    let mut i = 0;
    while i < 2 {
        *t.get_mut(i).unwrap() = HashEntry { name_1: kani::any(), name_2: kani::any(), locale: kani::any(), platform: kani::any(), block_index: kani::any() };
        i += 1;
    }
    let r = t.find_file("a", kani::any());
    kani::cover!(r.is_some());
    if let Some((idx, e)) = r {
        assert!(idx < 2 && e.is_valid(), "lookup returned a deleted or never-used slot");
        assert!(e.name_1 == hash_string("a", hash_type::NAME_A) && e.name_2 == hash_string("a", hash_type::NAME_B));
    }
    std::mem::forget(t);
}

#[kani::proof]
#[kani::unwind(20)]
#[kani::stub(std::fmt::format, vio::fmt_stub)]
fn c05_tables_canary() {
    let data: [u8; 16] = kani::any();
    let r = HashTable::from_bytes(&data, 1);
    assert!(r.is_err(), "canary: must be reported as failing");
    std::mem::forget(r);
}

// ---------------------------------------------------------------- C01.b reader-side lookup is complete
// For EVERY hash value of the name (hash_string is a symbolic function here: home slot, both name hashes) and every
// 4-slot table: an entry that carries the name's hashes, is valid and is reachable from the home slot by circular
// linear probing without crossing a never-used slot IS found (so a file the builder placed after a wrap-around
// is not lost), and the first such entry is the one returned.
static mut HV: [u32; 3] = [0; 3];
fn hs_stub(_name: &str, hash_type: u32) -> u32 {
    unsafe { HV[((hash_type >> 8) as usize) % 3] }
}

#[kani::proof]
#[kani::unwind(8)]
#[kani::stub(std::fmt::format, vio::fmt_stub)]
#[kani::stub(crate::crypto::hash_string, hs_stub)]
fn c01b_hash_find_complete() {
    unsafe { HV = kani::any(); }
    let (home, na, nb) = unsafe { ((HV[0] as usize) & 3, HV[1], HV[2]) };
    let mut t = HashTable::new(4).unwrap();
    let mut i = 0;
    while i < 4 {
        *t.get_mut(i).unwrap() = HashEntry { name_1: kani::any(), name_2: kani::any(), locale: 0, platform: kani::any(), block_index: kani::any() };
        i += 1;
    }
    // j = distance (0..=3) of the wanted entry from the home slot, going round the table end
    let d: usize = kani::any();
    kani::assume(d < 4);
    let j = (home + d) & 3;
    {
        let e = t.get(j).unwrap();
        kani::assume(e.name_1 == na && e.name_2 == nb && e.is_valid());
    }
    let mut k = 0;
    while k < 4 {
        if k < d {
            let e = t.get((home + k) & 3).unwrap();
            // slots probed before it: occupied or deleted (not never-used), and not a match themselves
            kani::assume(!e.is_empty() && !(e.name_1 == na && e.name_2 == nb));
        }
        k += 1;
    }
    let r = t.find_file("a", kani::any());
    kani::cover!(r.is_some() && j < home, "found after wrapping round the table end");
    kani::cover!(r.is_some() && d == 3);
    assert!(r.is_some(), "a file reachable by linear probing (possibly across the table end) is reported as not found");
    let (idx, _e) = r.unwrap();
    assert!(idx == j, "lookup resolved the name to another slot than the first matching one");
    std::mem::forget(t);
}

/// a name whose hashes match no valid entry is not found (it never resolves to another file's entry)
#[kani::proof]
#[kani::unwind(8)]
#[kani::stub(std::fmt::format, vio::fmt_stub)]
#[kani::stub(crate::crypto::hash_string, hs_stub)]
fn c01b_hash_find_absent() {
    unsafe { HV = kani::any(); }
    let (na, nb) = unsafe { (HV[1], HV[2]) };
    let mut t = HashTable::new(4).unwrap();
    let mut i = 0;
    while i < 4 {
        let e = HashEntry { name_1: kani::any(), name_2: kani::any(), locale: kani::any(), platform: kani::any(), block_index: kani::any() };
        kani::assume(!(e.name_1 == na && e.name_2 == nb && e.is_valid()));
        *t.get_mut(i).unwrap() = e;
        i += 1;
    }
    let r = t.find_file("a", kani::any());
    kani::cover!(r.is_none());
    assert!(r.is_none(), "a name that is in no slot resolves to some entry");
    std::mem::forget(t);
}
