// Fabrication of an `Archive` around in-memory tables and the mem-file image (child module of src/archive.rs).
#![allow(unused_imports, dead_code)]
#[path = "../env/memfile.rs"]
pub(crate) mod memfile;
#[path = "../env/io.rs"]
pub(crate) mod vio;

use super::*;
use crate::header::{FormatVersion, MpqHeader};
use crate::tables::{BlockTable, HashTable};
use std::io::BufReader;
use std::path::PathBuf;

/// A V1 archive whose tables are already "loaded"; file data lives in memfile::IMG.
pub(crate) fn fab_archive(hash_table: HashTable, block_table: BlockTable, block_size: u16) -> Archive {
    let hts = hash_table.size() as u32;
    let bts = block_table.size() as u32;
    Archive {
        path: PathBuf::new(),
        reader: BufReader::with_capacity(1, memfile::handle()),
        archive_offset: 0,
        user_data: None,
        header: MpqHeader {
            header_size: 32,
            archive_size: memfile::IMG_CAP as u32,
            format_version: FormatVersion::V1,
            block_size,
            hash_table_pos: 0,
            block_table_pos: 0,
            hash_table_size: hts,
            block_table_size: bts,
            hi_block_table_pos: None,
            hash_table_pos_hi: None,
            block_table_pos_hi: None,
            archive_size_64: None,
            bet_table_pos: None,
            het_table_pos: None,
            v4_data: None,
        },
        hash_table: Some(hash_table),
        block_table: Some(block_table),
        hi_block_table: None,
        het_table: None,
        bet_table: None,
        attributes: None,
    }
}

impl Archive {
    /// harness helper: an inner archive without loaded tables (lookups of special files find nothing)
    pub(crate) fn verif_drop_tables(&mut self) {
        std::mem::forget(self.hash_table.take());
        std::mem::forget(self.block_table.take());
    }
}

impl Archive {
    /// harness helper: archives are told apart by this value
    pub(crate) fn verif_set_offset(&mut self, v: u64) { self.archive_offset = v; }
}

/// façade for harnesses of dependent crates (storm-ffi attaches this module as `pub`): an archive with empty
/// 4-slot tables around the in-memory file model
pub fn verif_empty_archive() -> Archive {
    fab_archive(HashTable::new(4).unwrap(), BlockTable::new(1).unwrap(), 0)
}
