// C01.d / C02.d / C10.d: real ArchiveBuilder::write_file -> in-memory image -> real Archive::read_file.
// Child module of src/builder.rs (write_file, add_to_hash_table, FileWriteParams are private there).
#![allow(unused_imports, dead_code, static_mut_refs)]
use super::*;
use crate::archive::verif_kani_archive::{fab_archive, memfile, vio};
use crate::tables::{BlockEntry, BlockTable, HashTable};

// ---------------------------------------------------------------- abstract codec
// compress(): "not beneficial" (returns the input) or method byte + CODEC_LEN arbitrary bytes;
// decompress(): inverts exactly that pairing, anything else is an error.  Keeps the builder's and the
// reader's flag/size/key/sector logic real while abstracting from zlib & co.
static mut CODEC_SHRINKS: bool = false;
static mut CODEC_PAYLOAD: [u8; 4] = [0; 4];
const CODEC_LEN: usize = 3;
static mut ORIG: [[u8; 512]; 2] = [[0; 512]; 2];
static mut ORIG_LEN: [usize; 2] = [0; 2];
static mut ORIG_N: usize = 0;

fn compress_stub(data: &[u8], method: u8) -> Result<Vec<u8>> {
    unsafe {
        if CODEC_SHRINKS && data.len() > CODEC_LEN + 1 && data.len() <= 512 && ORIG_N < 2 {
            let k = ORIG_N;
            ORIG_N += 1;
            ORIG_LEN[k] = data.len();
            ORIG[k][..data.len()].copy_from_slice(data);
            let mut v = Vec::with_capacity(1 + CODEC_LEN);
            v.push(method);
            // the payload identifies which original it stands for
            v.push(k as u8);
            v.extend_from_slice(&CODEC_PAYLOAD[..CODEC_LEN - 1]);
            Ok(v)
        } else {
            Ok(data.to_vec())
        }
    }
}

fn decompress_stub(data: &[u8], _method: u8, expected: usize) -> Result<Vec<u8>> {
    unsafe {
        if data.len() == CODEC_LEN && (data[0] as usize) < ORIG_N && data[1] == CODEC_PAYLOAD[0] && data[2] == CODEC_PAYLOAD[1]
            && expected == ORIG_LEN[data[0] as usize]
        {
            let k = data[0] as usize;
            Ok(ORIG[k][..ORIG_LEN[k]].to_vec())
        } else {
            Err(Error::compression("abstract codec: not the stream that was produced"))
        }
    }
}

const ELEMENTWISE_IMAGE: bool = true;

pub(crate) struct Cfg {
    pub compression: u8,
    pub encrypt: bool,
    pub fix_key: bool,
    pub crc: bool,
    pub file_pos: u64,
}

/// write `data` with the real writer at `file_pos`, fabricate the archive around the result
fn write_and_open(data: &[u8], name: &str, cfg: &Cfg) -> (crate::Archive, usize, u32) {
    let b = ArchiveBuilder::new().generate_crcs(cfg.crc);
    let mut out: Vec<u8> = Vec::with_capacity(memfile::IMG_CAP);
    // filler in front of the file so that file_pos != 0 matters for FIX_KEY
    assert!(cfg.file_pos == 32);
    out.extend_from_slice(&[0xEEu8; 32]);
    let params = FileWriteParams {
        file_data: data,
        archive_name: name,
        compression: cfg.compression,
        encrypt: cfg.encrypt,
        use_fix_key: cfg.fix_key,
        sector_size: 512,
        file_pos: cfg.file_pos,
    };
    let r = b.write_file(&mut out, &params);
    assert!(r.is_ok(), "write_file failed on valid input");
    let (stored, flags) = r.unwrap();
    // the size the block table will declare covers exactly the bytes written (checksums are appended after it)
    let written = out.len() - 32;
    let crc_bytes = if flags & BlockEntry::FLAG_SECTOR_CRC != 0 {
        if flags & BlockEntry::FLAG_SINGLE_UNIT != 0 { 4 } else { 4 * data.len().div_ceil(512) }
    } else { 0 };
    assert!(stored + crc_bytes == written, "stored size declared for the block table differs from the bytes written");
    if ELEMENTWISE_IMAGE {
        memfile::set_image_elementwise(&out);
        unsafe { memfile::ELEMENTWISE = true; }
    } else {
        memfile::set_image(&out);
    }
    let mut ht = HashTable::new(4).unwrap();
    let mut bt = BlockTable::new(1).unwrap();
    *bt.get_mut(0).unwrap() = BlockEntry {
        file_pos: cfg.file_pos as u32,
        compressed_size: stored as u32,
        file_size: data.len() as u32,
        flags: flags | BlockEntry::FLAG_EXISTS,
    };
    assert!(b.add_to_hash_table(&mut ht, name, 0, 0).is_ok());
    std::mem::forget(b);
    std::mem::forget(out);
    (fab_archive(ht, bt, 0), stored, flags)
}

fn roundtrip<const N: usize>(data: &[u8; N], name: &str, lookup: &str, cfg: &Cfg) {
    let (mut a, stored, flags) = write_and_open(data, name, cfg);
    kani::cover!(stored > 0 || N == 0, "file stored");
    let r = a.read_file(lookup);
    assert!(r.is_ok(), "file written by the builder cannot be read back");
    let got = r.unwrap();
    assert!(got.len() == N, "read length differs from written length");
    if N > 0 {
        let i: usize = kani::any();
        kani::assume(i < N);
        assert!(got[i] == data[i], "read content differs from written content");
    }
    let _ = flags;
    std::mem::forget((a, got));
}

macro_rules! path_harness {
    ($name:ident, $body:block) => {
        #[kani::proof]
        #[kani::unwind(80)]
        #[kani::stub(std::fmt::format, vio::fmt_stub)]
        #[kani::stub(<std::fs::File as std::io::Read>::read, memfile::mem_read)]
        #[kani::stub(<std::fs::File as std::io::Read>::read_buf, memfile::mem_read_buf)]
        #[kani::stub(<std::fs::File as std::io::Seek>::seek, memfile::mem_seek)]
        #[kani::stub(crate::compression::compress::compress, compress_stub)]
        #[kani::stub(crate::compression::decompress::decompress, decompress_stub)]
        fn $name() $body
    };
}

// ---- single-unit files, 5 symbolic bytes; the configuration flags are concrete per harness (a symbolic
// CRC flag merges the Adler-32 paths of writer and reader and exceeds 14 GB)
macro_rules! single_unit {
    ($name:ident, $comp:expr, $shrinks:expr, $enc:expr, $fix:expr, $crc:expr, $stored:expr, $lookup:expr) => {
        path_harness!($name, {
            let data: [u8; 5] = kani::any();
            unsafe { CODEC_SHRINKS = $shrinks; CODEC_PAYLOAD = kani::any(); ORIG_N = 0; }
            let cfg = Cfg { compression: $comp, encrypt: $enc, fix_key: $fix, crc: $crc, file_pos: 32 };
            roundtrip(&data, $stored, $lookup, &cfg);
        });
    };
}
single_unit!(c01d_su_plain,            0, false, false, false, false, "a\\b.txt", "A/B.TXT");
single_unit!(c01d_su_plain_crc,        0, false, false, false, true,  "a\\b.txt", "a\\b.txt");
single_unit!(c01d_su_codec_shrinks,    2, true,  false, false, false, "a\\b.txt", "a/B.txt");
single_unit!(c01d_su_codec_noshrink,   2, false, false, false, false, "a\\b.txt", "a\\b.txt");
single_unit!(c01d_su_codec_crc,        2, true,  false, false, true,  "a\\b.txt", "a\\b.txt");
single_unit!(c01d_su_enc,              0, false, true,  false, false, "a\\b.txt", "A\\b.TXT");
single_unit!(c01d_su_enc_fix,          0, false, true,  true,  false, "a\\b.txt", "a/b.txt");
single_unit!(c01d_su_enc_codec,        2, true,  true,  false, false, "a\\b.txt", "a\\b.txt");
single_unit!(c01d_su_enc_fix_codec,    2, true,  true,  true,  false, "a\\b.txt", "A\\B.txt");
single_unit!(c01d_su_enc_fix_codec_crc, 2, true, true,  true,  true,  "a\\b.txt", "a\\b.txt");
single_unit!(c01d_su_enc_crc,          0, false, true,  false, true,  "a\\b.txt", "a\\b.txt");

// ---- multi-sector files: 513 bytes at sector size 512 (two sectors); the last 4 bytes of sector 0 and the
// single byte of sector 1 are symbolic, the rest is concrete (a chained cipher over 128 symbolic words is
// SAT-infeasible)
macro_rules! multi_sector {
    ($name:ident, $comp:expr, $shrinks:expr, $enc:expr, $fix:expr, $crc:expr) => {
        #[kani::proof]
        #[kani::unwind(700)]
        #[kani::stub(std::fmt::format, vio::fmt_stub)]
        #[kani::stub(<std::fs::File as std::io::Read>::read, memfile::mem_read)]
        #[kani::stub(<std::fs::File as std::io::Read>::read_buf, memfile::mem_read_buf)]
        #[kani::stub(<std::fs::File as std::io::Seek>::seek, memfile::mem_seek)]
        #[kani::stub(crate::compression::compress::compress, compress_stub)]
        #[kani::stub(crate::compression::decompress::decompress, decompress_stub)]
        fn $name() {
            let mut data = [0x11u8; 513];
            let tail: [u8; 5] = kani::any();
            data[508..513].copy_from_slice(&tail);
            unsafe { CODEC_SHRINKS = $shrinks; CODEC_PAYLOAD = kani::any(); ORIG_N = 0; }
            let cfg = Cfg { compression: $comp, encrypt: $enc, fix_key: $fix, crc: $crc, file_pos: 32 };
            let (mut a, stored, _flags) = write_and_open(&data, "a\\b.txt", &cfg);
            kani::cover!(stored > 0);
            let r = a.read_file("A/b.TXT");
            assert!(r.is_ok(), "multi-sector file written by the builder cannot be read back");
            let got = r.unwrap();
            assert!(got.len() == 513, "read length differs from written length");
            let i: usize = kani::any();
            kani::assume(i < 513);
            assert!(got[i] == data[i], "read content differs from written content");
            std::mem::forget((a, got));
        }
    };
}
multi_sector!(c01d_ms_plain,          0, false, false, false, false);
multi_sector!(c01d_ms_plain_crcflag,  0, false, false, false, true);
multi_sector!(c01d_ms_codec,          2, true,  false, false, false);
multi_sector!(c01d_ms_codec_crc,      2, true,  false, false, true);
multi_sector!(c01d_ms_enc,            0, false, true,  false, false);
multi_sector!(c01d_ms_enc_fix,        0, false, true,  true,  false);
multi_sector!(c01d_ms_enc_codec,      2, true,  true,  false, false);
multi_sector!(c01d_ms_enc_fix_codec,  2, true,  true,  true,  false);

path_harness!(c01d_empty_file, {
    let data: [u8; 0] = [];
    unsafe { CODEC_SHRINKS = false; ORIG_N = 0; }
    let cfg = Cfg { compression: 0, encrypt: kani::any(), fix_key: kani::any(), crc: false, file_pos: 32 };
    roundtrip(&data, "e", "E", &cfg);
});

// an empty file with sector checksums requested: what the builder flags and writes must be readable (the intact
// archive verifies) - the checksum of zero bytes is still a checksum
// (writer side only: the reader's checksum branch on a zero-length buffer trips Kani's deallocation model -
// "rust_dealloc must be called on an object whose allocated size matches its layout" - on the unchanged tree, an
// artefact of the zero-capacity Vec clone, not a property violation; the one-byte file below goes through the reader)
fn empty_file_crc_body() {
    let data: [u8; 0] = [];
    unsafe { CODEC_SHRINKS = false; ORIG_N = 0; }
    let b = ArchiveBuilder::new().generate_crcs(true);
    let mut out: Vec<u8> = Vec::with_capacity(64);
    let params = FileWriteParams { file_data: &data, archive_name: "e", compression: 0, encrypt: kani::any(), use_fix_key: kani::any(), sector_size: 512, file_pos: 32 };
    let r = b.write_file(&mut out, &params);
    assert!(r.is_ok(), "write_file failed on an empty file");
    let (stored, flags) = r.unwrap();
    kani::cover!(flags & BlockEntry::FLAG_SECTOR_CRC != 0);
    assert!(stored == 0, "empty file stored with a non-zero size");
    // a file flagged as checksummed carries its checksum: Adler-32 of zero bytes is 1
    if flags & BlockEntry::FLAG_SECTOR_CRC != 0 {
        assert!(out.len() == 4 && out[0] == 1 && out[1] == 0 && out[2] == 0 && out[3] == 0,
            "file flagged as carrying a sector checksum, but the checksum of its (empty) content was not written");
    } else {
        assert!(out.len() == 0, "bytes written for an empty file without a checksum flag");
    }
    std::mem::forget((b, out));
}
path_harness!(c01d_empty_file_crc, { empty_file_crc_body() });
path_harness!(c10d_empty_file_checksum_written, { empty_file_crc_body() });
path_harness!(c01d_one_byte_file_crc, {
    let data: [u8; 1] = kani::any();
    unsafe { CODEC_SHRINKS = false; ORIG_N = 0; }
    let cfg = Cfg { compression: 0, encrypt: false, fix_key: false, crc: true, file_pos: 32 };
    roundtrip(&data, "e", "E", &cfg);
});

path_harness!(c01d_absent_name_not_found, {
    let data: [u8; 3] = kani::any();
    unsafe { CODEC_SHRINKS = false; ORIG_N = 0; }
    let cfg = Cfg { compression: 0, encrypt: false, fix_key: false, crc: false, file_pos: 32 };
    let (mut a, _s, _f) = write_and_open(&data, "a\\b.txt", &cfg);
    let r = a.read_file("a\\c.txt");
    kani::cover!(r.is_err());
    assert!(r.is_err(), "a name that was never added resolves to some content");
    std::mem::forget((a, r));
});

#[kani::proof]
#[kani::unwind(80)]
#[kani::stub(std::fmt::format, vio::fmt_stub)]
#[kani::stub(<std::fs::File as std::io::Read>::read, memfile::mem_read)]
#[kani::stub(<std::fs::File as std::io::Read>::read_buf, memfile::mem_read_buf)]
#[kani::stub(<std::fs::File as std::io::Seek>::seek, memfile::mem_seek)]
fn c01d_canary() {
    let data: [u8; 5] = kani::any();
    let cfg = Cfg { compression: 0, encrypt: false, fix_key: false, crc: false, file_pos: 32 };
    let (mut a, _s, _f) = write_and_open(&data, "a", &cfg);
    let got = a.read_file("a").unwrap();
    assert!(got[0] != data[0], "canary: must be reported as failing");
    std::mem::forget((a, got));
}

// ---------------------------------------------------------------- C10.d single-byte faults vs the sector checksum
/// a file written with a sector checksum: any single-byte change to its stored data or to the stored
/// checksum makes read_file fail, or the returned content is still the original
#[kani::proof]
#[kani::unwind(80)]
#[kani::stub(std::fmt::format, vio::fmt_stub)]
#[kani::stub(<std::fs::File as std::io::Read>::read, memfile::mem_read)]
#[kani::stub(<std::fs::File as std::io::Read>::read_buf, memfile::mem_read_buf)]
#[kani::stub(<std::fs::File as std::io::Seek>::seek, memfile::mem_seek)]
fn c10d_single_byte_fault_detected() {
    let data: [u8; 6] = kani::any();
    unsafe { CODEC_SHRINKS = false; ORIG_N = 0; }
    let cfg = Cfg { compression: 0, encrypt: false, fix_key: false, crc: true, file_pos: 32 };
    let (mut a, stored, flags) = write_and_open(&data, "a", &cfg);
    assert!(stored == 6 && flags & BlockEntry::FLAG_SECTOR_CRC != 0, "checksum was requested but the file carries none");
    let off: usize = kani::any();
    let mask: u8 = kani::any();
    kani::assume(off < 6 + 4 && mask != 0);
    unsafe { memfile::IMG[32 + off] ^= mask; }
    let r = a.read_file("a");
    kani::cover!(r.is_err(), "fault detected");
    if let Ok(got) = &r {
        let i: usize = kani::any();
        kani::assume(i < 6);
        assert!(got.len() == 6 && got[i] == data[i], "altered protected data was returned without an error");
    }
    std::mem::forget((a, r));
}

/// the unmodified file verifies
#[kani::proof]
#[kani::unwind(80)]
#[kani::stub(std::fmt::format, vio::fmt_stub)]
#[kani::stub(<std::fs::File as std::io::Read>::read, memfile::mem_read)]
#[kani::stub(<std::fs::File as std::io::Read>::read_buf, memfile::mem_read_buf)]
#[kani::stub(<std::fs::File as std::io::Seek>::seek, memfile::mem_seek)]
fn c10d_intact_file_verifies() {
    let data: [u8; 6] = kani::any();
    unsafe { CODEC_SHRINKS = false; ORIG_N = 0; }
    let cfg = Cfg { compression: 0, encrypt: false, fix_key: false, crc: true, file_pos: 32 };
    let (mut a, _stored, _flags) = write_and_open(&data, "a", &cfg);
    let r = a.read_file("a");
    kani::cover!(r.is_ok());
    assert!(r.is_ok(), "intact file with a sector checksum fails verification");
    std::mem::forget((a, r));
}

// ---------------------------------------------------------------- C02.d reference writer -> real reader
// Files laid out per the published format by a reference writer (not by the builder): the real reader must
// return their content.
fn put32(v: &mut Vec<u8>, x: u32) { v.extend_from_slice(&x.to_le_bytes()); }

fn open_reference(image: &[u8], file_size: u32, stored: u32, flags: u32) -> crate::Archive {
    memfile::set_image_elementwise(image);
    unsafe { memfile::ELEMENTWISE = true; }
    let b = ArchiveBuilder::new();
    let mut ht = HashTable::new(4).unwrap();
    let mut bt = BlockTable::new(1).unwrap();
    *bt.get_mut(0).unwrap() = BlockEntry { file_pos: 32, compressed_size: stored, file_size, flags: flags | BlockEntry::FLAG_EXISTS };
    assert!(b.add_to_hash_table(&mut ht, "a", 0, 0).is_ok());
    std::mem::forget(b);
    fab_archive(ht, bt, 0)
}

/// a compressed file of at most one sector stored WITHOUT the single-unit flag: two-entry sector offset
/// table followed by the one compressed sector (method byte + payload)
#[kani::proof]
#[kani::unwind(80)]
#[kani::stub(std::fmt::format, vio::fmt_stub)]
#[kani::stub(<std::fs::File as std::io::Read>::read, memfile::mem_read)]
#[kani::stub(<std::fs::File as std::io::Read>::read_buf, memfile::mem_read_buf)]
#[kani::stub(<std::fs::File as std::io::Seek>::seek, memfile::mem_seek)]
#[kani::stub(crate::compression::decompress::decompress, decompress_stub)]
fn c02d_reference_one_sector_compressed() {
    let data: [u8; 6] = kani::any();
    let payload: [u8; 4] = kani::any();
    unsafe {
        CODEC_PAYLOAD = payload;
        ORIG_N = 1;
        ORIG_LEN[0] = 6;
        ORIG[0][..6].copy_from_slice(&data);
    }
    // reference layout: offsets [8, 12], then method byte 0x02 + 3 payload bytes (payload[0] is the codec's id 0)
    let mut img: Vec<u8> = Vec::with_capacity(64);
    img.extend_from_slice(&[0xEEu8; 32]);
    put32(&mut img, 8);
    put32(&mut img, 12);
    img.push(0x02);
    img.push(0);
    img.push(payload[0]);
    img.push(payload[1]);
    let mut a = open_reference(&img, 6, 12, BlockEntry::FLAG_COMPRESS);
    let r = a.read_file("a");
    kani::cover!(r.is_ok());
    assert!(r.is_ok(), "format-conformant one-sector compressed file is rejected");
    let got = r.unwrap();
    let i: usize = kani::any();
    kani::assume(i < 6);
    assert!(got.len() == 6 && got[i] == data[i], "format-conformant one-sector compressed file is read differently from what was stored");
    std::mem::forget((a, got, img));
}

/// an uncompressed, unencrypted file stored as raw bytes (no offset table), single-unit or not
#[kani::proof]
#[kani::unwind(80)]
#[kani::stub(std::fmt::format, vio::fmt_stub)]
#[kani::stub(<std::fs::File as std::io::Read>::read, memfile::mem_read)]
#[kani::stub(<std::fs::File as std::io::Read>::read_buf, memfile::mem_read_buf)]
#[kani::stub(<std::fs::File as std::io::Seek>::seek, memfile::mem_seek)]
fn c02d_reference_stored_file() {
    let data: [u8; 6] = kani::any();
    let single_unit: bool = kani::any();
    let mut img: Vec<u8> = Vec::with_capacity(64);
    img.extend_from_slice(&[0xEEu8; 32]);
    img.extend_from_slice(&data);
    let mut a = open_reference(&img, 6, 6, if single_unit { BlockEntry::FLAG_SINGLE_UNIT } else { 0 });
    let r = a.read_file("A");
    kani::cover!(r.is_ok());
    assert!(r.is_ok(), "format-conformant stored file is rejected");
    let got = r.unwrap();
    let i: usize = kani::any();
    kani::assume(i < 6);
    assert!(got.len() == 6 && got[i] == data[i], "format-conformant stored file is read differently");
    std::mem::forget((a, got, img));
}

/// acceptance implies the checksum really matches: data byte altered AND the stored checksum replaced by
/// arbitrary bytes - whenever read_file still succeeds, the stored checksum is the Adler-32 of what it returns
#[kani::proof]
#[kani::unwind(80)]
#[kani::stub(std::fmt::format, vio::fmt_stub)]
#[kani::stub(<std::fs::File as std::io::Read>::read, memfile::mem_read)]
#[kani::stub(<std::fs::File as std::io::Read>::read_buf, memfile::mem_read_buf)]
#[kani::stub(<std::fs::File as std::io::Seek>::seek, memfile::mem_seek)]
fn c10d_accept_implies_checksum_matches() {
    let data: [u8; 2] = kani::any();
    unsafe { CODEC_SHRINKS = false; ORIG_N = 0; }
    let cfg = Cfg { compression: 0, encrypt: false, fix_key: false, crc: true, file_pos: 32 };
    let (mut a, stored, _flags) = write_and_open(&data, "a", &cfg);
    assert!(stored == 2);
    let off: usize = kani::any();
    let mask: u8 = kani::any();
    kani::assume(off < 2);
    let new_crc: [u8; 4] = kani::any();
    unsafe {
        memfile::IMG[32 + off] ^= mask;
        memfile::IMG[34] = new_crc[0];
        memfile::IMG[35] = new_crc[1];
        memfile::IMG[36] = new_crc[2];
        memfile::IMG[37] = new_crc[3];
    }
    let r = a.read_file("a");
    kani::cover!(r.is_ok() && mask != 0, "a consistent rewrite of data and checksum is accepted");
    kani::cover!(r.is_err());
    if let Ok(got) = &r {
        assert!(got.len() == 2);
        // Adler-32 of two bytes in closed form (RFC 1950): a = 1 + d0 + d1, b = 2 + 2*d0 + d1
        let (d0, d1) = (got[0] as u32, got[1] as u32);
        let want = ((2 + 2 * d0 + d1) << 16) | (1 + d0 + d1);
        assert!(want == u32::from_le_bytes(new_crc), "file accepted although its stored sector checksum does not match the returned content");
    }
    std::mem::forget((a, r));
}

// ---------------------------------------------------------------- C02.d stored size / first offset, writer only
#[path = "../ref/mpq_spec.rs"]
mod spec;
fn rd32(b: &[u8], o: usize) -> u32 { u32::from_le_bytes([b[o], b[o + 1], b[o + 2], b[o + 3]]) }

fn ms_stored_size(encrypt: bool, fix_key: bool) {
    let t = spec::crypt_table();
    let mut data = [0x11u8; 513];
    let tail: [u8; 5] = kani::any();
    data[508..513].copy_from_slice(&tail);
    unsafe { CODEC_SHRINKS = true; CODEC_PAYLOAD = kani::any(); ORIG_N = 0; }
    let b = ArchiveBuilder::new();
    let mut out: Vec<u8> = Vec::with_capacity(memfile::IMG_CAP);
    let params = FileWriteParams { file_data: &data, archive_name: "f", compression: 2, encrypt, use_fix_key: fix_key, sector_size: 512, file_pos: 32 };
    let r = b.write_file(&mut out, &params);
    assert!(r.is_ok());
    let (stored, flags) = r.unwrap();
    kani::cover!(flags & BlockEntry::FLAG_COMPRESS != 0);
    assert!(stored == out.len(), "stored size declared for the block table differs from the bytes written");
    let key = if encrypt { spec::file_key(&t, b"f", 32, 513, flags) } else { 0 };
    let mut offs = [rd32(&out, 0), rd32(&out, 4), rd32(&out, 8)];
    if encrypt {
        spec::decrypt(&t, &mut offs, key.wrapping_sub(1));
    }
    assert!(offs[0] == 12 && offs[2] as usize == stored, "sector offset table (under the format's key-1) does not start behind itself / end at the stored size");
    std::mem::forget((b, out));
}
macro_rules! ms_stored_harness {
    ($name:ident, $enc:expr, $fix:expr) => {
        #[kani::proof]
        #[kani::unwind(260)]
        #[kani::stub(std::fmt::format, vio::fmt_stub)]
        #[kani::stub(crate::compression::compress::compress, compress_stub)]
        fn $name() { ms_stored_size($enc, $fix) }
    };
}
ms_stored_harness!(c02d_ms_stored_size_codec, false, false);
ms_stored_harness!(c02d_ms_stored_size_enc_codec, true, false);
ms_stored_harness!(c02d_ms_stored_size_enc_fix_codec, true, true);

// ---------------------------------------------------------------- C02.d reference writer: encrypted files, archive behind a stub
/// an encrypted single-unit file (8 bytes = 2 cipher words) laid out per the published format - key from the plain
/// name, optionally adjusted by the block's offset RELATIVE TO THE MPQ HEADER and the file size - inside an archive
/// that starts `ARCH_OFF` bytes into the containing file (installer stub / user data in front of it)
fn reference_encrypted(fix_key: bool, arch_off: usize) {
    let t = spec::crypt_table();
    let data: [u8; 8] = kani::any();
    let flags = BlockEntry::FLAG_SINGLE_UNIT | BlockEntry::FLAG_ENCRYPTED | if fix_key { BlockEntry::FLAG_FIX_KEY } else { 0 };
    let key = spec::file_key(&t, b"a", 32, 8, flags);
    let mut words = [u32::from_le_bytes([data[0], data[1], data[2], data[3]]), u32::from_le_bytes([data[4], data[5], data[6], data[7]])];
    spec::encrypt(&t, &mut words, key);
    let mut img: Vec<u8> = Vec::with_capacity(256);
    let mut i = 0;
    while i < arch_off + 32 { img.push(0xEE); i += 1; }
    put32(&mut img, words[0]);
    put32(&mut img, words[1]);
    let mut a = open_reference(&img, 8, 8, flags);
    a.verif_set_offset(arch_off as u64);
    let r = a.read_file("A");
    kani::cover!(r.is_ok());
    assert!(r.is_ok(), "format-conformant encrypted file is rejected");
    let got = r.unwrap();
    let k: usize = kani::any();
    kani::assume(k < 8);
    assert!(got.len() == 8 && got[k] == data[k], "format-conformant encrypted file is decrypted with another key than the format's");
    std::mem::forget((a, got, img));
}
macro_rules! ref_enc {
    ($name:ident, $fix:expr, $off:expr) => {
        #[kani::proof]
        #[kani::unwind(260)]
        #[kani::stub(std::fmt::format, vio::fmt_stub)]
        #[kani::stub(<std::fs::File as std::io::Read>::read, memfile::mem_read)]
        #[kani::stub(<std::fs::File as std::io::Read>::read_buf, memfile::mem_read_buf)]
        #[kani::stub(<std::fs::File as std::io::Seek>::seek, memfile::mem_seek)]
        fn $name() { reference_encrypted($fix, $off) }
    };
}
ref_enc!(c02d_reference_encrypted, false, 0);
ref_enc!(c02d_reference_encrypted_fixkey, true, 0);
ref_enc!(c02d_reference_encrypted_fixkey_embedded, true, 64);

// ---------------------------------------------------------------- C01.d break-even: the REAL compress() decision between builder and reader
// only the codec behind compress() is replaced (it returns exactly len-1 arbitrary bytes, so that method byte + payload
// is as long as the file): whatever compress() decides, the builder's flag/size and the reader's raw-or-compressed
// decision must agree and the content must come back
static mut ZOUT: [u8; 6] = [0; 6];
static mut ZLEN: usize = 0;
fn zlib_stub(_d: &[u8]) -> Result<Vec<u8>> {
    let z = unsafe { ZOUT };
    Ok(z[..unsafe { ZLEN }].to_vec())
}
macro_rules! break_even {
    ($name:ident, $zlen:expr) => {
        #[kani::proof]
        #[kani::unwind(80)]
        #[kani::stub(std::fmt::format, vio::fmt_stub)]
        #[kani::stub(<std::fs::File as std::io::Read>::read, memfile::mem_read)]
        #[kani::stub(<std::fs::File as std::io::Read>::read_buf, memfile::mem_read_buf)]
        #[kani::stub(<std::fs::File as std::io::Seek>::seek, memfile::mem_seek)]
        #[kani::stub(crate::compression::algorithms::zlib::compress, zlib_stub)]
        #[kani::stub(crate::compression::decompress::decompress, decompress_stub)]
        fn $name() {
            let data: [u8; 5] = kani::any();
            unsafe { ZOUT = kani::any(); ZLEN = $zlen; ORIG_N = 0; }
            let cfg = Cfg { compression: 2, encrypt: false, fix_key: false, crc: false, file_pos: 32 };
            roundtrip(&data, "a\\b.txt", "a\\b.txt", &cfg);
        }
    };
}
break_even!(c01d_su_break_even, 4);
break_even!(c01d_su_codec_expands, 6);
