// C10.c / C05.mpq.5: (attributes) file round trip and parser totality.  Child module of
// src/special_files/attributes.rs.
#![allow(unused_imports, dead_code)]
#[path = "../env/io.rs"]
mod vio;
use super::*;

fn attrs_any(flags: u32) -> Attributes {
    let f = AttributeFlags::new(flags);
    let mut v = Vec::with_capacity(2);
    let mut i = 0;
    while i < 2 {
        v.push(FileAttributes {
            crc32: if f.has_crc32() { Some(kani::any()) } else { None },
            filetime: if f.has_filetime() { Some(kani::any()) } else { None },
            md5: if f.has_md5() { Some(kani::any()) } else { None },
            is_patch: if f.has_patch_bit() { Some(kani::any()) } else { None },
        });
        i += 1;
    }
    Attributes { version: Attributes::EXPECTED_VERSION, flags: f, file_attributes: v, crc32: None, md5: None, filetime: None }
}

fn roundtrip(flags: u32) {
    let a = attrs_any(flags);
    let b = a.to_bytes();
    assert!(b.is_ok());
    let b = b.unwrap();
    let f = AttributeFlags::new(flags);
    let want = 8 + if f.has_crc32() { 8 } else { 0 } + if f.has_filetime() { 16 } else { 0 } + if f.has_md5() { 32 } else { 0 } + if f.has_patch_bit() { 1 } else { 0 };
    assert!(b.len() == want, "(attributes) size differs from header + per-file arrays");
    let bytes = Bytes::from(b);
    let p = Attributes::parse(&bytes, 2);
    kani::cover!(p.is_ok());
    assert!(p.is_ok(), "(attributes) written by the library is rejected by its parser");
    let p = p.unwrap();
    assert!(p.flags.as_u32() == flags && p.file_attributes.len() == 2);
    let i: usize = kani::any();
    kani::assume(i < 2);
    let (x, y) = (&a.file_attributes[i], &p.file_attributes[i]);
    assert!(x.crc32 == y.crc32, "per-file CRC32 changed in write->parse");
    assert!(x.filetime == y.filetime, "per-file timestamp changed in write->parse");
    assert!(x.is_patch == y.is_patch, "per-file patch bit changed in write->parse");
    match (&x.md5, &y.md5) {
        (Some(m), Some(n)) => {
            let k: usize = kani::any();
            kani::assume(k < 16);
            assert!(m[k] == n[k], "per-file MD5 changed in write->parse");
        }
        (None, None) => {}
        _ => assert!(false, "per-file MD5 presence changed in write->parse"),
    }
    std::mem::forget((a, p, bytes));
}

macro_rules! attr_harness {
    ($name:ident, $flags:expr) => {
        #[kani::proof]
        #[kani::unwind(20)]
        #[kani::stub(std::fmt::format, vio::fmt_stub)]
        fn $name() { roundtrip($flags) }
    };
}
attr_harness!(c10c_attributes_roundtrip_crc, 0x1);
attr_harness!(c10c_attributes_roundtrip_crc_md5, 0x5);
attr_harness!(c10c_attributes_roundtrip_all, 0xF);
attr_harness!(c10c_attributes_roundtrip_time_patch, 0xA);

/// hostile (attributes) content: error or value, no panic, for block counts up to 2
#[kani::proof]
#[kani::unwind(20)]
#[kani::stub(std::fmt::format, vio::fmt_stub)]
fn c05_attributes_parse_total() {
    let mut raw: [u8; 24] = kani::any();
    raw[0..4].copy_from_slice(&100u32.to_le_bytes());
    let bytes = Bytes::copy_from_slice(&raw);
    // block counts concrete (a symbolic count makes every per-file Vec symbolic-length)
    let mut n = 0;
    while n <= 2 {
        let p = Attributes::parse(&bytes, n);
        kani::cover!(p.is_ok());
        kani::cover!(p.is_err());
        if let Ok(a) = &p {
            assert!(a.file_attributes.len() == n);
        }
        std::mem::forget(p);
        n += 1;
    }
    std::mem::forget(bytes);
}

#[kani::proof]
#[kani::unwind(20)]
#[kani::stub(std::fmt::format, vio::fmt_stub)]
fn c10c_canary() {
    let a = attrs_any(0x1);
    let b = a.to_bytes().unwrap();
    assert!(b.len() != 16, "canary: must be reported as failing");
    std::mem::forget((a, b));
}
