// C05.mpq.8 / C03.d: ADPCM decoder is total on arbitrary input.  Child module of compression/algorithms/adpcm.rs.
#![allow(unused_imports, dead_code)]
#[path = "../env/io.rs"]
mod vio;
use super::*;

fn decode_total<const N: usize>(stereo: bool, out_size: usize) {
    let input: [u8; N] = kani::any();
    let r = if stereo { decompress_stereo(&input, out_size) } else { decompress_mono(&input, out_size) };
    kani::cover!(r.is_ok());
    if let Ok(o) = &r {
        assert!(o.len() <= out_size + 2, "ADPCM decoder produced more than the requested size (+ one sample)");
        assert!(o.len() % 2 == 0, "ADPCM decoder produced half a sample");
    }
    std::mem::forget(r);
}
#[kani::proof]
#[kani::unwind(14)]
#[kani::stub(std::fmt::format, vio::fmt_stub)]
fn c05_adpcm_mono_total_n12() { decode_total::<12>(false, 32) }
#[kani::proof]
#[kani::unwind(14)]
#[kani::stub(std::fmt::format, vio::fmt_stub)]
fn c05_adpcm_stereo_total_n12() { decode_total::<12>(true, 32) }
#[kani::proof]
#[kani::unwind(8)]
#[kani::stub(std::fmt::format, vio::fmt_stub)]
fn c05_adpcm_mono_total_n5() { decode_total::<5>(false, 8) }

/// step index stays inside the step table for every coded byte
#[kani::proof]
#[kani::stub(std::fmt::format, vio::fmt_stub)]
fn c05_adpcm_next_step_index_in_table() {
    let idx: usize = kani::any();
    kani::assume(idx < STEP_SIZE_TABLE.len());
    let n = get_next_step_index(idx, kani::any());
    kani::cover!(n == 88);
    assert!(n < STEP_SIZE_TABLE.len(), "step index leaves the step-size table");
}

#[kani::proof]
#[kani::unwind(8)]
#[kani::stub(std::fmt::format, vio::fmt_stub)]
fn c05_adpcm_canary() {
    let input: [u8; 5] = kani::any();
    let r = decompress_mono(&input, 8);
    assert!(r.is_err(), "canary: must be reported as failing");
    std::mem::forget(r);
}
