// C03.c (acceptance of the compressor's output by the default limits) and C05.mpq.2 (validators are total).
// Attached as a child module of src/security.rs.
#![allow(unused_imports, dead_code)]
#[path = "../env/io.rs"]
mod vio;
use super::*;

fn instant_stub() -> std::time::Instant {
    // a fixed instant: the clock never advances, time limits never fire
    unsafe { std::mem::zeroed() }
}

fn limits_any() -> SecurityLimits {
    SecurityLimits {
        max_archive_size: kani::any(),
        max_hash_entries: kani::any(),
        max_block_entries: kani::any(),
        max_sector_shift: kani::any(),
        max_path_length: kani::any(),
        max_compression_ratio: kani::any(),
        max_decompressed_size: kani::any(),
        max_file_count: kani::any(),
        max_session_decompressed: kani::any(),
        max_decompression_time: Duration::from_secs(30),
        enable_pattern_detection: kani::any(),
        enable_adaptive_limits: kani::any(),
    }
}

// ------------------------------------------------------------------ C05.mpq.2 totality (no panic, no overflow)
#[kani::proof]
#[kani::stub(std::fmt::format, vio::fmt_stub)]
fn c05_sec_validate_header_total() {
    let l = limits_any();
    let r = validate_header_security(kani::any(), kani::any(), kani::any(), kani::any(), kani::any(), kani::any(),
        kani::any(), kani::any(), kani::any(), &l);
    kani::cover!(r.is_ok());
    kani::cover!(r.is_err());
    std::mem::forget(r);
}

/// accepted headers really satisfy what the rest of the loader relies on
#[kani::proof]
#[kani::stub(std::fmt::format, vio::fmt_stub)]
fn c05_sec_validate_header_postcondition() {
    let l = SecurityLimits::default();
    let (hs, asz, ver, shift, hto, bto, hts, bts): (u32, u32, u16, u16, u32, u32, u32, u32) =
        (kani::any(), kani::any(), kani::any(), kani::any(), kani::any(), kani::any(), kani::any(), kani::any());
    let r = validate_header_security(crate::signatures::MPQ_ARCHIVE, hs, asz, ver, shift, hto, bto, hts, bts, &l);
    if r.is_ok() {
        kani::cover!(hts == 16);
        assert!(hts.is_power_of_two() && hts <= 1_000_000, "accepted hash table size is not a bounded power of two");
        assert!(bts <= 1_000_000, "accepted block table size is unbounded");
        assert!(shift <= 20 && ver <= 4 && hs >= 32 && hs <= 1024);
        assert!((hto as u64) + (hts as u64) * 16 <= asz as u64 + 65536, "accepted hash table lies outside the archive");
        assert!((bto as u64) + (bts as u64) * 16 <= asz as u64 + 65536, "accepted block table lies outside the archive");
    }
    std::mem::forget(r);
}

#[kani::proof]
#[kani::stub(std::fmt::format, vio::fmt_stub)]
fn c05_sec_validate_bounds_total() {
    let l = limits_any();
    let r = validate_file_bounds(kani::any(), kani::any(), kani::any(), kani::any(), &l);
    kani::cover!(r.is_ok());
    std::mem::forget(r);
    let r2 = validate_table_entry(kani::any(), kani::any(), kani::any(), kani::any(), kani::any(), &l);
    kani::cover!(r2.is_ok());
    std::mem::forget(r2);
    let r3 = validate_sector_data(kani::any(), kani::any(), kani::any(), kani::any());
    std::mem::forget(r3);
}

/// accepted file extents lie inside the archive
#[kani::proof]
#[kani::stub(std::fmt::format, vio::fmt_stub)]
fn c05_sec_validate_bounds_postcondition() {
    let l = SecurityLimits::default();
    let (off, fsz, csz, asz): (u64, u64, u64, u64) = (kani::any(), kani::any(), kani::any(), kani::any());
    let r = validate_file_bounds(off, fsz, csz, asz, &l);
    if r.is_ok() {
        kani::cover!(csz == 1);
        assert!(csz > 0 && off.checked_add(csz).is_some() && off + csz <= asz, "accepted extent leaves the archive");
        assert!(fsz <= l.max_decompressed_size, "accepted file larger than the decompression cap");
    }
    std::mem::forget(r);
}

#[kani::proof]
#[kani::stub(std::fmt::format, vio::fmt_stub)]
fn c05_sec_adaptive_limit_total() {
    let a = AdaptiveCompressionLimits::new(kani::any(), kani::any());
    kani::assume(a.base_limit <= 1_000_000);
    let v = a.calculate_limit(kani::any(), kani::any());
    kani::cover!(v == 50000);
    assert!(!a.enabled || (v >= 50 && v <= 50000), "adaptive limit outside its documented clamp");
}

#[kani::proof]
#[kani::stub(std::fmt::format, vio::fmt_stub)]
fn c05_sec_bomb_patterns_total() {
    let l = limits_any();
    kani::assume(l.max_compression_ratio <= 1_000_000);
    // configured caps are sizes of real buffers: below 2^60 (the 3/4 warning threshold multiplies by 3)
    kani::assume(l.max_decompressed_size >= 1 && l.max_decompressed_size <= (1u64 << 60));
    let r = detect_compression_bomb_patterns(kani::any(), kani::any(), kani::any(), None, &l);
    kani::cover!(r.is_err());
    std::mem::forget(r);
}

#[kani::proof]
#[kani::stub(std::fmt::format, vio::fmt_stub)]
fn c05_sec_result_tolerance_total() {
    let (e, a, t): (u64, u64, u8) = (kani::any(), kani::any(), kani::any());
    // the library calls it with 10 percent; any percentage up to 100 must not overflow for sizes up to 2^56
    kani::assume(t <= 100 && e <= (1u64 << 56));
    let r = validate_decompression_result(e, a, t);
    kani::cover!(r.is_err());
    if a == e {
        assert!(r.is_ok(), "exact-size result rejected");
    }
    std::mem::forget(r);
}

// ------------------------------------------------------------------ C03.c acceptance of emit-able size pairs
/// `d` bytes compressed to `c` bytes (payload without the method byte) by `method`, with the only feasibility
/// assumption being the format-level ratio ceiling of the codec; must be accepted by the default limits.
fn accepts(method: u8, d_max: u64, ceiling: Option<u64>, exclude_known: bool) {
    let c: u64 = kani::any();
    let d: u64 = kani::any();
    kani::assume(c >= 1 && d >= 3 && d <= d_max);
    kani::assume(c < d && c + 1 < d); // the store-raw rule: only shrinking output is ever stored compressed
    if let Some(k) = ceiling {
        kani::assume(d <= c * k);
    }
    if exclude_known {
        // KF-C03-ratio: the non-adaptive ratio test of validate_file_bounds
        kani::assume(d / c <= 1000);
    }
    let tracker = SessionTracker::new();
    let limits = SecurityLimits::default();
    let r = validate_decompression_operation(c, d, method, None, &tracker, &limits);
    kani::cover!(d == d_max);
    kani::cover!(r.is_ok());
    assert!(r.is_ok(), "size pair the compressor can emit is rejected by the default limits");
    std::mem::forget((r, tracker, limits));
}

#[kani::proof]
#[kani::stub(std::fmt::format, vio::fmt_stub)]
#[kani::stub(std::time::Instant::now, instant_stub)]
fn c03c_accept_zlib_2mib() { accepts(0x02, 1 << 21, Some(1032), true) }
#[kani::proof]
#[kani::stub(std::fmt::format, vio::fmt_stub)]
#[kani::stub(std::time::Instant::now, instant_stub)]
fn c03c_accept_bzip2_2mib() { accepts(0x10, 1 << 21, None, true) }
#[kani::proof]
#[kani::stub(std::fmt::format, vio::fmt_stub)]
#[kani::stub(std::time::Instant::now, instant_stub)]
fn c03c_accept_lzma_2mib() { accepts(0x12, 1 << 21, None, true) }
#[kani::proof]
#[kani::stub(std::fmt::format, vio::fmt_stub)]
#[kani::stub(std::time::Instant::now, instant_stub)]
fn c03c_accept_sparse_2mib() { accepts(0x20, 1 << 21, Some(128), true) }
/// sparse, exact feasibility: the stream is a 4-byte length header plus control bytes, and one control byte stands for
/// at most 130 output bytes (a zero run of (b & 0x7F) + 3), so d <= 130 * (c - 4)
#[kani::proof]
#[kani::stub(std::fmt::format, vio::fmt_stub)]
#[kani::stub(std::time::Instant::now, instant_stub)]
fn c03c_accept_sparse_exact_2mib() {
    let c: u64 = kani::any();
    let d: u64 = kani::any();
    kani::assume(c >= 5 && c <= (1 << 21) && d >= 3 && d <= (1 << 21));
    kani::assume(c + 1 < d && d <= (c - 4) * 130);
    let tracker = SessionTracker::new();
    let limits = SecurityLimits::default();
    let r = validate_decompression_operation(c, d, 0x20, None, &tracker, &limits);
    kani::cover!(d == (1 << 21) && d / c >= 129);
    assert!(r.is_ok(), "size pair the sparse compressor can emit is rejected by the default limits");
    std::mem::forget((r, tracker, limits));
}
#[kani::proof]
#[kani::stub(std::fmt::format, vio::fmt_stub)]
#[kani::stub(std::time::Instant::now, instant_stub)]
fn c03c_accept_pkware_2mib() { accepts(0x08, 1 << 21, None, true) }
#[kani::proof]
#[kani::stub(std::fmt::format, vio::fmt_stub)]
#[kani::stub(std::time::Instant::now, instant_stub)]
fn c03c_accept_huffman_2mib() { accepts(0x01, 1 << 21, Some(8), true) }
#[kani::proof]
#[kani::stub(std::fmt::format, vio::fmt_stub)]
#[kani::stub(std::time::Instant::now, instant_stub)]
fn c03c_accept_adpcm_zlib_2mib() { accepts(0x42, 1 << 21, None, true) }
#[kani::proof]
#[kani::stub(std::fmt::format, vio::fmt_stub)]
#[kani::stub(std::time::Instant::now, instant_stub)]
fn c03c_accept_zlib_100mib() { accepts(0x02, 100 << 20, Some(1032), true) }

/// witness of KF-C03-ratio: zlib, 2 MiB of zeros compresses to 2057 bytes (ratio 1019 > 1000)
#[kani::proof]
#[kani::stub(std::fmt::format, vio::fmt_stub)]
#[kani::stub(std::time::Instant::now, instant_stub)]
fn c03c_accept_ratio_witness() {
    let tracker = SessionTracker::new();
    let limits = SecurityLimits::default();
    let r = validate_decompression_operation(2057, 1 << 21, 0x02, None, &tracker, &limits);
    assert!(r.is_ok(), "size pair the compressor can emit is rejected by the default limits");
    std::mem::forget((r, tracker, limits));
}

#[kani::proof]
#[kani::stub(std::fmt::format, vio::fmt_stub)]
fn c03_sec_canary() {
    let l = SecurityLimits::default();
    let r = validate_file_bounds(0, 10, kani::any(), 100, &l);
    assert!(r.is_ok(), "canary: must be reported as failing");
    std::mem::forget(r);
}
