// C03.a: the store-raw rule of compress(), decided for EVERY behaviour of the codec behind it.
// Attached as a child module of src/compression/compress.rs (compress_internal is private).
#![allow(unused_imports, dead_code)]
#[path = "../env/io.rs"]
mod vio;
use super::*;

static mut CODEC_FAILS: bool = false;
static mut CODEC_OUT: [u8; 8] = [0; 8];
static mut CODEC_LEN: usize = 0;

/// nondeterministic codec: fails, or returns CODEC_LEN arbitrary bytes
fn codec_stub(_data: &[u8], _method: u8) -> Result<Vec<u8>> {
    unsafe {
        if CODEC_FAILS {
            return Err(Error::compression("codec failed"));
        }
        let out = CODEC_OUT;
        Ok(out[..CODEC_LEN].to_vec())
    }
}

fn store_raw_rule<const N: usize, const L: usize>() {
    let data: [u8; N] = kani::any();
    let method: u8 = kani::any();
    unsafe {
        CODEC_FAILS = kani::any();
        CODEC_OUT = kani::any();
        CODEC_LEN = L;
    }
    let fails = unsafe { CODEC_FAILS };
    let r = compress(&data, method);
    if fails {
        assert!(r.is_err(), "codec error swallowed");
        std::mem::forget(r);
        return;
    }
    assert!(r.is_ok());
    let out = r.unwrap();
    kani::cover!(out.len() == if L + 1 < N { L + 1 } else { N }, "expected stored length reachable");
    // never longer than the input
    assert!(out.len() <= N, "stored form is longer than the input");
    if L + 1 < N {
        // shrinking: method byte + payload
        assert!(out.len() == L + 1 && out[0] == method, "shrinking codec output not stored as method byte + payload");
        let i: usize = kani::any();
        kani::assume(i < L);
        assert!(out[1 + i] == unsafe { CODEC_OUT }[i], "payload bytes altered");
        // the reader's decision (stored length < true length => compressed) agrees
        assert!(out.len() < N);
    } else {
        // not shrinking: stored raw, so that the reader's size comparison sees "not compressed"
        assert!(out.len() == N, "non-shrinking codec output not stored raw");
        let i: usize = kani::any();
        kani::assume(i < N);
        assert!(out[i] == data[i], "raw-stored data altered");
    }
    std::mem::forget(out);
}

macro_rules! rule {
    ($name:ident, $n:expr, $l:expr) => {
        #[kani::proof]
        #[kani::unwind(10)]
        #[kani::stub(std::fmt::format, vio::fmt_stub)]
        #[kani::stub(compress_internal, codec_stub)]
        fn $name() { store_raw_rule::<$n, $l>() }
    };
}
rule!(c03a_store_raw_n1_l0, 1, 0);
rule!(c03a_store_raw_n1_l1, 1, 1);
rule!(c03a_store_raw_n2_l0, 2, 0);
rule!(c03a_store_raw_n2_l1, 2, 1);
rule!(c03a_store_raw_n3_l1, 3, 1);
rule!(c03a_store_raw_n3_l2, 3, 2);
rule!(c03a_store_raw_n5_l3, 5, 3);
rule!(c03a_store_raw_n5_l4, 5, 4);
rule!(c03a_store_raw_n5_l5, 5, 5);
rule!(c03a_store_raw_n5_l6, 5, 6);
rule!(c03a_store_raw_n6_l4, 6, 4);
rule!(c03a_store_raw_n6_l5, 6, 5);

#[kani::proof]
#[kani::unwind(10)]
#[kani::stub(std::fmt::format, vio::fmt_stub)]
#[kani::stub(compress_internal, codec_stub)]
fn c03a_canary() {
    unsafe { CODEC_FAILS = false; CODEC_OUT = kani::any(); CODEC_LEN = 2; }
    let data: [u8; 5] = kani::any();
    let out = compress(&data, 2).unwrap();
    assert!(out.len() == 5, "canary: must be reported as failing");
    std::mem::forget(out);
}
