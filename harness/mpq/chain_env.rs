// Model of `wow_mpq::Archive` for the derived copy of patch_chain.rs (gen/patch_chain_m.rs): exactly the API
// surface PatchChain uses.  An archive is identified by its path ("a", "b", "c"), holds at most two files with
// the fixed names X and Y (archive "b" lists them in lower case: MPQ names are case-insensitive), each either
// absent or present with one content byte, never a patch file.  `open` looks the path up in a registry the
// harness fills with symbolic presence flags / content bytes.  No I/O, no heap, trivial drop.
#![allow(dead_code)]
use crate::{Error, FileEntry, Result};
use std::path::Path;

#[derive(Clone, Copy)]
pub struct Slot {
    /// `open` succeeds for this path
    pub known: bool,
    /// file X / file Y is in the archive
    pub present: [bool; 2],
    /// its one-byte content
    pub content: [u8; 2],
    /// the archive has no (listfile): `list` fails, `list_all` enumerates the tables
    pub no_listfile: bool,
}
pub const EMPTY: Slot = Slot { known: false, present: [false; 2], content: [0; 2], no_listfile: false };

static mut REG: [Slot; 3] = [EMPTY; 3];

pub fn reg_set(i: usize, s: Slot) {
    unsafe { (*std::ptr::addr_of_mut!(REG))[i] = s; }
}
pub fn reg_get(i: usize) -> Slot {
    unsafe { (*std::ptr::addr_of!(REG))[i] }
}

/// "a" | "b" | "c" -> 0 | 1 | 2
pub fn path_slot(p: &Path) -> Option<usize> {
    let b = p.as_os_str().as_encoded_bytes();
    if b.len() != 1 { return None; }
    match b[0] { b'a' => Some(0), b'b' => Some(1), b'c' => Some(2), _ => None }
}
/// "X" | "x" -> 0, "Y" | "y" -> 1 (MPQ lookups are case-insensitive)
pub fn name_idx(name: &str) -> Option<usize> {
    let b = name.as_bytes();
    if b.len() != 1 { return None; }
    match b[0].to_ascii_uppercase() { b'X' => Some(0), b'Y' => Some(1), _ => None }
}

#[derive(Debug)]
pub struct Archive {
    slot: usize,
}

pub struct FileInfo {
    flags: u32,
}
impl FileInfo {
    pub fn is_patch_file(&self) -> bool { (self.flags & crate::tables::BlockEntry::FLAG_PATCH_FILE) != 0 }
}

pub struct ArchiveInfo {
    pub file_count: usize,
    pub file_size: u64,
    pub format_version: crate::FormatVersion,
}

impl Archive {
    pub fn open<P: AsRef<Path>>(path: P) -> Result<Self> {
        match path_slot(path.as_ref()) {
            Some(i) if reg_get(i).known => Ok(Archive { slot: i }),
            _ => Err(Error::FileNotFound(String::new())),
        }
    }
    fn has(&self, name: &str) -> Option<u8> {
        let s = reg_get(self.slot);
        match name_idx(name) {
            Some(n) if s.present[n] => Some(s.content[n]),
            _ => None,
        }
    }
    pub fn find_file(&self, filename: &str) -> Result<Option<FileInfo>> {
        Ok(match self.has(filename) { Some(_) => Some(FileInfo { flags: 0 }), None => None })
    }
    pub fn read_file(&mut self, name: &str) -> Result<Vec<u8>> {
        match self.has(name) {
            Some(c) => { let mut v = Vec::with_capacity(1); v.push(c); Ok(v) }
            None => Err(Error::FileNotFound(String::new())),
        }
    }
    pub fn read_patch_file_raw(&mut self, _name: &str) -> Result<Vec<u8>> {
        Err(Error::FileNotFound(String::new()))
    }
    /// always two entries (concrete shape): an absent X or Y is listed as the filler name P; the filler is
    /// never queried, so "archive lacks X" and "archive holds P instead" are the same to the chain
    fn entries(&self) -> Vec<FileEntry> {
        let s = reg_get(self.slot);
        let lower = self.slot == 1;
        let n0: &str = if s.present[0] { if lower { "x" } else { "X" } } else { "P" };
        let n1: &str = if s.present[1] { if lower { "y" } else { "Y" } } else { "P" };
        let mut v = Vec::with_capacity(2);
        v.push(FileEntry { name: String::from(n0), size: 1, compressed_size: 1, flags: 0, hashes: None, table_indices: None });
        v.push(FileEntry { name: String::from(n1), size: 1, compressed_size: 1, flags: 0, hashes: None, table_indices: None });
        v
    }
    pub fn list(&mut self) -> Result<Vec<FileEntry>> {
        if reg_get(self.slot).no_listfile { return Err(Error::FileNotFound(String::new())); }
        Ok(self.entries())
    }
    pub fn list_all(&mut self) -> Result<Vec<FileEntry>> {
        Ok(self.entries())
    }
    pub fn get_info(&mut self) -> Result<ArchiveInfo> {
        Err(Error::FileNotFound(String::new()))
    }
}
