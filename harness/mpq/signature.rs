// C10.a/b: signature padding exactness and what the weak-signature digest covers.
// Child module of src/crypto/signature.rs.
#![allow(unused_imports, dead_code, static_mut_refs)]
#[path = "../env/io.rs"]
mod vio;
use super::*;
use vio::Src;

// ------------------------------------------------------------------ C10.a padding
/// the padding the library produces is accepted by the library's verifier
#[kani::proof]
#[kani::unwind(70)]
#[kani::stub(std::fmt::format, vio::fmt_stub)]
fn c10a_weak_padding_produced_verifies() {
    let h: [u8; 16] = kani::any();
    let p = create_pkcs1_v15_padding_md5(&h);
    assert!(p.is_ok());
    let p = p.unwrap();
    assert!(p.len() == WEAK_SIGNATURE_SIZE, "padded message is not 64 bytes");
    let v = verify_pkcs1_v15_md5(&p, &h);
    kani::cover!(matches!(v, Ok(true)));
    assert!(matches!(v, Ok(true)), "padding produced by the library does not verify");
    std::mem::forget((p, v));
}

/// no second encoding verifies: any 64-byte block accepted for digest h IS the produced padding, so
/// every change to the decrypted signature block is detected
#[kani::proof]
#[kani::unwind(70)]
#[kani::stub(std::fmt::format, vio::fmt_stub)]
fn c10a_weak_padding_exact() {
    let h: [u8; 16] = kani::any();
    let m: [u8; 64] = kani::any();
    let v = verify_pkcs1_v15_md5(&m, &h);
    if matches!(v, Ok(true)) {
        kani::cover!(true, "some block verifies");
        let p = create_pkcs1_v15_padding_md5(&h).unwrap();
        let i: usize = kani::any();
        kani::assume(i < 64);
        assert!(m[i] == p[i], "a block different from the canonical padding verifies");
        std::mem::forget(p);
    }
    std::mem::forget(v);
}

/// a changed digest does not verify against an unchanged block
#[kani::proof]
#[kani::unwind(70)]
#[kani::stub(std::fmt::format, vio::fmt_stub)]
fn c10a_weak_padding_other_digest_rejected() {
    let h: [u8; 16] = kani::any();
    let h2: [u8; 16] = kani::any();
    let i: usize = kani::any();
    kani::assume(i < 16 && h[i] != h2[i]);
    let p = create_pkcs1_v15_padding_md5(&h).unwrap();
    let v = verify_pkcs1_v15_md5(&p, &h2);
    kani::cover!(matches!(v, Ok(false)));
    assert!(!matches!(v, Ok(true)), "signature block verifies for a different digest");
    std::mem::forget((p, v));
}

#[kani::proof]
#[kani::unwind(260)]
#[kani::stub(std::fmt::format, vio::fmt_stub)]
fn c10a_strong_padding_exact() {
    let h: [u8; 20] = kani::any();
    let m: [u8; 256] = kani::any();
    let v = verify_mpq_strong_signature_padding(&m, &h);
    if matches!(v, Ok(true)) {
        kani::cover!(true, "some block verifies");
        let i: usize = kani::any();
        kani::assume(i < 256);
        let want = if i == 0 { 0x0B } else if i < 236 { 0xBB } else { h[i - 236] };
        assert!(m[i] == want, "a block different from 0x0B, 235 x 0xBB, digest verifies as strong signature");
    }
    std::mem::forget(v);
}

// ------------------------------------------------------------------ C10.b digest coverage (md5 tap)
static mut TAP: [[u8; 64]; 2] = [[0; 64]; 2];
static mut TAP_BLOCKS: usize = 0;

/// replaces the MD5 compression function: records the 64-byte blocks fed to it
fn md5_tap(_state: &mut [u32; 4], blocks: &[[u8; 64]]) {
    unsafe {
        let mut i = 0;
        while i < blocks.len() {
            if TAP_BLOCKS < 2 {
                TAP[TAP_BLOCKS] = blocks[i];
            }
            TAP_BLOCKS += 1;
            i += 1;
        }
    }
}

/// the byte stream fed to the digest is exactly data[begin..end] with the excluded window zeroed
/// (begin/end concrete per harness - a symbolic read length makes the digest's block buffering explode)
fn digest_coverage<const BEGIN: u64, const END: u64>() {
    let data: [u8; 24] = kani::any();
    let xb: u64 = kani::any();
    let xe: u64 = kani::any();
    kani::assume(xb <= xe && xe <= 24);
    let info = SignatureInfo::new_weak(BEGIN, END - BEGIN, xb, xe - xb, Vec::new());
    assert!(info.begin_mpq_data == BEGIN && info.end_mpq_data == END && info.begin_exclude == xb && info.end_exclude == xe);
    let src = Src::<24>::new(data, 24);
    unsafe { TAP_BLOCKS = 0; }
    let r = calculate_mpq_hash_md5(src, &info);
    assert!(r.is_ok());
    let n = (END - BEGIN) as usize;
    // fewer than 56 bytes: exactly one (padded) block reaches the compression function
    assert!(unsafe { TAP_BLOCKS } == 1, "unexpected number of digest blocks");
    let blk = unsafe { TAP[0] };
    let i: usize = kani::any();
    kani::assume(i < n);
    let pos = BEGIN as usize + i;
    let want = if (pos as u64) >= xb && (pos as u64) < xe { 0 } else { data[pos] };
    kani::cover!(xb == 8 && xe == 16);
    assert!(blk[i] == want, "digest input differs from the signed range with the signature window zeroed");
    assert!(blk[n] == 0x80, "bytes beyond the signed range are fed to the digest");
    let bits = u64::from_le_bytes([blk[56], blk[57], blk[58], blk[59], blk[60], blk[61], blk[62], blk[63]]);
    assert!(bits == 8 * n as u64, "digest length differs from the length of the signed range");
    std::mem::forget((info, r));
}
#[kani::proof]
#[kani::unwind(70)]
#[kani::stub(std::fmt::format, vio::fmt_stub)]
#[kani::stub(md5::compress::compress, md5_tap)]
fn c10b_weak_digest_covers_signed_range() { digest_coverage::<0, 24>() }
#[kani::proof]
#[kani::unwind(70)]
#[kani::stub(std::fmt::format, vio::fmt_stub)]
#[kani::stub(md5::compress::compress, md5_tap)]
fn c10b_weak_digest_covers_inner_range() { digest_coverage::<4, 20>() }

#[kani::proof]
#[kani::unwind(70)]
#[kani::stub(std::fmt::format, vio::fmt_stub)]
fn c10_sig_canary() {
    let h: [u8; 16] = kani::any();
    let m: [u8; 64] = kani::any();
    let v = verify_pkcs1_v15_md5(&m, &h);
    assert!(!matches!(v, Ok(true)), "canary: must be reported as failing");
    std::mem::forget(v);
}
