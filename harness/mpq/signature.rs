// C10.a/b: signature padding exactness and what the weak-signature digest covers.
// Child module of src/crypto/signature.rs.
#![allow(unused_imports, dead_code, static_mut_refs)]
#[path = "../env/io.rs"]
mod vio;
use super::*;
use vio::Src;

// ------------------------------------------------------------------ C10.a padding
/// the padding the library produces is accepted by the library's verifier
#[kani::proof]
#[kani::unwind(70)]
#[kani::stub(std::fmt::format, vio::fmt_stub)]
fn c10a_weak_padding_produced_verifies() {
    let h: [u8; 16] = kani::any();
    let p = create_pkcs1_v15_padding_md5(&h);
    assert!(p.is_ok());
    let p = p.unwrap();
    assert!(p.len() == WEAK_SIGNATURE_SIZE, "padded message is not 64 bytes");
    let v = verify_pkcs1_v15_md5(&p, &h);
    kani::cover!(matches!(v, Ok(true)));
    assert!(matches!(v, Ok(true)), "padding produced by the library does not verify");
    std::mem::forget((p, v));
}

/// no second encoding verifies: any 64-byte block accepted for digest h IS the produced padding, so
/// every change to the decrypted signature block is detected
#[kani::proof]
#[kani::unwind(70)]
#[kani::stub(std::fmt::format, vio::fmt_stub)]
fn c10a_weak_padding_exact() {
    let h: [u8; 16] = kani::any();
    let m: [u8; 64] = kani::any();
    let v = verify_pkcs1_v15_md5(&m, &h);
    if matches!(v, Ok(true)) {
        kani::cover!(true, "some block verifies");
        let p = create_pkcs1_v15_padding_md5(&h).unwrap();
        let i: usize = kani::any();
        kani::assume(i < 64);
        assert!(m[i] == p[i], "a block different from the canonical padding verifies");
        std::mem::forget(p);
    }
    std::mem::forget(v);
}

/// a changed digest does not verify against an unchanged block
#[kani::proof]
#[kani::unwind(70)]
#[kani::stub(std::fmt::format, vio::fmt_stub)]
fn c10a_weak_padding_other_digest_rejected() {
    let h: [u8; 16] = kani::any();
    let h2: [u8; 16] = kani::any();
    let i: usize = kani::any();
    kani::assume(i < 16 && h[i] != h2[i]);
    let p = create_pkcs1_v15_padding_md5(&h).unwrap();
    let v = verify_pkcs1_v15_md5(&p, &h2);
    kani::cover!(matches!(v, Ok(false)));
    assert!(!matches!(v, Ok(true)), "signature block verifies for a different digest");
    std::mem::forget((p, v));
}

#[kani::proof]
#[kani::unwind(260)]
#[kani::stub(std::fmt::format, vio::fmt_stub)]
fn c10a_strong_padding_exact() {
    let h: [u8; 20] = kani::any();
    let m: [u8; 256] = kani::any();
    let v = verify_mpq_strong_signature_padding(&m, &h);
    if matches!(v, Ok(true)) {
        kani::cover!(true, "some block verifies");
        let i: usize = kani::any();
        kani::assume(i < 256);
        let want = if i == 0 { 0x0B } else if i < 236 { 0xBB } else { h[i - 236] };
        assert!(m[i] == want, "a block different from 0x0B, 235 x 0xBB, digest verifies as strong signature");
    }
    std::mem::forget(v);
}

// ------------------------------------------------------------------ C10.b digest coverage (md5 tap)
static mut TAP: [[u8; 64]; 2] = [[0; 64]; 2];
static mut TAP_BLOCKS: usize = 0;

/// replaces the MD5 compression function: records the 64-byte blocks fed to it
fn md5_tap(_state: &mut [u32; 4], blocks: &[[u8; 64]]) {
    unsafe {
        let mut i = 0;
        while i < blocks.len() {
            if TAP_BLOCKS < 2 {
                TAP[TAP_BLOCKS] = blocks[i];
            }
            TAP_BLOCKS += 1;
            i += 1;
        }
    }
}

/// the byte stream fed to the digest is exactly data[begin..end] with the excluded window zeroed
/// (begin/end concrete per harness - a symbolic read length makes the digest's block buffering explode)
fn digest_coverage<const BEGIN: u64, const END: u64, const XB: u64, const XE: u64>() {
    let data: [u8; 24] = kani::any();
    let (xb, xe) = (XB, XE);
    let info = SignatureInfo::new_weak(BEGIN, END - BEGIN, xb, xe - xb, Vec::new());
    assert!(info.begin_mpq_data == BEGIN && info.end_mpq_data == END && info.begin_exclude == xb && info.end_exclude == xe);
    let src = Src::<24>::new(data, 24);
    unsafe { TAP_BLOCKS = 0; }
    let r = calculate_mpq_hash_md5(src, &info);
    assert!(r.is_ok());
    let n = (END - BEGIN) as usize;
    // fewer than 56 bytes: exactly one (padded) block reaches the compression function
    assert!(unsafe { TAP_BLOCKS } == 1, "unexpected number of digest blocks");
    let blk = unsafe { TAP[0] };
    let i: usize = kani::any();
    kani::assume(i < n);
    let pos = BEGIN as usize + i;
    let want = if (pos as u64) >= xb && (pos as u64) < xe { 0 } else { data[pos] };
    kani::cover!(i == n - 1);
    assert!(blk[i] == want, "digest input differs from the signed range with the signature window zeroed");
    assert!(blk[n] == 0x80, "bytes beyond the signed range are fed to the digest");
    let bits = u64::from_le_bytes([blk[56], blk[57], blk[58], blk[59], blk[60], blk[61], blk[62], blk[63]]);
    assert!(bits == 8 * n as u64, "digest length differs from the length of the signed range");
    std::mem::forget((info, r));
}
macro_rules! digest_harness {
    ($name:ident, $b:expr, $e:expr, $xb:expr, $xe:expr) => {
        #[kani::proof]
        #[kani::unwind(70)]
        #[kani::stub(std::fmt::format, vio::fmt_stub)]
        #[kani::stub(md5::compress::compress, md5_tap)]
        fn $name() { digest_coverage::<$b, $e, $xb, $xe>() }
    };
}
// (signed range, signature window): window inside, at the start, at the end, empty, reaching outside the range
digest_harness!(c10b_digest_window_inside, 0, 24, 8, 16);
digest_harness!(c10b_digest_window_at_start, 0, 24, 0, 4);
digest_harness!(c10b_digest_window_at_end, 0, 24, 20, 24);
digest_harness!(c10b_digest_window_empty, 0, 24, 12, 12);
digest_harness!(c10b_digest_inner_range_window_overlaps, 4, 20, 2, 9);


// ---- the signature window straddling a 64 KiB digest-unit boundary
static mut BIG_TAP: [[u8; 64]; 3] = [[0; 64]; 3];
static mut BIG_CALLS: usize = 0;
static mut BIG_BLOCKS: usize = 0;
fn md5_tap_big(_state: &mut [u32; 4], blocks: &[[u8; 64]]) {
    unsafe {
        if BIG_CALLS == 0 && blocks.len() == 1024 {
            BIG_TAP[0] = blocks[1023];
        } else if BIG_CALLS == 1 && blocks.len() == 2 {
            BIG_TAP[1] = blocks[0];
            BIG_TAP[2] = blocks[1];
        }
        BIG_CALLS += 1;
        BIG_BLOCKS += blocks.len();
    }
}

/// 65664 signed bytes, signature window [65500, 65572) crossing the 64 KiB unit boundary: the digest is fed
/// the data with exactly the window zeroed - in particular the bytes right behind the window stay covered
#[kani::proof]
#[kani::unwind(200)]
#[kani::stub(std::fmt::format, vio::fmt_stub)]
#[kani::stub(md5::compress::compress, md5_tap_big)]
fn c10b_digest_window_straddles_unit_boundary() {
    const N: usize = 65664;
    const LO: usize = 65472; // start of the last block of unit 1
    let mut data = [0x33u8; N];
    let sym: [u8; 192] = kani::any();
    let mut k = 0;
    while k < 192 {
        data[LO + k] = sym[k];
        k += 1;
    }
    let info = SignatureInfo::new_weak(0, N as u64, 65500, 72, Vec::new());
    let src = Src::<N>::new(data, N);
    unsafe { BIG_CALLS = 0; BIG_BLOCKS = 0; }
    let r = calculate_mpq_hash_md5(src, &info);
    assert!(r.is_ok());
    assert!(unsafe { BIG_BLOCKS } == 1024 + 2 + 1, "digest was not fed 65664 bytes plus padding");
    let i: usize = kani::any();
    kani::assume(i < 192);
    let pos = LO + i;
    let got = unsafe { BIG_TAP[i / 64][i % 64] };
    let want = if pos >= 65500 && pos < 65572 { 0 } else { sym[i] };
    kani::cover!(pos == 65572, "first byte behind the signature window");
    assert!(got == want, "digest input differs from the signed range with the signature window zeroed (window crossing a 64 KiB unit)");
    std::mem::forget((info, r));
}

#[kani::proof]
#[kani::unwind(70)]
#[kani::stub(std::fmt::format, vio::fmt_stub)]
fn c10_sig_canary() {
    let h: [u8; 16] = kani::any();
    let m: [u8; 64] = kani::any();
    let v = verify_pkcs1_v15_md5(&m, &h);
    assert!(!matches!(v, Ok(true)), "canary: must be reported as failing");
    std::mem::forget(v);
}
