// C05.mpq.1: header discovery and header parsing are total and terminate.  Child module of src/header.rs.
#![allow(unused_imports, dead_code)]
#[path = "../env/io.rs"]
mod vio;
use super::*;
use vio::Src;

/// MpqHeader::read on arbitrary bytes behind the magic: value or error, never a panic
fn header_total<const N: usize>(version: u16) {
    let mut b: [u8; N] = kani::any();
    b[0] = b'M'; b[1] = b'P'; b[2] = b'Q'; b[3] = 0x1A;
    b[12] = version as u8; b[13] = 0;
    let len: usize = kani::any();
    kani::assume(len <= N);
    let mut src = Src::<N>::new(b, len);
    let r = MpqHeader::read(&mut src);
    kani::cover!(r.is_ok());
    if let Ok(h) = &r {
        // accepted headers have a sector size the rest of the code can compute
        assert!(h.block_size <= 20);
        let _ = h.sector_size();
        let _ = h.get_hash_table_pos();
        let _ = h.get_block_table_pos();
        let _ = h.get_archive_size();
    }
    std::mem::forget(r);
}
macro_rules! header_total_harness {
    ($name:ident, $n:expr, $v:expr) => {
        #[kani::proof]
        #[kani::unwind(20)]
        #[kani::stub(std::fmt::format, vio::fmt_stub)]
        fn $name() { header_total::<$n>($v) }
    };
}
header_total_harness!(c05_mpq_header_v1_total, 32, 0);
header_total_harness!(c05_mpq_header_v2_total, 44, 1);
header_total_harness!(c05_mpq_header_v3_total, 68, 2);
header_total_harness!(c05_mpq_header_v4_total, 208, 3);

/// header discovery over a file of <= 1040 bytes whose only non-zero bytes are 16 arbitrary bytes at each
/// scanned offset (0 and 512): terminates within file_size/512 + 1 scan steps.
fn scan_image(a: [u8; 16], c: [u8; 16]) -> [u8; 528] {
    let mut img = [0u8; 528];
    img[0..16].copy_from_slice(&a);
    img[512..528].copy_from_slice(&c);
    img
}
fn is_magic(b: &[u8; 16], last: u8) -> bool { b[0] == b'M' && b[1] == b'P' && b[2] == b'Q' && b[3] == last }

/// no header magic of either kind at the scanned offsets: "no header", after at most 3 scan steps
#[kani::proof]
#[kani::unwind(6)]
#[kani::stub(std::fmt::format, vio::fmt_stub)]
fn c05_mpq_find_header_no_magic() {
    let a: [u8; 16] = kani::any();
    let c: [u8; 16] = kani::any();
    kani::assume(!is_magic(&a, 0x1A) && !is_magic(&a, 0x1B) && !is_magic(&c, 0x1A) && !is_magic(&c, 0x1B));
    let mut src = Src::<528>::new(scan_image(a, c), 528);
    let r = find_header(&mut src);
    kani::cover!(a[0] == b'M');
    assert!(r.is_err(), "header reported in a file that contains none");
    std::mem::forget(r);
}

/// a user-data header whose header_offset points at or beyond the end of the file (any such value) must not
/// stall the scan
#[kani::proof]
#[kani::unwind(4)]
#[kani::stub(std::fmt::format, vio::fmt_stub)]
fn c05_mpq_find_header_userdata_beyond_eof() {
    let mut a: [u8; 16] = kani::any();
    a[0] = b'M'; a[1] = b'P'; a[2] = b'Q'; a[3] = 0x1B;
    let header_offset = u32::from_le_bytes([a[8], a[9], a[10], a[11]]);
    kani::assume(header_offset >= 528);
    let c = [0u8; 16];
    let mut src = Src::<528>::new(scan_image(a, c), 528);
    let r = find_header(&mut src);
    kani::cover!(header_offset == u32::MAX);
    assert!(r.is_err(), "header reported in a file that contains none");
    std::mem::forget(r);
}

/// a user-data header pointing at the other scanned position, which holds arbitrary non-header bytes
#[kani::proof]
#[kani::unwind(6)]
#[kani::stub(std::fmt::format, vio::fmt_stub)]
fn c05_mpq_find_header_userdata_inside() {
    let mut a: [u8; 16] = kani::any();
    a[0] = b'M'; a[1] = b'P'; a[2] = b'Q'; a[3] = 0x1B;
    a[8..12].copy_from_slice(&512u32.to_le_bytes());
    let c: [u8; 16] = kani::any();
    kani::assume(!is_magic(&c, 0x1A) && !is_magic(&c, 0x1B));
    let mut src = Src::<528>::new(scan_image(a, c), 528);
    let r = find_header(&mut src);
    kani::cover!(r.is_err());
    assert!(r.is_err(), "header reported in a file that contains none");
    std::mem::forget(r);
}

#[kani::proof]
#[kani::unwind(20)]
#[kani::stub(std::fmt::format, vio::fmt_stub)]
fn c05_mpq_header_canary() {
    let mut b: [u8; 32] = kani::any();
    b[0] = b'M'; b[1] = b'P'; b[2] = b'Q'; b[3] = 0x1A;
    let mut src = Src::<32>::new(b, 32);
    let r = MpqHeader::read(&mut src);
    assert!(r.is_err(), "canary: must be reported as failing");
    std::mem::forget(r);
}
