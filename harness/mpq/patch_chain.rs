// C08.d: ordering step of the patch chain.  Child module of src/patch_chain.rs.
#![allow(unused_imports, dead_code)]
use super::*;
use crate::archive::verif_kani_archive::{fab_archive, memfile, vio};
use crate::tables::{BlockTable, HashTable};

fn rs_stub() -> std::hash::RandomState {
    unsafe { std::mem::transmute::<[u64; 2], std::hash::RandomState>([1, 2]) }
}
fn fab() -> Archive {
    let mut a = fab_archive(HashTable::new(1).unwrap(), BlockTable::new(1).unwrap(), 0);
    a.verif_drop_tables();
    a
}
fn open_stub<P: AsRef<Path>>(_p: P) -> Result<Archive> { Ok(fab()) }
fn list_stub(_a: &mut Archive) -> Result<Vec<FileEntry>> { Err(Error::invalid_format("no listing")) }

/// one add_archive on a one-entry chain: priorities stay non-increasing, the new archive goes BEFORE the
/// existing one only if its priority is strictly higher (earliest added wins ties)
#[kani::proof]
#[kani::unwind(6)]
#[kani::stub(std::fmt::format, vio::fmt_stub)]
#[kani::stub(std::hash::RandomState::new, rs_stub)]
#[kani::stub(crate::archive::Archive::open, open_stub)]
#[kani::stub(crate::archive::Archive::list, list_stub)]
#[kani::stub(crate::archive::Archive::list_all, list_stub)]
fn c08d_add_archive_order_step() {
    let p0: i32 = kani::any();
    let p: i32 = kani::any();
    let mut chain = PatchChain::new();
    chain.archives.push(ChainEntry { archive: fab(), priority: p0, path: PathBuf::from("a") });
    let r = chain.add_archive("b", p);
    assert!(r.is_ok());
    assert!(chain.archives.len() == 2);
    kani::cover!(p == p0, "tie");
    kani::cover!(p > p0);
    assert!(chain.archives[0].priority >= chain.archives[1].priority, "chain not sorted by descending priority");
    let new_first = chain.archives[0].path == Path::new("b");
    if p > p0 {
        assert!(new_first, "higher-priority archive not placed first");
    } else {
        assert!(!new_first, "archive of equal or lower priority placed before an earlier one");
    }
    assert!(chain.archives[if new_first { 0 } else { 1 }].priority == p && chain.archives[if new_first { 1 } else { 0 }].priority == p0);
    std::mem::forget(chain);
}

/// remove_archive removes exactly the named archive
#[kani::proof]
#[kani::unwind(6)]
#[kani::stub(std::fmt::format, vio::fmt_stub)]
#[kani::stub(std::hash::RandomState::new, rs_stub)]
#[kani::stub(crate::archive::Archive::list, list_stub)]
#[kani::stub(crate::archive::Archive::list_all, list_stub)]
fn c08d_remove_archive_step() {
    let p0: i32 = kani::any();
    let p1: i32 = kani::any();
    kani::assume(p0 >= p1);
    let mut chain = PatchChain::new();
    chain.archives.push(ChainEntry { archive: fab(), priority: p0, path: PathBuf::from("a") });
    chain.archives.push(ChainEntry { archive: fab(), priority: p1, path: PathBuf::from("b") });
    let which: bool = kani::any();
    let r = chain.remove_archive(if which { "a" } else { "b" });
    kani::cover!(which);
    assert!(matches!(r, Ok(true)));
    assert!(chain.archives.len() == 1);
    assert!(chain.archives[0].path == Path::new(if which { "b" } else { "a" }), "the wrong archive was removed");
    assert!(chain.archives[0].priority == if which { p1 } else { p0 });
    let r2 = chain.remove_archive("zz");
    assert!(matches!(r2, Ok(false)) && chain.archives.len() == 1, "removing an unknown archive changed the chain");
    std::mem::forget(chain);
}

#[kani::proof]
#[kani::unwind(6)]
#[kani::stub(std::fmt::format, vio::fmt_stub)]
#[kani::stub(std::hash::RandomState::new, rs_stub)]
fn c08d_canary() {
    let p0: i32 = kani::any();
    let mut chain = PatchChain::new();
    chain.archives.push(ChainEntry { archive: fab(), priority: p0, path: PathBuf::from("a") });
    assert!(chain.archives[0].priority != 5, "canary: must be reported as failing");
    std::mem::forget(chain);
}

// ---------------------------------------------------------------- C08.d content resolution after a history step
// Archives are told apart by their archive_offset (used as an id); `list` returns the listing the id stands
// for: ids with bit 0 set contain the file "x".
fn fab_id(id: u64) -> Archive {
    let mut a = fab();
    a.verif_set_offset(id);
    a
}
fn list_by_id(a: &mut Archive) -> Result<Vec<FileEntry>> {
    let mut v = Vec::new();
    if a.archive_offset() & 1 == 1 {
        v.push(FileEntry { name: String::from("x"), size: 1, compressed_size: 1, flags: 0, hashes: None, table_indices: None });
    }
    Ok(v)
}

/// after removing the highest-priority archive, a name it shadowed resolves to the next archive holding it
#[kani::proof]
#[kani::unwind(8)]
#[kani::stub(std::fmt::format, vio::fmt_stub)]
#[kani::stub(std::hash::RandomState::new, rs_stub)]
#[kani::stub(crate::archive::Archive::list, list_by_id)]
#[kani::stub(crate::archive::Archive::list_all, list_by_id)]
fn c08d_remove_reveals_lower_priority_version() {
    let mut chain = PatchChain::new();
    chain.archives.push(ChainEntry { archive: fab_id(1), priority: 10, path: PathBuf::from("a") });
    chain.archives.push(ChainEntry { archive: fab_id(3), priority: 5, path: PathBuf::from("b") });
    assert!(chain.rebuild_file_map().is_ok());
    assert!(chain.find_file_archive("x") == Some(Path::new("a")), "name does not resolve to the highest-priority archive holding it");
    let r = chain.remove_archive("a");
    assert!(matches!(r, Ok(true)));
    kani::cover!(chain.contains_file("x"));
    assert!(chain.contains_file("x"), "a name still held by a lower-priority archive is not found after the override was removed");
    assert!(chain.find_file_archive("x") == Some(Path::new("b")), "name resolves to the wrong archive after a remove");
    assert!(!chain.contains_file("y"), "a name in no archive is found");
    std::mem::forget(chain);
}

/// adding an archive: the name resolves to the added archive iff its priority is strictly higher
#[kani::proof]
#[kani::unwind(8)]
#[kani::stub(std::fmt::format, vio::fmt_stub)]
#[kani::stub(std::hash::RandomState::new, rs_stub)]
#[kani::stub(crate::archive::Archive::open, open_id3_stub)]
#[kani::stub(crate::archive::Archive::list, list_by_id)]
#[kani::stub(crate::archive::Archive::list_all, list_by_id)]
fn c08d_add_resolves_to_highest_priority() {
    let p: i32 = kani::any();
    kani::assume(p == 4 || p == 5 || p == 6);
    let mut chain = PatchChain::new();
    chain.archives.push(ChainEntry { archive: fab_id(1), priority: 5, path: PathBuf::from("a") });
    let r = chain.add_archive("b", p);
    assert!(r.is_ok());
    kani::cover!(p == 5);
    let want = if p > 5 { "b" } else { "a" };
    assert!(chain.find_file_archive("x") == Some(Path::new(want)), "name does not resolve to the highest-priority (earliest on ties) archive holding it");
    std::mem::forget(chain);
}
fn open_id3_stub<P: AsRef<Path>>(_p: P) -> Result<Archive> { Ok(fab_id(3)) }
