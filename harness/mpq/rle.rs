// C08.c / C05.mpq.8: RLE decoder of patch payloads vs. a reference written from the format description.
// Child module of src/compression/algorithms/rle.rs.
#![allow(unused_imports, dead_code)]
#[path = "../env/io.rs"]
mod vio;
use super::*;

/// reference: control byte with the high bit set copies (low7 + 1) literal bytes, otherwise skips
/// (byte + 1) zero bytes; output is exactly `size` bytes, zero-filled
fn rle_ref<const S: usize>(data: &[u8]) -> [u8; S] {
    let mut out = [0u8; S];
    let mut s = 0usize;
    let mut d = 0usize;
    while s < data.len() && d < S {
        let c = data[s];
        s += 1;
        if c & 0x80 != 0 {
            let mut n = (c & 0x7F) as usize + 1;
            while n > 0 && d < S && s < data.len() {
                out[d] = data[s];
                d += 1;
                s += 1;
                n -= 1;
            }
        } else {
            d += c as usize + 1;
        }
    }
    out
}

fn rle_matches_reference<const N: usize, const S: usize>(skip_header: bool) {
    let input: [u8; N] = kani::any();
    let r = decompress(&input, S, skip_header);
    if skip_header && N < 4 {
        assert!(r.is_err());
        std::mem::forget(r);
        return;
    }
    assert!(r.is_ok());
    let out = r.unwrap();
    assert!(out.len() == S, "RLE output is not exactly the declared size");
    let want = rle_ref::<S>(if skip_header { &input[4..] } else { &input[..] });
    let i: usize = kani::any();
    kani::assume(i < S);
    kani::cover!(out[S - 1] != 0, "last output byte written");
    assert!(out[i] == want[i], "RLE output differs from the reference decoder");
    std::mem::forget(out);
}

#[kani::proof]
#[kani::unwind(12)]
#[kani::stub(std::fmt::format, vio::fmt_stub)]
fn c08c_rle_n4_s6() { rle_matches_reference::<4, 6>(false) }
#[kani::proof]
#[kani::unwind(12)]
#[kani::stub(std::fmt::format, vio::fmt_stub)]
fn c08c_rle_n6_s8() { rle_matches_reference::<6, 8>(false) }
#[kani::proof]
#[kani::unwind(12)]
#[kani::stub(std::fmt::format, vio::fmt_stub)]
fn c08c_rle_header_n8_s4() { rle_matches_reference::<8, 4>(true) }

#[kani::proof]
#[kani::unwind(12)]
#[kani::stub(std::fmt::format, vio::fmt_stub)]
fn c08c_rle_canary() {
    let input: [u8; 4] = kani::any();
    let out = decompress(&input, 4, false).unwrap();
    assert!(out[0] == 0, "canary: must be reported as failing");
    std::mem::forget(out);
}
