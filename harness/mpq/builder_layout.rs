// C02.a/b/c: on-disk layout written by the builder vs. the published MPQ format (reference offsets and
// reference cipher from harness/ref), and back through the real reader.  Child module of src/builder.rs.
#![allow(unused_imports, dead_code)]
#[path = "../ref/mpq_spec.rs"]
mod spec;
use super::*;
use crate::archive::verif_kani_archive::vio;
use crate::header::{MpqHeader, MpqHeaderV4Data};
use vio::{Sink, Src};

fn md5_stub(_b: &ArchiveBuilder, _data: &[u8]) -> [u8; 16] { [0u8; 16] }

fn rd16(b: &[u8], o: usize) -> u16 { u16::from_le_bytes([b[o], b[o + 1]]) }
fn rd32(b: &[u8], o: usize) -> u32 { u32::from_le_bytes([b[o], b[o + 1], b[o + 2], b[o + 3]]) }
fn rd64(b: &[u8], o: usize) -> u64 { (rd32(b, o) as u64) | ((rd32(b, o + 4) as u64) << 32) }

fn params_any(v4: bool) -> HeaderWriteParams {
    HeaderWriteParams {
        archive_size: kani::any(),
        hash_table_pos: kani::any(),
        block_table_pos: kani::any(),
        hash_table_size: kani::any(),
        block_table_size: kani::any(),
        hi_block_table_pos: if kani::any() { Some(kani::any()) } else { None },
        het_table_pos: Some(kani::any()),
        bet_table_pos: Some(kani::any()),
        _het_table_size: None,
        _bet_table_size: None,
        v4_data: if v4 {
            Some(MpqHeaderV4Data {
                hash_table_size_64: kani::any(), block_table_size_64: kani::any(), hi_block_table_size_64: kani::any(),
                het_table_size_64: kani::any(), bet_table_size_64: kani::any(), raw_chunk_size: kani::any(),
                md5_block_table: kani::any(), md5_hash_table: kani::any(), md5_hi_block_table: kani::any(),
                md5_bet_table: kani::any(), md5_het_table: kani::any(), md5_mpq_header: kani::any(),
            })
        } else { None },
    }
}

/// bytes the builder writes for the header == field offsets of the published format; the real reader
/// recovers the same values
fn header_layout(version: FormatVersion, exclude_known: bool) {
    let shift: u16 = kani::any();
    let b = ArchiveBuilder::new().version(version).block_size(shift);
    let p = params_any(matches!(version, FormatVersion::V4));
    let mut out = Sink::<208>::new();
    let r = b.write_header(&mut out, &p);
    assert!(r.is_ok());
    let n = version.header_size() as usize;
    assert!(out.pos == n, "header bytes written != header size of the version");
    let h = &out.buf;
    // ---- published layout, version 1 part
    assert!(h[0] == b'M' && h[1] == b'P' && h[2] == b'Q' && h[3] == 0x1A, "magic");
    assert!(rd32(h, 0x04) as usize == n, "header size field");
    assert!(rd32(h, 0x08) == p.archive_size.min(u32::MAX as u64) as u32, "archive size field");
    assert!(rd16(h, 0x0C) == version as u16, "format version field");
    assert!(rd16(h, 0x0E) == shift, "sector size shift field");
    assert!(rd32(h, 0x10) == p.hash_table_pos as u32, "hash table position field");
    assert!(rd32(h, 0x14) == p.block_table_pos as u32, "block table position field");
    assert!(rd32(h, 0x18) == p.hash_table_size, "hash table size field");
    assert!(rd32(h, 0x1C) == p.block_table_size, "block table size field");
    if version >= FormatVersion::V2 {
        assert!(rd64(h, 0x20) == p.hi_block_table_pos.unwrap_or(0), "hi-block table position field");
        assert!(rd16(h, 0x28) == (p.hash_table_pos >> 32) as u16, "hash table position high field");
        assert!(rd16(h, 0x2A) == (p.block_table_pos >> 32) as u16, "block table position high field");
    }
    if version >= FormatVersion::V3 {
        assert!(rd64(h, 0x2C) == p.archive_size, "64-bit archive size field");
        if !exclude_known {
            // published order: BET position at 0x34, HET position at 0x3C
            assert!(rd64(h, 0x34) == p.bet_table_pos.unwrap() && rd64(h, 0x3C) == p.het_table_pos.unwrap(),
                "BET/HET table positions are not at the offsets of the published v3 header");
        }
    }
    if version >= FormatVersion::V4 {
        let v4 = p.v4_data.as_ref().unwrap();
        assert!(rd64(h, 0x44) == v4.hash_table_size_64 && rd64(h, 0x4C) == v4.block_table_size_64
            && rd64(h, 0x54) == v4.hi_block_table_size_64 && rd64(h, 0x5C) == v4.het_table_size_64
            && rd64(h, 0x64) == v4.bet_table_size_64 && rd32(h, 0x6C) == v4.raw_chunk_size, "v4 size fields");
        let i: usize = kani::any();
        kani::assume(i < 16);
        assert!(h[0x70 + i] == v4.md5_block_table[i] && h[0x80 + i] == v4.md5_hash_table[i]
            && h[0x90 + i] == v4.md5_hi_block_table[i] && h[0xA0 + i] == v4.md5_bet_table[i]
            && h[0xB0 + i] == v4.md5_het_table[i] && h[0xC0 + i] == v4.md5_mpq_header[i], "v4 digest fields");
    }
    // ---- and back through the real reader
    let mut src = Src::<208>::new(out.buf, n);
    let rr = MpqHeader::read(&mut src);
    kani::cover!(rr.is_ok(), "a written header is accepted by the reader");
    if let Ok(hd) = &rr {
        assert!(hd.header_size as usize == n && hd.format_version == version && hd.block_size == shift);
        assert!(hd.hash_table_pos == p.hash_table_pos as u32 && hd.block_table_pos == p.block_table_pos as u32
            && hd.hash_table_size == p.hash_table_size && hd.block_table_size == p.block_table_size,
            "reader recovers different table fields");
        if version >= FormatVersion::V2 {
            assert!(hd.get_hash_table_pos() == (p.hash_table_pos & 0xFFFF_FFFF_FFFF) && hd.get_block_table_pos() == (p.block_table_pos & 0xFFFF_FFFF_FFFF),
                "reader recovers different 48-bit table positions");
            assert!(hd.hi_block_table_pos == Some(p.hi_block_table_pos.unwrap_or(0)));
        }
        if version >= FormatVersion::V3 {
            assert!(hd.archive_size_64 == Some(p.archive_size));
            if !exclude_known {
                assert!(hd.het_table_pos == p.het_table_pos && hd.bet_table_pos == p.bet_table_pos,
                    "reader recovers the HET/BET positions swapped");
            }
        }
    }
    std::mem::forget((b, p, r, rr));
}

macro_rules! layout_harness {
    ($name:ident, $v:expr, $ex:expr) => {
        #[kani::proof]
        #[kani::unwind(20)]
        #[kani::stub(std::fmt::format, vio::fmt_stub)]
        fn $name() { header_layout($v, $ex) }
    };
}
layout_harness!(c02a_header_layout_v1, FormatVersion::V1, false);
layout_harness!(c02a_header_layout_v2, FormatVersion::V2, false);
layout_harness!(c02a_header_layout_v3, FormatVersion::V3, true);
layout_harness!(c02a_header_layout_v4, FormatVersion::V4, true);
layout_harness!(c02a_header_hetbet_order_witness, FormatVersion::V3, false);

// ------------------------------------------------------------------ C02.b table encoding
/// the hash table the builder writes, decrypted with the format's cipher and the format's table key,
/// has the published 16-byte entry layout; the real loader reads the same entry back
#[kani::proof]
#[kani::unwind(260)]
#[kani::stub(std::fmt::format, vio::fmt_stub)]
#[kani::stub(ArchiveBuilder::calculate_md5, md5_stub)]
fn c02b_hash_table_encoding() {
    let t = spec::crypt_table();
    let b = ArchiveBuilder::new();
    let mut ht = HashTable::new(1).unwrap();
    let e = HashEntry { name_1: kani::any(), name_2: kani::any(), locale: kani::any(), platform: kani::any(), block_index: kani::any() };
    *ht.get_mut(0).unwrap() = e;
    let mut out = Sink::<16>::new();
    let r = b.write_hash_table(&mut out, &ht);
    assert!(r.is_ok() && out.pos == 16, "hash table of one entry is not 16 bytes");
    let mut w = [rd32(&out.buf, 0), rd32(&out.buf, 4), rd32(&out.buf, 8), rd32(&out.buf, 12)];
    let key = spec::hash_string(&t, spec::HASH_TABLE_KEY_NAME, 3);
    spec::decrypt(&t, &mut w, key);
    kani::cover!(w[0] == 7);
    assert!(w[0] == e.name_1 && w[1] == e.name_2, "name hashes not at offsets 0/4 of the decrypted entry");
    assert!(w[2] == (e.locale as u32) | ((e.platform as u32) << 16), "locale/platform not at offset 8/10");
    assert!(w[3] == e.block_index, "block index not at offset 12");
    // real loader
    let l = HashTable::from_bytes(&out.buf, 1);
    assert!(l.is_ok());
    let l = l.unwrap();
    let g = l.get(0).unwrap();
    assert!(g.name_1 == e.name_1 && g.name_2 == e.name_2 && g.locale == e.locale && g.platform == e.platform && g.block_index == e.block_index,
        "hash table entry changed through write -> load");
    std::mem::forget((b, ht, l, r));
}

#[kani::proof]
#[kani::unwind(260)]
#[kani::stub(std::fmt::format, vio::fmt_stub)]
#[kani::stub(ArchiveBuilder::calculate_md5, md5_stub)]
fn c02b_block_table_encoding() {
    let t = spec::crypt_table();
    let b = ArchiveBuilder::new();
    let mut bt = BlockTable::new(1).unwrap();
    let e = BlockEntry { file_pos: kani::any(), compressed_size: kani::any(), file_size: kani::any(), flags: kani::any() };
    *bt.get_mut(0).unwrap() = e;
    let mut out = Sink::<16>::new();
    let r = b.write_block_table(&mut out, &bt);
    assert!(r.is_ok() && out.pos == 16, "block table of one entry is not 16 bytes");
    let mut w = [rd32(&out.buf, 0), rd32(&out.buf, 4), rd32(&out.buf, 8), rd32(&out.buf, 12)];
    let key = spec::hash_string(&t, spec::BLOCK_TABLE_KEY_NAME, 3);
    spec::decrypt(&t, &mut w, key);
    kani::cover!(w[3] == 0x8000_0200);
    assert!(w[0] == e.file_pos && w[1] == e.compressed_size && w[2] == e.file_size && w[3] == e.flags,
        "block entry fields not in the published order (offset, stored size, file size, flags)");
    let l = BlockTable::from_bytes(&out.buf, 1);
    assert!(l.is_ok());
    let l = l.unwrap();
    let g = l.get(0).unwrap();
    assert!(g.file_pos == e.file_pos && g.compressed_size == e.compressed_size && g.file_size == e.file_size && g.flags == e.flags,
        "block table entry changed through write -> load");
    std::mem::forget((b, bt, l, r));
}

/// reference-encoded tables (format's cipher + key) are read by the real loaders
#[kani::proof]
#[kani::unwind(260)]
#[kani::stub(std::fmt::format, vio::fmt_stub)]
fn c02b_reference_tables_load() {
    let t = spec::crypt_table();
    let f: [u32; 4] = kani::any();
    let mut w = f;
    spec::encrypt(&t, &mut w, spec::hash_string(&t, spec::BLOCK_TABLE_KEY_NAME, 3));
    let mut bytes = [0u8; 16];
    let mut i = 0;
    while i < 4 {
        bytes[i * 4..i * 4 + 4].copy_from_slice(&w[i].to_le_bytes());
        i += 1;
    }
    let l = BlockTable::from_bytes(&bytes, 1).unwrap();
    let g = l.get(0).unwrap();
    kani::cover!(g.flags == 0x8000_0000);
    assert!(g.file_pos == f[0] && g.compressed_size == f[1] && g.file_size == f[2] && g.flags == f[3],
        "block table written per the format is read differently");
    let mut w2 = f;
    spec::encrypt(&t, &mut w2, spec::hash_string(&t, spec::HASH_TABLE_KEY_NAME, 3));
    let mut i = 0;
    while i < 4 {
        bytes[i * 4..i * 4 + 4].copy_from_slice(&w2[i].to_le_bytes());
        i += 1;
    }
    let hl = HashTable::from_bytes(&bytes, 1).unwrap();
    let g = hl.get(0).unwrap();
    assert!(g.name_1 == f[0] && g.name_2 == f[1] && g.locale == f[2] as u16 && g.platform == (f[2] >> 16) as u16 && g.block_index == f[3],
        "hash table written per the format is read differently");
    std::mem::forget((l, hl));
}

// ------------------------------------------------------------------ C02.c keys and constants
const _: () = {
    assert!(BlockEntry::FLAG_IMPLODE == spec::MPQ_FILE_IMPLODE);
    assert!(BlockEntry::FLAG_COMPRESS == spec::MPQ_FILE_COMPRESS);
    assert!(BlockEntry::FLAG_ENCRYPTED == spec::MPQ_FILE_ENCRYPTED);
    assert!(BlockEntry::FLAG_FIX_KEY == spec::MPQ_FILE_FIX_KEY);
    assert!(BlockEntry::FLAG_PATCH_FILE == spec::MPQ_FILE_PATCH_FILE);
    assert!(BlockEntry::FLAG_SINGLE_UNIT == spec::MPQ_FILE_SINGLE_UNIT);
    assert!(BlockEntry::FLAG_DELETE_MARKER == spec::MPQ_FILE_DELETE_MARKER);
    assert!(BlockEntry::FLAG_SECTOR_CRC == spec::MPQ_FILE_SECTOR_CRC);
    assert!(BlockEntry::FLAG_EXISTS == spec::MPQ_FILE_EXISTS);
    assert!(compression_flags::HUFFMAN == spec::MPQ_COMPRESSION_HUFFMAN);
    assert!(compression_flags::ZLIB == spec::MPQ_COMPRESSION_ZLIB);
    assert!(compression_flags::PKWARE == spec::MPQ_COMPRESSION_PKWARE);
    assert!(compression_flags::BZIP2 == spec::MPQ_COMPRESSION_BZIP2);
    assert!(compression_flags::SPARSE == spec::MPQ_COMPRESSION_SPARSE);
    assert!(compression_flags::ADPCM_MONO == spec::MPQ_COMPRESSION_ADPCM_MONO);
    assert!(compression_flags::ADPCM_STEREO == spec::MPQ_COMPRESSION_ADPCM_STEREO);
    assert!(compression_flags::LZMA == spec::MPQ_COMPRESSION_LZMA);
};

/// file key == key of the format (hash of the plain name, position-adjusted when FIX_KEY)
fn file_key_vs_spec(path_free_only: bool) {
    let t = 0u8;
    let b = ArchiveBuilder::new();
    let name: [u8; 3] = kani::any();
    kani::assume(name[0] < 0x80 && name[1] < 0x80 && name[2] < 0x80);
    if path_free_only {
        // known finding KF-C02-key-path: the key is hashed from the full path instead of the plain name
        kani::assume(name[0] != b'\\' && name[0] != b'/' && name[1] != b'\\' && name[1] != b'/' && name[2] != b'\\' && name[2] != b'/');
    }
    let pos: u64 = kani::any();
    let size: u32 = kani::any();
    let flags: u32 = kani::any();
    let got = b.calculate_file_key(unsafe { std::str::from_utf8_unchecked(&name) }, pos, size, flags);
    kani::cover!(flags & BlockEntry::FLAG_FIX_KEY != 0);
    // the format's key: HashString(plain name, FILE_KEY), position-adjusted under FIX_KEY.  The hash itself is
    // decided against the reference in C04.b; here the real hash is used on both sides so that only the
    // key schedule (which name, which adjustment) is compared.
    let _ = &t;
    let plain = spec::plain_name(&name);
    let base = hash_string(unsafe { std::str::from_utf8_unchecked(plain) }, hash_type::FILE_KEY);
    let want = if flags & spec::MPQ_FILE_FIX_KEY != 0 { base.wrapping_add(pos as u32) ^ size } else { base };
    assert!(got == want, "file key differs from the key the format prescribes");
    std::mem::forget(b);
}
#[kani::proof]
#[kani::unwind(8)]
#[kani::stub(std::fmt::format, vio::fmt_stub)]
fn c02c_file_key_vs_spec() { file_key_vs_spec(true) }

#[kani::proof]
#[kani::unwind(260)]
#[kani::stub(std::fmt::format, vio::fmt_stub)]
fn c02c_file_key_path_witness() {
    let t = spec::crypt_table();
    let b = ArchiveBuilder::new();
    let got = b.calculate_file_key("d\\f", 0, 0, 0);
    assert!(got == spec::file_key(&t, b"d\\f", 0, 0, 0), "file key differs from the key the format prescribes");
    std::mem::forget(b);
}


/// the format encrypts whole 32-bit words only; the 1-3 trailing bytes of a block stay as they are
#[kani::proof]
#[kani::unwind(8)]
#[kani::stub(std::fmt::format, vio::fmt_stub)]
fn c02c_trailing_bytes_witness() {
    let b = ArchiveBuilder::new();
    let mut d = [0x10u8, 0x20, 0x30, 0x40, 0x55];
    b.encrypt_data(&mut d, 0x1234_5678);
    assert!(d[4] == 0x55, "trailing bytes of an encrypted block differ from the format (which leaves them unencrypted)");
    std::mem::forget(b);
}

#[kani::proof]
#[kani::unwind(20)]
#[kani::stub(std::fmt::format, vio::fmt_stub)]
fn c02_canary() {
    let b = ArchiveBuilder::new().version(FormatVersion::V1);
    let p = params_any(false);
    let mut out = Sink::<208>::new();
    let _ = b.write_header(&mut out, &p);
    assert!(rd32(&out.buf, 0x10) != 77, "canary: must be reported as failing");
    std::mem::forget((b, p));
}
