// C08.a/b and C05.mpq.6/7: patch application.  Child module of src/patch/apply.rs.
#![allow(unused_imports, dead_code, static_mut_refs)]
#[path = "../env/io.rs"]
mod vio;
use super::*;
use crate::patch::header::PatchHeader;
use vio::Src;

// ------------------------------------------------------------------ C08.b the verification gate
static mut BASE_OK: bool = false;
static mut PATCHED_OK: bool = false;
static mut SEEN_LEN: usize = usize::MAX;
static mut SEEN_FIRST: u8 = 0;
static mut SEEN_LAST: u8 = 0;

fn verify_base_stub(_p: &PatchFile, _base: &[u8]) -> Result<()> {
    if unsafe { BASE_OK } { Ok(()) } else { Err(Error::invalid_format("base digest mismatch")) }
}
fn verify_patched_stub(_p: &PatchFile, data: &[u8]) -> Result<()> {
    unsafe {
        SEEN_LEN = data.len();
        if !data.is_empty() {
            SEEN_FIRST = data[0];
            SEEN_LAST = data[data.len() - 1];
        }
        if PATCHED_OK { Ok(()) } else { Err(Error::invalid_format("patched digest mismatch")) }
    }
}

fn copy_patch(size_before: u32, size_after: u32, data: Vec<u8>) -> PatchFile {
    PatchFile {
        header: PatchHeader {
            patch_data_size: data.len() as u32,
            size_before,
            size_after,
            md5_before: [0; 16],
            md5_after: [0; 16],
            patch_type: PatchType::Copy,
            xfrm_data_size: data.len() as u32,
        },
        data,
    }
}

/// never unverified bytes: a failing digest check (before or after) makes apply_patch fail, and what it
/// returns on success is exactly what was submitted to the "after" digest check
#[kani::proof]
#[kani::unwind(20)]
#[kani::stub(std::fmt::format, vio::fmt_stub)]
#[kani::stub(PatchFile::verify_base, verify_base_stub)]
#[kani::stub(PatchFile::verify_patched, verify_patched_stub)]
fn c08b_gate_copy() {
    unsafe { BASE_OK = kani::any(); PATCHED_OK = kani::any(); SEEN_LEN = usize::MAX; }
    let new: [u8; 3] = kani::any();
    let base: [u8; 2] = kani::any();
    let p = copy_patch(2, 3, new.to_vec());
    let r = apply_patch(&p, &base);
    let (b_ok, p_ok) = unsafe { (BASE_OK, PATCHED_OK) };
    kani::cover!(r.is_ok());
    if !b_ok || !p_ok {
        assert!(r.is_err(), "patch result returned although a digest check failed");
    } else {
        assert!(r.is_ok(), "valid COPY patch rejected");
    }
    if let Ok(out) = &r {
        assert!(out.len() == 3 && out[0] == new[0] && out[1] == new[1] && out[2] == new[2], "COPY patch result is not the patch payload");
        assert!(unsafe { SEEN_LEN == 3 && SEEN_FIRST == out[0] && SEEN_LAST == out[2] }, "returned bytes were not the ones submitted to the digest check");
    }
    if !b_ok {
        assert!(unsafe { SEEN_LEN } == usize::MAX, "patch applied to a base file whose digest did not match");
    }
    std::mem::forget((p, r));
}

/// same gate for a patch that does not change the size and whose declared digests are arbitrary (also equal to each
/// other: a "no-op" patch must still verify the base it is given)
#[kani::proof]
#[kani::unwind(20)]
#[kani::stub(std::fmt::format, vio::fmt_stub)]
#[kani::stub(PatchFile::verify_base, verify_base_stub)]
#[kani::stub(PatchFile::verify_patched, verify_patched_stub)]
fn c08b_gate_copy_same_size() {
    unsafe { BASE_OK = kani::any(); PATCHED_OK = kani::any(); SEEN_LEN = usize::MAX; }
    let new: [u8; 3] = kani::any();
    let base: [u8; 3] = kani::any();
    let mut p = copy_patch(3, 3, new.to_vec());
    p.header.md5_before = kani::any();
    p.header.md5_after = if kani::any() { p.header.md5_before } else { kani::any() };
    let r = apply_patch(&p, &base);
    let (b_ok, p_ok) = unsafe { (BASE_OK, PATCHED_OK) };
    kani::cover!(r.is_ok());
    kani::cover!(r.is_err() && p.header.md5_before == p.header.md5_after);
    if !b_ok || !p_ok {
        assert!(r.is_err(), "patch result returned although a digest check failed");
    } else {
        assert!(r.is_ok(), "valid COPY patch rejected");
    }
    if let Ok(out) = &r {
        assert!(out.len() == 3 && out[0] == new[0] && out[1] == new[1] && out[2] == new[2], "COPY patch result is not the patch payload");
        assert!(unsafe { SEEN_LEN == 3 && SEEN_FIRST == out[0] && SEEN_LAST == out[2] }, "returned bytes were not the ones submitted to the digest check");
    }
    std::mem::forget((p, r));
}

// ------------------------------------------------------------------ C08.a COPY size checks
#[kani::proof]
#[kani::unwind(8)]
#[kani::stub(std::fmt::format, vio::fmt_stub)]
fn c08a_copy_size_checks() {
    let before: u32 = kani::any();
    let after: u32 = kani::any();
    let new: [u8; 3] = kani::any();
    let base: [u8; 2] = kani::any();
    let p = copy_patch(before, after, new.to_vec());
    let r = apply_copy_patch(&p, &base);
    kani::cover!(r.is_ok());
    if before != 2 || after != 3 {
        assert!(r.is_err(), "COPY patch with inconsistent declared sizes accepted");
    } else {
        assert!(r.is_ok());
    }
    std::mem::forget((p, r));
}

// ------------------------------------------------------------------ C08.a / C05.mpq.7 BSD0
static mut BSDIFF: [u8; 48] = [0; 48];
static mut BSDIFF_LEN: usize = 0;
fn rle_stub(_c: &[u8], _size: usize, _skip: bool) -> Result<Vec<u8>> {
    unsafe {
        let b = BSDIFF;
        Ok(b[..BSDIFF_LEN].to_vec())
    }
}

fn bsd0_patch(size_before: u32, size_after: u32) -> PatchFile {
    PatchFile {
        header: PatchHeader {
            patch_data_size: 48, size_before, size_after, md5_before: [0; 16], md5_after: [0; 16],
            patch_type: PatchType::Bsd0, xfrm_data_size: 4,
        },
        data: vec![0u8; 4],
    }
}

fn put64(b: &mut [u8; 48], o: usize, v: u64) { b[o..o + 8].copy_from_slice(&v.to_le_bytes()); }
fn put32(b: &mut [u8; 48], o: usize, v: u32) { b[o..o + 4].copy_from_slice(&v.to_le_bytes()); }

/// a well-formed bsdiff stream (one control triple: add 4, copy 0, seek 0) turns old into new
#[kani::proof]
#[kani::unwind(14)]
#[kani::stub(std::fmt::format, vio::fmt_stub)]
#[kani::stub(crate::compression::rle::decompress, rle_stub)]
fn c08a_bsd0_wellformed() {
    let old: [u8; 4] = kani::any();
    let new: [u8; 4] = kani::any();
    let mut b = [0u8; 48];
    put64(&mut b, 0, 0x3034464649445342);
    put64(&mut b, 8, 12);
    put64(&mut b, 16, 4);
    put64(&mut b, 24, 4);
    put32(&mut b, 32, 4);
    put32(&mut b, 36, 0);
    put32(&mut b, 40, 0);
    let mut i = 0;
    while i < 4 {
        b[44 + i] = new[i].wrapping_sub(old[i]);
        i += 1;
    }
    unsafe { BSDIFF = b; BSDIFF_LEN = 48; }
    let p = bsd0_patch(4, 4);
    let r = apply_bsd0_patch(&p, &old);
    kani::cover!(r.is_ok());
    assert!(r.is_ok(), "well-formed BSD0 patch rejected");
    let out = r.unwrap();
    let k: usize = kani::any();
    kani::assume(k < 4);
    assert!(out.len() == 4 && out[k] == new[k], "BSD0 patch result differs from the new file");
    std::mem::forget((p, out));
}

/// hostile bsdiff header (all four 64-bit fields arbitrary): error, never a panic
#[kani::proof]
#[kani::unwind(14)]
#[kani::stub(std::fmt::format, vio::fmt_stub)]
#[kani::stub(crate::compression::rle::decompress, rle_stub)]
fn c05_bsd0_header_total() {
    let mut b = [0u8; 48];
    put64(&mut b, 0, 0x3034464649445342);
    let ctrl: u64 = kani::any();
    let data: u64 = kani::any();
    let newsz: u64 = kani::any();
    // known finding KF-C08-bsd0-overflow is excluded here and witnessed separately
    kani::assume(ctrl <= u64::MAX - 32 && data <= u64::MAX - 32 - ctrl);
    kani::assume(newsz <= 8);
    put64(&mut b, 8, ctrl);
    put64(&mut b, 16, data);
    put64(&mut b, 24, newsz);
    unsafe { BSDIFF = b; BSDIFF_LEN = 32; }
    let after: u32 = kani::any();
    let p = bsd0_patch(4, after);
    let old: [u8; 4] = kani::any();
    let r = apply_bsd0_patch(&p, &old);
    kani::cover!(r.is_ok());
    kani::cover!(r.is_err());
    std::mem::forget((p, r));
}

#[kani::proof]
#[kani::unwind(14)]
#[kani::stub(std::fmt::format, vio::fmt_stub)]
#[kani::stub(crate::compression::rle::decompress, rle_stub)]
fn c08_bsd0_overflow_witness() {
    let mut b = [0u8; 48];
    put64(&mut b, 0, 0x3034464649445342);
    put64(&mut b, 8, u64::MAX - 31);
    put64(&mut b, 16, 0);
    put64(&mut b, 24, 4);
    unsafe { BSDIFF = b; BSDIFF_LEN = 32; }
    let p = bsd0_patch(4, 4);
    let old = [0u8; 4];
    let r = apply_bsd0_patch(&p, &old);
    std::mem::forget((p, r));
}

// ------------------------------------------------------------------ C05.mpq.6 header parser
#[kani::proof]
#[kani::unwind(20)]
#[kani::stub(std::fmt::format, vio::fmt_stub)]
fn c05_patch_header_total() {
    let mut b: [u8; 68] = kani::any();
    b[0..4].copy_from_slice(&0x48435450u32.to_le_bytes());
    b[16..20].copy_from_slice(&0x5f35444du32.to_le_bytes());
    b[20..24].copy_from_slice(&40u32.to_le_bytes());
    b[56..60].copy_from_slice(&0x4d524658u32.to_le_bytes());
    if kani::any() {
        b[64..68].copy_from_slice(&0x59504f43u32.to_le_bytes());
    }
    let len: usize = kani::any();
    kani::assume(len <= 68);
    let mut src = Src::<68>::new(b, len);
    let r = PatchHeader::parse(&mut src);
    kani::cover!(r.is_ok());
    if len < 68 {
        assert!(r.is_err(), "truncated patch header accepted");
    }
    if let Ok(h) = &r {
        assert!(h.patch_data_size == u32::from_le_bytes([b[4], b[5], b[6], b[7]])
            && h.size_before == u32::from_le_bytes([b[8], b[9], b[10], b[11]])
            && h.size_after == u32::from_le_bytes([b[12], b[13], b[14], b[15]]), "PTCH header fields read from the wrong offsets");
        assert!(h.md5_before[0] == b[24] && h.md5_before[15] == b[39] && h.md5_after[0] == b[40] && h.md5_after[15] == b[55],
            "digests read from the wrong offsets");
    }
    std::mem::forget(r);
}

#[kani::proof]
#[kani::unwind(8)]
#[kani::stub(std::fmt::format, vio::fmt_stub)]
fn c08_canary() {
    let new: [u8; 3] = kani::any();
    let base: [u8; 2] = kani::any();
    let p = copy_patch(2, 3, new.to_vec());
    let r = apply_copy_patch(&p, &base).unwrap();
    assert!(r[0] != new[0], "canary: must be reported as failing");
    std::mem::forget((p, r));
}

// ---------------------------------------------------------------- C08.b the digest checks themselves
// MD5's compression function is replaced by a cheap mixing function (abstraction): the real verify_* must
// accept exactly when the digest of the data under that function equals the declared digest.
fn md5_mix(state: &mut [u32; 4], blocks: &[[u8; 64]]) {
    let mut i = 0;
    while i < blocks.len() {
        let b = &blocks[i];
        state[0] = state[0].wrapping_add(u32::from_le_bytes([b[0], b[1], b[2], b[3]])).rotate_left(5);
        state[1] ^= state[0].wrapping_add(u32::from_le_bytes([b[4], b[5], b[6], b[7]]));
        state[2] = state[2].wrapping_add(state[1]) ^ (b[56] as u32);
        state[3] = state[3].wrapping_add(state[2]).rotate_left(3);
        i += 1;
    }
}

fn hex_stub<T: AsRef<[u8]>>(_d: T) -> String { String::new() }

#[kani::proof]
#[kani::unwind(70)]
#[kani::stub(std::fmt::format, vio::fmt_stub)]
#[kani::stub(hex::encode, hex_stub)]
#[kani::stub(md5::compress::compress, md5_mix)]
fn c08b_verify_accepts_iff_digest_matches() {
    use md5::{Digest, Md5};
    let data: [u8; 3] = kani::any();
    let declared_before: [u8; 16] = kani::any();
    let declared_after: [u8; 16] = kani::any();
    let mut p = copy_patch(3, 3, Vec::new());
    p.header.md5_before = declared_before;
    p.header.md5_after = declared_after;
    let mut h = Md5::new();
    h.update(&data);
    let real: [u8; 16] = h.finalize().into();
    let i: usize = kani::any();
    kani::assume(i < 16);
    let vb = p.verify_base(&data);
    let va = p.verify_patched(&data);
    kani::cover!(vb.is_ok());
    kani::cover!(declared_after[0] == 0 && va.is_err());
    if vb.is_ok() {
        assert!(declared_before[i] == real[i], "base file accepted although its digest differs from the declared one");
    }
    if va.is_ok() {
        assert!(declared_after[i] == real[i], "patched result accepted although its digest differs from the declared one");
    }
    std::mem::forget((p, vb, va));
}
