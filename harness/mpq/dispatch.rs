// C03: codec dispatch consistency - the codec compress(method) invokes is the codec decompress(method)
// invokes, for every single-method selector.  Every codec is replaced by a tagging stub (the codecs
// themselves are outside CBMC's reach); the real compress()/decompress() wrappers, from_flags, the store-raw
// rule and the default-limit validation run unmodified.  Child module of src/compression/mod.rs.
#![allow(unused_imports, dead_code, static_mut_refs)]
#[path = "../env/io.rs"]
mod vio;
use super::*;

fn instant_stub() -> std::time::Instant { unsafe { std::mem::zeroed() } }

static mut SEEN: u8 = 0;
macro_rules! tag_pair {
    ($c:ident, $d:ident, $tag:expr) => {
        fn $c(_data: &[u8]) -> crate::Result<Vec<u8>> { Ok(vec![$tag]) }
        fn $d(data: &[u8], expected: usize) -> crate::Result<Vec<u8>> {
            unsafe { SEEN = $tag; }
            let mut v = vec![0u8; expected];
            if expected > 0 && !data.is_empty() { v[0] = data[0]; }
            Ok(v)
        }
    };
}
tag_pair!(zlib_c, zlib_d, 0xA1);
tag_pair!(bzip2_c, bzip2_d, 0xA2);
tag_pair!(lzma_c, lzma_d, 0xA3);
tag_pair!(sparse_c, sparse_d, 0xA4);
tag_pair!(pkware_c, pkware_d, 0xA5);
tag_pair!(implode_c, implode_d, 0xA6);
tag_pair!(huffman_c, huffman_d, 0xA7);
fn adpcm_mono_c(_d: &[u8], _l: u8) -> crate::Result<Vec<u8>> { Ok(vec![0xA8]) }
fn adpcm_stereo_c(_d: &[u8], _l: u8) -> crate::Result<Vec<u8>> { Ok(vec![0xA9]) }
fn adpcm_mono_d(data: &[u8], expected: usize) -> crate::Result<Vec<u8>> {
    unsafe { SEEN = 0xA8; }
    let mut v = vec![0u8; expected];
    if expected > 0 && !data.is_empty() { v[0] = data[0]; }
    Ok(v)
}
fn adpcm_stereo_d(data: &[u8], expected: usize) -> crate::Result<Vec<u8>> {
    unsafe { SEEN = 0xA9; }
    let mut v = vec![0u8; expected];
    if expected > 0 && !data.is_empty() { v[0] = data[0]; }
    Ok(v)
}

fn dispatch_consistent(m: u8) {
    let data: [u8; 4] = kani::any();
    let c = compress(&data, m);
    assert!(c.is_ok());
    let c = c.unwrap();
    // the tagging codec "shrinks" 4 bytes to 1: stored as method byte + tag
    assert!(c.len() == 2 && c[0] == m, "shrinking output is not stored as method byte + payload");
    let tag = c[1];
    unsafe { SEEN = 0; }
    let d = decompress(&c[1..], c[0], 4);
    kani::cover!(d.is_ok());
    assert!(d.is_ok(), "the decompressor rejects what the compressor produced for this selector");
    assert!(unsafe { SEEN } == tag, "compress and decompress dispatch the same selector to different codecs");
    let d = d.unwrap();
    assert!(d.len() == 4 && d[0] == tag);
    std::mem::forget((c, d));
}

macro_rules! dispatch_harness {
    ($name:ident, $m:expr) => {
        #[kani::proof]
        #[kani::unwind(12)]
        #[kani::stub(std::fmt::format, vio::fmt_stub)]
        #[kani::stub(std::time::Instant::now, instant_stub)]
        #[kani::stub(algorithms::zlib::compress, zlib_c)]
        #[kani::stub(algorithms::zlib::decompress, zlib_d)]
        #[kani::stub(algorithms::bzip2::compress, bzip2_c)]
        #[kani::stub(algorithms::bzip2::decompress, bzip2_d)]
        #[kani::stub(algorithms::lzma::compress, lzma_c)]
        #[kani::stub(algorithms::lzma::decompress, lzma_d)]
        #[kani::stub(algorithms::sparse::compress, sparse_c)]
        #[kani::stub(algorithms::sparse::decompress, sparse_d)]
        #[kani::stub(algorithms::pkware::compress, pkware_c)]
        #[kani::stub(algorithms::pkware::decompress, pkware_d)]
        #[kani::stub(algorithms::implode::compress, implode_c)]
        #[kani::stub(algorithms::implode::decompress, implode_d)]
        #[kani::stub(algorithms::huffman::compress, huffman_c)]
        #[kani::stub(algorithms::huffman::decompress, huffman_d)]
        #[kani::stub(algorithms::adpcm::compress_mono, adpcm_mono_c)]
        #[kani::stub(algorithms::adpcm::compress_stereo, adpcm_stereo_c)]
        #[kani::stub(algorithms::adpcm::decompress_mono, adpcm_mono_d)]
        #[kani::stub(algorithms::adpcm::decompress_stereo, adpcm_stereo_d)]
        fn $name() { dispatch_consistent($m) }
    };
}
dispatch_harness!(c03e_dispatch_huffman, 0x01);
dispatch_harness!(c03e_dispatch_zlib, 0x02);
dispatch_harness!(c03e_dispatch_implode, 0x04);
dispatch_harness!(c03e_dispatch_pkware, 0x08);
dispatch_harness!(c03e_dispatch_bzip2, 0x10);
dispatch_harness!(c03e_dispatch_lzma, 0x12);
dispatch_harness!(c03e_dispatch_sparse, 0x20);
dispatch_harness!(c03e_dispatch_adpcm_mono, 0x40);
dispatch_harness!(c03e_dispatch_adpcm_stereo, 0x80);

/// selector byte -> method: the published single-method selectors map to their codec, LZMA (0x12) is not
/// mistaken for ZLIB|BZIP2, anything else is a combination
#[kani::proof]
#[kani::stub(std::fmt::format, vio::fmt_stub)]
fn c03e_from_flags_total() {
    let m: u8 = kani::any();
    let r = CompressionMethod::from_flags(m);
    kani::cover!(matches!(r, CompressionMethod::Lzma));
    match r {
        CompressionMethod::None => assert!(m == 0),
        CompressionMethod::Huffman => assert!(m == 0x01),
        CompressionMethod::Zlib => assert!(m == 0x02),
        CompressionMethod::Implode => assert!(m == 0x04),
        CompressionMethod::PKWare => assert!(m == 0x08),
        CompressionMethod::BZip2 => assert!(m == 0x10),
        CompressionMethod::Lzma => assert!(m == 0x12),
        CompressionMethod::Sparse => assert!(m == 0x20),
        CompressionMethod::AdpcmMono => assert!(m == 0x40),
        CompressionMethod::AdpcmStereo => assert!(m == 0x80),
        CompressionMethod::Multiple(f) => assert!(f == m && m.count_ones() >= 2 && m != 0x12, "single selector treated as a combination"),
    }
}

#[kani::proof]
#[kani::stub(std::fmt::format, vio::fmt_stub)]
fn c03e_canary() {
    let m: u8 = kani::any();
    assert!(!CompressionMethod::from_flags(m).is_multiple(), "canary: must be reported as failing");
}
