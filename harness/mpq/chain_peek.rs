// include!d at the top of the derived copy of patch_chain.rs (gen/patch_chain_m.rs): read-only observers of
// PatchChain's private representation for the harness (the harness module is the parent of the derived module
// and could not see the private fields otherwise), and a constructor for the inductive-step harnesses.
// Nothing here is called by the repository's text.
impl PatchChain {
    pub(super) fn verif_len(&self) -> usize { self.archives.len() }
    pub(super) fn verif_priority_at(&self, i: usize) -> i32 { self.archives[i].priority }
    /// first byte of the path of the i-th entry (paths are "a", "b", "c")
    pub(super) fn verif_path_byte_at(&self, i: usize) -> u8 {
        let b = self.archives[i].path.as_os_str().as_encoded_bytes();
        if b.len() == 1 { b[0] } else { 0 }
    }
    pub(super) fn verif_map_len(&self) -> usize { self.file_map.len() }
    /// a chain holding the given archives in the given order (the caller states the representation invariant
    /// on the priorities), file map built by the repository's own rebuild_file_map
    pub(super) fn verif_fabricate(paths: &[&str], prios: &[i32]) -> PatchChain {
        let mut chain = PatchChain::new();
        let mut i = 0;
        while i < paths.len() {
            let archive = match Archive::open(Path::new(paths[i])) {
                Ok(a) => a,
                Err(e) => { std::mem::forget(e); panic!("verif_fabricate: unknown archive") }
            };
            chain.archives.push(ChainEntry { archive, priority: prios[i], path: PathBuf::from(paths[i]) });
            i += 1;
        }
        match chain.rebuild_file_map() {
            Ok(()) => {}
            Err(e) => { std::mem::forget(e); panic!("verif_fabricate: rebuild_file_map failed") }
        }
        chain
    }
}
