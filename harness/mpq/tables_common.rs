// exposes the crate-private table decryptor of src/tables/common.rs to the other harness modules
pub(crate) fn decrypt_table_data_pub(data: &mut [u8], key: u32) {
    super::common::decrypt_table_data(data, key)
}
