// C04 (and shared C01.a / C02.c): hashing and encryption kernels of wow-mpq.
// Attached as a child module of src/crypto/mod.rs (sees the private sub-modules).
#![allow(unused_imports, dead_code)]

#[path = "../ref/mpq_spec.rs"]
mod spec;
#[path = "../ref/lookup3.rs"]
mod lookup3;

use super::decryption::{decrypt_block, decrypt_dword};
use super::encryption::encrypt_block;
use super::hash::hash_string;
use super::jenkins::{jenkins_hashlittle2, jenkins_one_at_a_time};
use super::keys::{ASCII_TO_LOWER, ASCII_TO_UPPER, ENCRYPTION_TABLE};

fn as_str(b: &[u8]) -> &str {
    // validity is assumed by the caller through `valid_utf8_*`
    unsafe { std::str::from_utf8_unchecked(b) }
}

fn ascii<const N: usize>() -> [u8; N] {
    let b: [u8; N] = kani::any();
    let mut i = 0;
    while i < N {
        kani::assume(b[i] < 0x80);
        i += 1;
    }
    b
}

/// every valid UTF-8 encoding that fits exactly two bytes: two ASCII bytes or
/// one two-byte sequence
fn valid_utf8_2(b: &[u8; 2]) -> bool {
    (b[0] < 0x80 && b[1] < 0x80) || (b[0] >= 0xC2 && b[0] <= 0xDF && b[1] >= 0x80 && b[1] <= 0xBF)
}
/// every valid UTF-8 encoding of exactly three bytes
fn valid_utf8_3(b: &[u8; 3]) -> bool {
    let cont = |x: u8| x >= 0x80 && x <= 0xBF;
    (b[0] < 0x80 && valid_utf8_2(&[b[1], b[2]]))
        || (b[0] >= 0xC2 && b[0] <= 0xDF && cont(b[1]) && b[2] < 0x80)
        || (b[0] == 0xE0 && b[1] >= 0xA0 && b[1] <= 0xBF && cont(b[2]))
        || (b[0] >= 0xE1 && b[0] <= 0xEC && cont(b[1]) && cont(b[2]))
        || (b[0] == 0xED && b[1] >= 0x80 && b[1] <= 0x9F && cont(b[2]))
        || (b[0] >= 0xEE && b[0] <= 0xEF && cont(b[1]) && cont(b[2]))
}

// ---------------------------------------------------------------- C04.a tables

#[kani::proof]
#[kani::unwind(258)]
fn c04a_crypt_table() {
    let t = spec::crypt_table();
    let i: usize = kani::any();
    kani::assume(i < 0x500);
    kani::cover!(i == 0x4FF, "last entry reachable");
    assert!(ENCRYPTION_TABLE[i] == t[i], "crypt table entry differs from the format's generator");
}

#[kani::proof]
fn c04a_case_tables() {
    let i: u8 = kani::any();
    kani::cover!(i == b'z');
    assert!(ASCII_TO_UPPER[i as usize] == spec::upper(i), "ASCII_TO_UPPER differs from toupper");
    assert!(ASCII_TO_LOWER[i as usize] == spec::lower(i), "ASCII_TO_LOWER differs from tolower");
}

// ---------------------------------------------------------------- C04.b hash == reference

fn hash_type_any() -> u32 {
    let t: u32 = kani::any();
    kani::assume(t < 4);
    t
}

#[kani::proof]
#[kani::unwind(258)]
fn c04b_hash_len0() {
    let t = spec::crypt_table();
    let ty = hash_type_any();
    kani::cover!(ty == 3);
    assert!(hash_string("", ty << 8) == spec::hash_string(&t, b"", ty), "hash of the empty name");
}

#[kani::proof]
#[kani::unwind(258)]
fn c04b_hash_len1() {
    let t = spec::crypt_table();
    let ty = hash_type_any();
    let b: [u8; 1] = ascii::<1>();
    kani::cover!(ty == 3 && b[0] == b'/');
    assert!(hash_string(as_str(&b), ty << 8) == spec::hash_string(&t, &b, ty), "hash of a 1-byte name");
}

#[kani::proof]
#[kani::unwind(258)]
fn c04b_hash_len2() {
    let t = spec::crypt_table();
    let ty = hash_type_any();
    let b: [u8; 2] = kani::any();
    kani::assume(valid_utf8_2(&b));
    kani::cover!(b[0] >= 0xC2, "two-byte sequence reachable");
    kani::cover!(b[0] == b'a' && b[1] == b'/', "ascii pair reachable");
    assert!(hash_string(as_str(&b), ty << 8) == spec::hash_string(&t, &b, ty), "hash of a 2-byte name");
}

#[kani::proof]
#[kani::unwind(258)]
fn c04b_hash_len3() {
    let t = spec::crypt_table();
    let ty = hash_type_any();
    let b: [u8; 3] = kani::any();
    kani::assume(valid_utf8_3(&b));
    kani::cover!(b[0] >= 0xE0, "three-byte sequence reachable");
    assert!(hash_string(as_str(&b), ty << 8) == spec::hash_string(&t, &b, ty), "hash of a 3-byte name");
}


/// concrete non-ASCII names (cheap even when the code under test calls into Unicode tables): the hash
/// folds ASCII letters only
#[kani::proof]
#[kani::unwind(258)]
fn c04b_hash_nonascii_samples() {
    let t = spec::crypt_table();
    const NAMES: [&str; 5] = ["\u{e9}", "\u{b5}", "\u{140}", "\u{df}a", "a\u{fc}"];
    let ty = hash_type_any();
    let mut i = 0;
    while i < 5 {
        let n = NAMES[i];
        kani::cover!(i == 4);
        assert!(hash_string(n, ty << 8) == spec::hash_string(&t, n.as_bytes(), ty), "hash of a non-ASCII name differs from the format's HashString (only ASCII letters are folded)");
        i += 1;
    }
}

// ---------------------------------------------------------------- C04.c fold invariance

fn fold_equal<const N: usize>(a: &[u8; N], b: &[u8; N]) -> bool {
    let mut i = 0;
    let mut eq = true;
    while i < N {
        eq &= spec::fold_upper(a[i]) == spec::fold_upper(b[i]);
        i += 1;
    }
    eq
}

fn fold_invariance<const N: usize>() {
    let a: [u8; N] = ascii::<N>();
    let b: [u8; N] = ascii::<N>();
    kani::assume(fold_equal(&a, &b));
    kani::cover!(a[0] == b'a' && b[0] == b'A', "case spelling pair reachable");
    kani::cover!(a[N - 1] == b'/' && b[N - 1] == b'\\', "slash spelling pair reachable");
    let ty = hash_type_any();
    assert!(hash_string(as_str(&a), ty << 8) == hash_string(as_str(&b), ty << 8), "MPQ hash depends on case or slash direction");
    assert!(jenkins_one_at_a_time(as_str(&a)) == jenkins_one_at_a_time(as_str(&b)), "BET hash depends on case or slash direction");
    let bits: u32 = kani::any();
    kani::assume(bits == 8 || bits == 32 || bits == 48 || bits == 64);
    let ha = jenkins_hashlittle2(as_str(&a), bits);
    let hb = jenkins_hashlittle2(as_str(&b), bits);
    assert!(ha.0 == hb.0 && ha.1 == hb.1, "HET hash depends on case or slash direction");
    std::mem::forget((ha, hb));
}

#[kani::proof]
#[kani::unwind(6)]
fn c04c_fold_invariance_len1() { fold_invariance::<1>() }
#[kani::proof]
#[kani::unwind(6)]
fn c04c_fold_invariance_len2() { fold_invariance::<2>() }
#[kani::proof]
#[kani::unwind(6)]
fn c04c_fold_invariance_len3() { fold_invariance::<3>() }
#[kani::proof]
#[kani::unwind(6)]
fn c04c_fold_invariance_len4() { fold_invariance::<4>() }

// ---------------------------------------------------------------- C04.d cipher

fn cipher_inverse<const N: usize>() {
    let key: u32 = kani::any();
    let plain: [u32; N] = kani::any();
    let mut d = plain;
    encrypt_block(&mut d, key);
    if N > 0 {
        kani::cover!(d[N - 1] != plain[N - 1], "cipher changes data");
    }
    decrypt_block(&mut d, key);
    let i: usize = kani::any();
    kani::assume(i < N);
    assert!(d[i] == plain[i], "decrypt_block does not invert encrypt_block");
}

#[kani::proof]
#[kani::unwind(3)]
fn c04d_cipher_inverse_w1() { cipher_inverse::<1>() }
#[kani::proof]
#[kani::unwind(4)]
fn c04d_cipher_inverse_w2() { cipher_inverse::<2>() }
#[kani::proof]
#[kani::unwind(5)]
fn c04d_cipher_inverse_w3() { cipher_inverse::<3>() }
#[kani::proof]
#[kani::unwind(6)]
fn c04d_cipher_inverse_w4() { cipher_inverse::<4>() }
#[kani::proof]
#[kani::unwind(8)]
fn c04d_cipher_inverse_w6() { cipher_inverse::<6>() }
#[kani::proof]
#[kani::unwind(10)]
fn c04d_cipher_inverse_w8() { cipher_inverse::<8>() }

/// the other composition order: encrypt(decrypt(x)) == x
#[kani::proof]
#[kani::unwind(4)]
fn c04d_cipher_inverse_rev_w2() {
    let key: u32 = kani::any();
    let plain: [u32; 2] = kani::any();
    let mut d = plain;
    decrypt_block(&mut d, key);
    encrypt_block(&mut d, key);
    let i: usize = kani::any();
    kani::assume(i < 2);
    kani::cover!(key != 0);
    assert!(d[i] == plain[i], "encrypt_block does not invert decrypt_block");
}

fn cipher_vs_spec<const N: usize>(zero_key_too: bool) {
    let t = spec::crypt_table();
    let key: u32 = kani::any();
    if !zero_key_too {
        kani::assume(key != 0);
    }
    let plain: [u32; N] = kani::any();
    let mut d = plain;
    let mut r = plain;
    encrypt_block(&mut d, key);
    spec::encrypt(&t, &mut r, key);
    let i: usize = kani::any();
    kani::assume(i < N);
    kani::cover!(i == N - 1 && d[i] != plain[i]);
    assert!(d[i] == r[i], "encrypt_block differs from the format's cipher");
    // and the real decryptor undoes the reference encryptor
    decrypt_block(&mut r, key);
    assert!(r[i] == plain[i], "decrypt_block does not undo the format's cipher");
}

#[kani::proof]
#[kani::unwind(258)]
fn c04d_cipher_vs_spec_w1() { cipher_vs_spec::<1>(false) }
#[kani::proof]
#[kani::unwind(258)]
fn c04d_cipher_vs_spec_w2() { cipher_vs_spec::<2>(false) }
#[kani::proof]
#[kani::unwind(258)]
fn c04d_cipher_vs_spec_w3() { cipher_vs_spec::<3>(false) }
/// witness harness of the recorded finding "key 0 is treated as 'not encrypted'"
#[kani::proof]
#[kani::unwind(258)]
fn c04d_cipher_vs_spec_key0_witness() {
    let t = spec::crypt_table();
    let mut d = [0x1234_5678u32];
    let mut r = d;
    encrypt_block(&mut d, 0);
    spec::encrypt(&t, &mut r, 0);
    assert!(d[0] == r[0], "encrypt_block with key 0 differs from the format's cipher");
}

#[kani::proof]
#[kani::unwind(3)]
fn c04d_decrypt_dword() {
    let key: u32 = kani::any();
    let v: u32 = kani::any();
    let mut d = [v];
    decrypt_block(&mut d, key);
    kani::cover!(d[0] != v);
    assert!(decrypt_dword(v, key) == d[0], "decrypt_dword differs from a one-word decrypt_block");
}

// ---------------------------------------------------------------- C04.e byte wrappers

fn byte_wrappers<const N: usize>() {
    let key: u32 = kani::any();
    let plain: [u8; N] = kani::any();
    let b = crate::builder::ArchiveBuilder::new();
    let mut d = plain;
    b.encrypt_data(&mut d, key);
    let enc = d;
    if N > 0 {
        kani::cover!(enc[N - 1] != plain[N - 1], "last byte is encrypted");
    }
    crate::archive::decrypt_file_data(&mut d, key);
    let i: usize = kani::any();
    kani::assume(i < N);
    assert!(d[i] == plain[i], "decrypt_file_data does not invert encrypt_data");
    // the table decryptor is a second implementation of the same transformation
    let mut e = enc;
    crate::tables::verif_kani_common::decrypt_table_data_pub(&mut e, key);
    assert!(e[i] == plain[i], "decrypt_table_data does not invert encrypt_data");
    std::mem::forget(b);
}

macro_rules! byte_wrapper_harness {
    ($name:ident, $n:expr, $unw:expr) => {
        #[kani::proof]
        #[kani::unwind($unw)]
        fn $name() { byte_wrappers::<$n>() }
    };
}
byte_wrapper_harness!(c04e_bytes_len1, 1, 6);
byte_wrapper_harness!(c04e_bytes_len2, 2, 6);
byte_wrapper_harness!(c04e_bytes_len3, 3, 6);
byte_wrapper_harness!(c04e_bytes_len4, 4, 6);
byte_wrapper_harness!(c04e_bytes_len5, 5, 7);
byte_wrapper_harness!(c04e_bytes_len6, 6, 8);
byte_wrapper_harness!(c04e_bytes_len7, 7, 9);
byte_wrapper_harness!(c04e_bytes_len8, 8, 10);
byte_wrapper_harness!(c04e_bytes_len9, 9, 11);
byte_wrapper_harness!(c04e_bytes_len11, 11, 13);
byte_wrapper_harness!(c04e_bytes_len12, 12, 14);
byte_wrapper_harness!(c04e_bytes_len13, 13, 15);
byte_wrapper_harness!(c04e_bytes_len16, 16, 18);
byte_wrapper_harness!(c04e_bytes_len17, 17, 19);

// ---------------------------------------------------------------- C04.f Jenkins

fn het_vs_lookup3<const N: usize>() {
    let name: [u8; N] = ascii::<N>();
    let mut folded = name;
    let mut i = 0;
    while i < N {
        folded[i] = spec::fold_upper(name[i]);
        i += 1;
    }
    // documented seeds: pc = 2 (secondary), pb = 1 (primary)
    let (c, b) = lookup3::hashlittle2(&folded, 2, 1);
    let full = ((b as u64) << 32) | c as u64;
    let bits: u32 = kani::any();
    kani::assume(bits >= 8 && bits <= 64);
    let (and_mask, or_mask) = if bits == 64 { (u64::MAX, 0) } else { ((1u64 << bits) - 1, 1u64 << (bits - 1)) };
    let expect = (full & and_mask) | or_mask;
    let got = jenkins_hashlittle2(as_str(&name), bits);
    kani::cover!(bits == 48);
    assert!(got.0 == expect, "HET hash differs from lookup3 hashlittle2 of the folded name");
    assert!(got.1 == (expect >> (if bits == 64 { 56 } else { bits - 8 })) as u8, "HET name-hash byte is not the top byte of the masked hash");
    std::mem::forget(got);
}

macro_rules! het_harness {
    ($name:ident, $n:expr) => {
        #[kani::proof]
        #[kani::unwind(28)]
        fn $name() { het_vs_lookup3::<$n>() }
    };
}
het_harness!(c04f_het_len1, 1);
het_harness!(c04f_het_len2, 2);
het_harness!(c04f_het_len3, 3);
het_harness!(c04f_het_len4, 4);
het_harness!(c04f_het_len5, 5);
het_harness!(c04f_het_len7, 7);
het_harness!(c04f_het_len8, 8);
het_harness!(c04f_het_len11, 11);
het_harness!(c04f_het_len12, 12);
het_harness!(c04f_het_len13, 13);
het_harness!(c04f_het_len24, 24);
het_harness!(c04f_het_len25, 25);

#[kani::proof]
#[kani::unwind(6)]
fn c04f_het_empty_name() {
    let bits: u32 = kani::any();
    kani::assume(bits >= 8 && bits <= 64);
    let (c, b) = lookup3::hashlittle2(b"", 2, 1);
    let full = ((b as u64) << 32) | c as u64;
    let (and_mask, or_mask) = if bits == 64 { (u64::MAX, 0) } else { ((1u64 << bits) - 1, 1u64 << (bits - 1)) };
    let got = jenkins_hashlittle2("", bits);
    kani::cover!(bits == 64);
    assert!(got.0 == (full & and_mask) | or_mask, "HET hash of the empty name");
    std::mem::forget(got);
}

fn bet_vs_oaat<const N: usize>() {
    let name: [u8; N] = ascii::<N>();
    let mut folded = name;
    let mut i = 0;
    while i < N {
        folded[i] = spec::fold_lower(name[i]);
        i += 1;
    }
    kani::cover!(name[0] == b'/');
    assert!(jenkins_one_at_a_time(as_str(&name)) == lookup3::one_at_a_time64(&folded), "BET hash differs from one-at-a-time of the folded name");
}
#[kani::proof]
#[kani::unwind(8)]
fn c04f_bet_len1() { bet_vs_oaat::<1>() }
#[kani::proof]
#[kani::unwind(8)]
fn c04f_bet_len3() { bet_vs_oaat::<3>() }
#[kani::proof]
#[kani::unwind(8)]
fn c04f_bet_len5() { bet_vs_oaat::<5>() }

// ---------------------------------------------------------------- canary (vacuity twin)
#[kani::proof]
#[kani::unwind(4)]
fn c04_canary() {
    let key: u32 = kani::any();
    let plain: [u32; 2] = kani::any();
    let mut d = plain;
    encrypt_block(&mut d, key);
    decrypt_block(&mut d, key);
    assert!(d[0] != plain[0], "canary: must be reported as failing");
}
