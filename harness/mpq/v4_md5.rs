// C10.e - version-4 header digest: which bytes Archive::validate_v4_md5_checksums feeds to MD5.
// Child module of src/archive.rs (the function is private).  The MD5 compression function is replaced by a recording
// tap (as in C10.b), the file is the in-memory image: for an archive that starts at offset 0 or behind a 512-byte
// stub, the 192 bytes hashed for the header digest are exactly image[archive_offset .. archive_offset + 192] - so a
// change of any of them changes the digest input, and bytes outside them (the stub, the digest field itself) do not.
#![allow(unused_imports, dead_code)]
use super::*;
use crate::archive::verif_kani_archive::{fab_archive, memfile, vio};
use crate::header::{FormatVersion, MpqHeaderV4Data};
use crate::tables::{BlockTable, HashTable};

static mut TAP: [[u8; 64]; 4] = [[0; 64]; 4];
static mut TAP_BLOCKS: usize = 0;

fn md5_tap(_state: &mut [u32; 4], blocks: &[[u8; 64]]) {
    unsafe {
        let mut i = 0;
        while i < blocks.len() {
            if TAP_BLOCKS < 4 {
                TAP[TAP_BLOCKS] = blocks[i];
            }
            TAP_BLOCKS += 1;
            i += 1;
        }
    }
}

fn v4_header_digest_input(off: usize) {
    // image: [stub of `off` bytes][208-byte header area]; four probe positions carry symbolic bytes
    let mut img = [0x33u8; 720];
    let s: [u8; 6] = kani::any();
    img[0] = s[0];              // first byte of the file (the stub when off > 0)
    img[off] = s[1];            // first header byte
    img[off + 100] = s[2];
    img[off + 191] = s[3];      // last hashed byte
    img[off + 192] = s[4];      // first byte of the stored digest: not hashed
    img[off + 207] = s[5];
    memfile::set_image(&img[..off + 208]);
    unsafe { memfile::ELEMENTWISE = false; }
    let mut a = fab_archive(HashTable::new(4).unwrap(), BlockTable::new(1).unwrap(), 3);
    a.archive_offset = off as u64;
    a.header.format_version = FormatVersion::V4;
    a.header.header_size = 208;
    a.header.hash_table_size = 0;   // no table digests in this harness: only the header branch runs
    a.header.block_table_size = 0;
    a.header.v4_data = Some(MpqHeaderV4Data {
        hash_table_size_64: 0, block_table_size_64: 0, hi_block_table_size_64: 0, het_table_size_64: 0, bet_table_size_64: 0,
        raw_chunk_size: 0, md5_block_table: [0; 16], md5_hash_table: [0; 16], md5_hi_block_table: [0; 16],
        md5_bet_table: [0; 16], md5_het_table: [0; 16], md5_mpq_header: kani::any(),
    });
    unsafe { TAP_BLOCKS = 0; }
    let r = a.validate_v4_md5_checksums();
    assert!(r.is_ok(), "validating the digests of a readable V4 archive fails");
    // 192 bytes = three full blocks, then the padding block
    assert!(unsafe { TAP_BLOCKS } == 4, "the header digest is not computed over 192 bytes");
    let i: usize = kani::any();
    kani::assume(i < 192);
    let got = unsafe { TAP[i / 64][i % 64] };
    kani::cover!(i == 191);
    assert!(got == img[off + i], "header digest input differs from the 192 header bytes at the archive's offset");
    let pad = unsafe { TAP[3] };
    assert!(pad[0] == 0x80, "bytes behind the 192 header bytes are fed to the header digest");
    let bits = u64::from_le_bytes([pad[56], pad[57], pad[58], pad[59], pad[60], pad[61], pad[62], pad[63]]);
    assert!(bits == 8 * 192, "header digest length differs from 192 bytes");
    std::mem::forget((a, r));
}

macro_rules! v4h {
    ($name:ident, $off:expr) => {
        #[kani::proof]
        #[kani::unwind(70)]
        #[kani::stub(std::fmt::format, vio::fmt_stub)]
        #[kani::stub(<std::fs::File as std::io::Read>::read, memfile::mem_read)]
        #[kani::stub(<std::fs::File as std::io::Read>::read_buf, memfile::mem_read_buf)]
        #[kani::stub(<std::fs::File as std::io::Seek>::seek, memfile::mem_seek)]
        #[kani::stub(md5::compress::compress, md5_tap)]
        fn $name() { v4_header_digest_input($off) }
    };
}
v4h!(c10e_v4_header_digest_input_offset0, 0);
v4h!(c10e_v4_header_digest_input_embedded, 512);
