// warcraft-rs/tests/seeded_c11_traversal.rs -- run: cargo test --offline -p warcraft-rs --test seeded_c11_traversal -j 6
//
//! C11: `warcraft-rs mpq extract` must never create or modify files outside
//! the requested output directory, whatever the archive's entry names are.
//!
//! Every test builds a hostile archive with `wow_mpq::ArchiveBuilder`, runs the
//! real CLI binary on it and then walks the whole sandbox (a private temp dir)
//! to check that the only new files are beneath the output directory. All
//! hostile names are chosen so that, if the traversal succeeds, the escaped
//! file still lands inside the sandbox: nothing outside it is ever touched.

use std::collections::BTreeSet;
use std::fs;
use std::path::{Path, PathBuf};
use std::process::Command;
use tempfile::TempDir;
use wow_mpq::ArchiveBuilder;

/// All regular files (and symlinks) beneath `root`, recursively.
fn walk(root: &Path) -> BTreeSet<PathBuf> {
    let mut found = BTreeSet::new();
    let mut stack = vec![root.to_path_buf()];
    while let Some(dir) = stack.pop() {
        for entry in fs::read_dir(&dir).expect("read_dir") {
            let entry = entry.expect("dir entry");
            let ty = entry.file_type().expect("file type");
            if ty.is_dir() {
                stack.push(entry.path());
            } else {
                found.insert(entry.path());
            }
        }
    }
    found
}

struct Sandbox {
    _guard: TempDir,
    root: PathBuf,
    out: PathBuf,
}

impl Sandbox {
    fn new() -> Self {
        let guard = TempDir::new().expect("tempdir");
        // Canonicalise so that the absolute entry name below is a real absolute path.
        let root = guard.path().canonicalize().expect("canonicalize");
        fs::create_dir_all(root.join("in")).unwrap();
        // The output directory is three levels deep so that `..\..` stays in the sandbox.
        let out = root.join("out").join("deep").join("dir");
        Self {
            _guard: guard,
            root,
            out,
        }
    }

    /// Hostile entry names; each would land inside the sandbox but outside `out`.
    fn hostile_names(&self) -> Vec<String> {
        vec![
            // <root>/out/escape.txt
            "..\\..\\escape.txt".to_string(),
            // <root>/out/deep/x.txt
            "sub\\..\\..\\x.txt".to_string(),
            // mixed separators: <root>/out/deep/mixed.txt
            "a/..\\../mixed.txt".to_string(),
            // absolute path: <root>/abs_target/abs_escape.txt
            format!("{}/abs_target/abs_escape.txt", self.root.display()),
        ]
    }

    fn build_archive(&self, file_name: &str, tag: &str) -> PathBuf {
        let path = self.root.join("in").join(file_name);
        let mut builder = ArchiveBuilder::new()
            .add_file_data(format!("ok from {tag}").into_bytes(), "dir\\ok.txt");
        for name in self.hostile_names() {
            builder = builder.add_file_data(format!("ESCAPED from {tag}").into_bytes(), &name);
        }
        builder.build(&path).expect("build archive");
        path
    }

    /// Run `warcraft-rs mpq extract` and return the files that appeared or
    /// changed in the sandbox but are not beneath the output directory.
    fn extract_and_collect_escapes(&self, args: &[&str]) -> Vec<PathBuf> {
        let before = walk(&self.root);
        let before_content: Vec<(PathBuf, Vec<u8>)> = before
            .iter()
            .map(|p| (p.clone(), fs::read(p).unwrap()))
            .collect();

        let output = Command::new(env!("CARGO_BIN_EXE_warcraft-rs"))
            .args(["mpq", "extract"])
            .args(args)
            .arg("--output")
            .arg(&self.out)
            .current_dir(self.out_parent_for_cwd())
            .output()
            .expect("run warcraft-rs");
        println!(
            "exit: {:?}\n--- stdout ---\n{}\n--- stderr ---\n{}",
            output.status.code(),
            String::from_utf8_lossy(&output.stdout),
            String::from_utf8_lossy(&output.stderr)
        );

        let after = walk(&self.root);
        let mut escapes: Vec<PathBuf> = after
            .iter()
            .filter(|p| !before.contains(*p) && !p.starts_with(&self.out))
            .cloned()
            .collect();
        for (p, content) in before_content {
            if fs::read(&p).ok().as_ref() != Some(&content) {
                escapes.push(p);
            }
        }
        escapes
    }

    /// Working directory for the child: a scratch dir inside the sandbox, so
    /// that even a relative-path escape cannot leave it.
    fn out_parent_for_cwd(&self) -> PathBuf {
        let cwd = self.root.join("cwd").join("a").join("b");
        fs::create_dir_all(&cwd).unwrap();
        cwd
    }
}

fn assert_no_escape(sandbox: &Sandbox, escapes: &[PathBuf]) {
    assert!(
        escapes.is_empty(),
        "C11 VIOLATED: extraction to {} created/modified files outside it: {:#?}",
        sandbox.out.display(),
        escapes
    );
}

#[test]
fn c11_preserve_paths_no_patches() {
    let sb = Sandbox::new();
    let archive = sb.build_archive("evil.mpq", "base");
    let escapes = sb.extract_and_collect_escapes(&[
        archive.to_str().unwrap(),
        "--preserve-paths",
        "--skip-errors",
    ]);
    assert_no_escape(&sb, &escapes);
    // The harmless entry is still extracted.
    assert_eq!(
        fs::read(sb.out.join("dir").join("ok.txt")).expect("dir/ok.txt extracted"),
        b"ok from base"
    );
}

#[test]
fn c11_flat_no_patches() {
    let sb = Sandbox::new();
    let archive = sb.build_archive("evil.mpq", "base");
    let escapes = sb.extract_and_collect_escapes(&[archive.to_str().unwrap(), "--skip-errors"]);
    assert_no_escape(&sb, &escapes);
    assert_eq!(
        fs::read(sb.out.join("ok.txt")).expect("ok.txt extracted"),
        b"ok from base"
    );
}

#[test]
fn c11_preserve_paths_with_patch_chain() {
    let sb = Sandbox::new();
    let base = sb.build_archive("base.mpq", "base");
    let patch = sb.build_archive("patch.mpq", "patch");
    let escapes = sb.extract_and_collect_escapes(&[
        base.to_str().unwrap(),
        "--patch",
        patch.to_str().unwrap(),
        "--preserve-paths",
        "--skip-errors",
    ]);
    assert_no_escape(&sb, &escapes);
    assert_eq!(
        fs::read(sb.out.join("dir").join("ok.txt")).expect("dir/ok.txt extracted"),
        b"ok from patch"
    );
}

#[test]
fn c11_flat_with_patch_chain() {
    let sb = Sandbox::new();
    let base = sb.build_archive("base.mpq", "base");
    let patch = sb.build_archive("patch.mpq", "patch");
    let escapes = sb.extract_and_collect_escapes(&[
        base.to_str().unwrap(),
        "--patch",
        patch.to_str().unwrap(),
        "--skip-errors",
    ]);
    assert_no_escape(&sb, &escapes);
    assert_eq!(
        fs::read(sb.out.join("ok.txt")).expect("ok.txt extracted"),
        b"ok from patch"
    );
}

/// Without `--skip-errors` a rejected entry is a failed extraction: the tool
/// must exit non-zero, and still must not have written outside the output dir.
#[test]
fn c11_rejected_entry_is_an_error_without_skip_errors() {
    let sb = Sandbox::new();
    let archive = sb.build_archive("evil.mpq", "base");
    let before = walk(&sb.root);
    let status = Command::new(env!("CARGO_BIN_EXE_warcraft-rs"))
        .args([
            "mpq",
            "extract",
            archive.to_str().unwrap(),
            "-p",
            "--output",
        ])
        .arg(&sb.out)
        .current_dir(sb.out_parent_for_cwd())
        .output()
        .expect("run warcraft-rs");
    let escapes: Vec<PathBuf> = walk(&sb.root)
        .into_iter()
        .filter(|p| !before.contains(p) && !p.starts_with(&sb.out))
        .collect();
    assert_no_escape(&sb, &escapes);
    assert!(
        !status.status.success(),
        "hostile entries must make extraction fail unless --skip-errors is given"
    );
}
